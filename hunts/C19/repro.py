#!/usr/bin/env python
"""Reproductions for the C19 hunt.

Run with:
  cd /tmp/seed3/C19 && PYTHONPATH=/tmp/seed3/C19/src /venv/bin/python hunt/repro.py

Prints one line per finding: FINDING <n>: <VIOLATES|HOLDS> <description>
VIOLATES means the behaviour described in FINDINGS.md reproduces.
"""
import itertools
import os
import signal
import sys

sys.path.insert(0, os.path.join(os.path.dirname(os.path.abspath(__file__)), "..", "src"))

from ckl.interpreter import Interpreter  # noqa: E402
from ckl.errors import CklRuntimeError, CklSyntaxError  # noqa: E402


class Timeout(Exception):
    pass


def _on_alarm(signum, frame):
    raise Timeout()


signal.signal(signal.SIGALRM, _on_alarm)


def ev(src, legacy=True):
    """Evaluates src on a fresh interpreter, returns the rendered value or an ERR text."""
    signal.alarm(8)
    try:
        it = Interpreter(secure=False, legacy=legacy)
        return str(it.interpret(src, "repro.ckl"))
    except CklRuntimeError as e:
        return "RTERR: " + str(e.msg)
    except CklSyntaxError as e:
        return "SYNERR: " + str(e.msg)
    except Timeout:
        return "TIMEOUT"
    except Exception as e:  # noqa
        return "PYEXC: %r" % (e,)
    finally:
        signal.alarm(0)


def report(n, violates, text):
    print("FINDING %d: %s %s" % (n, "VIOLATES" if violates else "HOLDS", text))


# 1 union / symmetric_diff unusable in non-legacy mode
r1 = ev("require Set; Set->union(<<1, 2>>, <<2, 3>>)", legacy=False)
r2 = ev("require Set; Set->symmetric_diff(<<1, 2>>, <<2, 3>>)", legacy=False)
report(1, r1 != "<<1, 2, 3>>" or r2 != "<<1, 3>>",
       "non-legacy Set->union / Set->symmetric_diff: got %s / %s" % (r1, r2))

# 2 legacy: unqualified reverse(list) is String->reverse and returns NULL
r = ev("reverse([1, 2, 3])", legacy=True)
report(2, r != "[3, 2, 1]", "legacy reverse([1, 2, 3]) gives %s" % r)

# 3 gcd / lcm signs and lcm(0, 0)
rs = [ev("gcd(4, -6)"), ev("gcd(0, -5)"), ev("lcm(-4, 6)"), ev("lcm(4, -6)"), ev("lcm(0, 0)")]
report(3, rs != ["2", "5", "12", "12", "0"],
       "gcd(4,-6), gcd(0,-5), lcm(-4,6), lcm(4,-6), lcm(0,0) = %s" % ", ".join(rs))

# 4 chunks of an empty list / string
r1, r2 = ev("chunks([], 3)"), ev("chunks('', 3)")
report(4, r1 != "[]" or r2 != "[]", "chunks([], 3) = %s, chunks('', 3) = %s" % (r1, r2))

# 5 prod of the empty list
r = ev("prod([])")
report(5, r != "1", "prod([]) = %s (sum([]) = %s)" % (r, ev("sum([])")))

# 6 pow on ints with negative exponent
r = ev("[pow(2, -1), pow(-2, -1), pow(10, -2)]")
report(6, r == "[0, 0, 0]", "pow(2,-1), pow(-2,-1), pow(10,-2) = %s" % r)

# 7 mean depends on the order of the elements
vals = set()
for p in itertools.permutations(["0.1", "0.2", "0.3"]):
    vals.add(ev("mean([%s])" % ", ".join(p)))
report(7, len(vals) > 1, "mean over the permutations of [0.1, 0.2, 0.3] gives %s" % sorted(vals))

# 8 1 versus 1.0: min/max/median results differ in kind under permutation
rs = [ev("min([1, 1.0])"), ev("min([1.0, 1])"), ev("max([1, 1.0])"), ev("max([1.0, 1])"),
      ev("median([1, 1.0, 2])"), ev("median([1.0, 1, 2])"),
      ev("median_low([1, 1.0])"), ev("median_low([1.0, 1])"),
      ev("median_high([1, 1.0])"), ev("median_high([1.0, 1])")]
report(8, any(rs[i] != rs[i + 1] for i in range(0, len(rs), 2)),
       "min/max/median/median_low/median_high on permutations of 1 and 1.0: %s" % rs)

# 9 bitwise functions on negative or wider-than-32-bit arguments
rs = [ev("bit_or(-1, 0)"), ev("bit_not(0)"), ev("bit_shift_left(-1, 0)"), ev("bit_shift_right(-1, 1)"),
      ev("bit_and(4294967296, 4294967296)"), ev("bit_not(4294967296)")]
report(9, rs != ["4294967295", "4294967295", "4294967295", "2147483647", "0", "4294967295"],
       "bit_or(-1,0), bit_not(0), bit_shift_left(-1,0), bit_shift_right(-1,1), "
       "bit_and(2^32,2^32), bit_not(2^32) = %s" % rs)

# 10 NaN breaks permutation invariance
vals = {}
for fn in ("min", "max", "median"):
    s = set()
    for p in itertools.permutations(["decimal('nan')", "1", "2"]):
        s.add(ev("%s([%s])" % (fn, ", ".join(p))))
    vals[fn] = sorted(s)
report(10, any(len(v) > 1 for v in vals.values()), "min/max/median over permutations of [nan, 1, 2]: %s" % vals)
