"""Reference evaluator over the AST of vf/gen/render.py, written from the
property statements C02-C05 (and Appendix A of DESIGN.md), not from the
implementation.

Values: None, bool, int, float, str, Python list (shared by reference),
mv.MSet, mv.MMap, mv.MObj, Closure, Builtin.

Anything the statements leave open raises Unspecified: the generators discard
such programs, so the oracle never judges behaviour nobody specified.

`flags` select deliberate semantic changes (mutant models) used only to
measure how many generated programs can tell the stated semantics from a
plausible wrong one.
"""
from fractions import Fraction

from vf.model import values as mv


class Unspecified(Exception):
    pass


class Budget(Exception):
    pass


class CklError(Exception):
    def __init__(self, value):
        self.value = value


class BreakSig(Exception):
    pass


class ContinueSig(Exception):
    pass


class ReturnSig(Exception):
    def __init__(self, value):
        self.value = value


class Closure:
    def __init__(self, params, body, env, name="lambda"):
        self.params = params
        self.body = body
        self.env = env
        self.name = name


class Builtin:
    def __init__(self, name, fn, params):
        self.name = name
        self.fn = fn
        self.params = params        # list of (name, default_marker, is_rest)


class Env:
    def __init__(self, parent=None):
        self.vars = {}
        self.parent = parent

    def lookup(self, name):
        e = self
        while e is not None:
            if name in e.vars:
                return e
            e = e.parent
        return None


ERR = "ERROR"


def is_num(v):
    return isinstance(v, (int, float)) and not isinstance(v, bool)


def kind(v):
    if isinstance(v, (Closure, Builtin)):
        return "func"
    return mv.kind(v)


def meq(a, b):
    if isinstance(a, (Closure, Builtin)) or isinstance(b, (Closure, Builtin)):
        return a is b
    return mv.meq(a, b)


def string_form(v):
    """String form used by concatenation: raw text of strings, numerals of
    ints, TRUE/FALSE; other kinds are not used by the generators."""
    if isinstance(v, str):
        return v
    if isinstance(v, bool):
        return "TRUE" if v else "FALSE"
    if isinstance(v, int):
        return str(v)
    raise Unspecified("string form of " + kind(v))


class Evaluator:
    def __init__(self, flags=(), budget=20000):
        self.flags = set(flags)
        self.budget = budget
        self.steps = 0
        self.out = []
        self.globals = Env()
        self.dyn_stack = []         # for the dynamic-scoping mutant
        self._install_builtins()

    # ------------------------------------------------------------ builtins
    def _install_builtins(self):
        g = self.globals.vars

        def b_append(args):
            lst, x = args["lst"], args["element"]
            if isinstance(lst, list):
                lst.append(x)
                return lst
            if isinstance(lst, mv.MSet):
                if not any(meq(x, y) for y in lst.items):
                    lst.items.append(x)
                return lst
            raise Unspecified("append to " + kind(lst))

        def b_length(args):
            v = args["obj"]
            if isinstance(v, (str, list)):
                return len(v)
            if isinstance(v, mv.MSet):
                return len(v.items)
            if isinstance(v, mv.MMap):
                return len(v.pairs)
            raise Unspecified("length of " + kind(v))

        def b_identity(args):
            return args["obj"]

        def b_range(args):
            n = args["a"]
            if not isinstance(n, int) or isinstance(n, bool):
                raise Unspecified("range of " + kind(n))
            return list(range(n))

        g["range"] = Builtin("range", b_range, [("a", None, False)])
        g["append"] = Builtin("append", b_append,
                              [("lst", None, False), ("element", None, False)])
        g["length"] = Builtin("length", b_length, [("obj", None, False)])
        g["identity"] = Builtin("identity", b_identity,
                                [("obj", None, False)])

    # --------------------------------------------------------------- driver
    def tick(self):
        self.steps += 1
        if self.steps > self.budget:
            raise Budget()

    def run(self, stmts):
        """Top level: returns ("value", v) or ("error", v)."""
        env = Env(self.globals)
        try:
            try:
                v = self.exec_stmts(stmts, env)
            except ReturnSig as r:
                v = r.value
            except (BreakSig, ContinueSig):
                return ("error", ERR)
            return ("value", v)
        except CklError as e:
            return ("error", e.value)

    # ----------------------------------------------------------- statements
    def exec_stmts(self, stmts, env):
        v = True
        for s in stmts:
            v = self.exec_stmt(s, env)
        return v

    def exec_stmt(self, s, env):
        self.tick()
        k = s[0]
        if k == "expr":
            return self.eval(s[1], env)
        if k == "def":
            v = self.eval(s[2], env)
            self.define(env, s[1], v)
            if isinstance(v, Closure):
                v.name = s[1]
            return v
        if k == "deffn":
            c = Closure(s[2], s[3], env, s[1])
            self.define(env, s[1], c)
            return c
        if k == "defdes":
            v = self.eval(s[2], env)
            vals = self.destructure(v)
            r = None
            for i, n in enumerate(s[1]):
                r = vals[i] if i < len(vals) else None
                self.define(env, n, r)
            return r
        if k == "desassign":
            v = self.eval(s[2], env)
            vals = self.destructure(v)
            r = None
            for i, n in enumerate(s[1]):
                r = vals[i] if i < len(vals) else None
                self.assign(env, n, r)
            return r
        if k == "assign":
            # the binding must exist before the right-hand side is evaluated
            if env.lookup(s[1]) is None and "assign-creates-local" not in \
                    self.flags:
                raise CklError(ERR)
            v = self.eval(s[2], env)
            self.assign(env, s[1], v)
            return v
        if k == "opassign":
            if env.lookup(s[1]) is None:
                raise CklError(ERR)
            v = self.binop(s[2], self.getvar(env, s[1]),
                           self.eval(s[3], env))
            self.assign(env, s[1], v)
            return v
        if k == "setindex":
            idx = self.eval(s[2], env)
            cont = self.eval(s[1], env)
            val = self.eval(s[3], env)
            return self.setindex(cont, idx, val)
        if k == "setmember":
            cont = self.eval(s[1], env)
            val = self.eval(s[3], env)
            if not isinstance(cont, mv.MObj):
                raise Unspecified("member assignment on " + kind(cont))
            cont.members[s[2]] = val
            return cont
        if k == "if":
            return self.do_if(s[1], s[2], env, lambda b: self.exec_stmts(b, env))
        if k == "for":
            return self.do_for(s, env)
        if k == "while":
            return self.do_while(s, env)
        if k == "block":
            return self.do_block(s, env)
        if k == "break":
            raise BreakSig()
        if k == "continue":
            raise ContinueSig()
        if k == "return":
            raise ReturnSig(None if s[1] is None else self.eval(s[1], env))
        if k == "error":
            raise CklError(self.eval(s[1], env))
        raise ValueError(k)

    def define(self, env, name, v):
        if "def-updates-outer" in self.flags:
            e = env.lookup(name)
            if e is not None and e is not self.globals:
                e.vars[name] = v
                return
        env.vars[name] = v

    def assign(self, env, name, v):
        if "assign-creates-local" in self.flags:
            env.vars[name] = v
            return
        e = env.lookup(name)
        if e is None:
            raise CklError(ERR)
        e.vars[name] = v

    def getvar(self, env, name):
        if "dynamic-scope" in self.flags:
            for d in reversed(self.dyn_stack):
                if name in d.vars:
                    return d.vars[name]
        e = env.lookup(name)
        if e is None:
            raise CklError(ERR)
        return e.vars[name]

    def destructure(self, v):
        if isinstance(v, list):
            return v
        if isinstance(v, mv.MSet):
            return self.sorted_items(v.items)
        raise CklError(ERR)

    def sorted_items(self, items):
        if "insertion-order" in self.flags:
            return list(items)
        classes = {mv.order_class(x) for x in items}
        if len(classes) > 1:
            raise Unspecified("order of mixed-kind collection")
        if classes and next(iter(classes)) not in ("num", "string", "boolean",
                                                   "list"):
            raise Unspecified("order of " + next(iter(classes)))
        return mv.msorted(items)

    def do_if(self, branches, else_, env, run):
        first = "if-first-branch" in self.flags
        for i, (c, b) in enumerate(branches):
            v = self.truth(self.eval(c, env))
            if v or (first and i == 0):
                return run(b)
        if else_ is not None:
            return run(else_)
        # value of an if without a taken branch is unspecified: callers must
        # not use it; we return a marker that poisons comparisons
        return UNSPEC

    def iter_values(self, what, it):
        """Values visited by `for x in [what] it` (statement form)."""
        if isinstance(it, list):
            return list(it)
        if isinstance(it, mv.MSet):
            return self.sorted_items(it.items)
        if isinstance(it, str):
            return list(it)
        if isinstance(it, mv.MMap):
            keys = self.sorted_items([k for k, _ in it.pairs])
            if what == "keys":
                return keys
            if what == "values":
                return [it.get(k) for k in keys]
            if what == "entries":
                return [[k, it.get(k)] for k in keys]
            raise Unspecified("map iteration without keys/values/entries")
        raise CklError(ERR)

    def bind_loop_vars(self, env, names, v):
        if len(names) == 1:
            env.vars[names[0]] = v
            return
        vals = self.destructure(v) if isinstance(v, (list, mv.MSet)) else None
        if vals is None or len(vals) < len(names):
            raise Unspecified("destructuring loop variable shape")
        for n, x in zip(names, vals):
            env.vars[n] = x

    def do_for(self, s, env):
        _, names, what, ite, body = s
        it = self.eval(ite, env)
        vals = self.iter_values(what, it)
        for v in vals:
            self.tick()
            self.bind_loop_vars(env, names, v)
            try:
                self.exec_stmts(body, env)
            except BreakSig:
                if "break-two-loops" in self.flags:
                    raise
                break
            except ContinueSig:
                if "continue-is-break" in self.flags:
                    break
                continue
        for n in names:
            env.vars.pop(n, None)
        return UNSPEC

    def do_while(self, s, env):
        _, cond, body = s
        first = True
        while True:
            self.tick()
            if first or "while-test-once" not in self.flags:
                if not self.truth(self.eval(cond, env)):
                    break
            first = False
            try:
                self.exec_stmts(body, env)
            except BreakSig:
                if "break-two-loops" in self.flags:
                    raise
                break
            except ContinueSig:
                if "continue-is-break" in self.flags:
                    break
                continue
        return UNSPEC

    def do_block(self, s, env):
        _, body, catches, fin = s
        try:
            v = self._block_body(body, catches, env)
        except (ReturnSig, BreakSig, ContinueSig):
            if fin is not None and "finally-skipped-on-exit" not in self.flags:
                try:
                    self.exec_stmts(fin, env)
                except (ReturnSig, BreakSig, ContinueSig):
                    raise Unspecified("exit statement in a finally part "
                                      "while another exit is in progress")
            raise
        except CklError:
            if fin is not None:
                try:
                    self.exec_stmts(fin, env)
                except (ReturnSig, BreakSig, ContinueSig):
                    # "an unmatched error continues outward unchanged": an
                    # exit statement in the finally part does not swallow it
                    if "finally-exit-swallows-error" in self.flags:
                        raise
            raise
        if fin is not None:
            try:
                self.exec_stmts(fin, env)
                if "finally-twice" in self.flags:
                    self.exec_stmts(fin, env)
            except (ReturnSig, BreakSig, ContinueSig):
                raise Unspecified("exit statement in a finally part on the "
                                  "normal path")
        return v

    def _block_body(self, body, catches, env):
        try:
            if "continue-after-error" in self.flags:
                v = True
                for st in body:
                    try:
                        v = self.exec_stmt(st, env)
                    except CklError:
                        if not catches:
                            raise
                        v = None
                return v
            return self.exec_stmts(body, env)
        except CklError as e:
            for ce, cs in catches:
                if ce is None or "catch-first-clause" in self.flags:
                    return self.exec_stmts(cs, env)
                cv = self.eval(ce, env)
                if meq(cv, e.value):
                    return self.exec_stmts(cs, env)
            if "swallow-unmatched" in self.flags and catches:
                return None
            raise

    def truth(self, v):
        if v is UNSPEC:
            raise Unspecified("value of a statement without value used as "
                              "condition")
        if not isinstance(v, bool):
            raise CklError(ERR)
        return v

    # ---------------------------------------------------------- expressions
    def eval(self, e, env):
        self.tick()
        k = e[0]
        if k == "null":
            return None
        if k in ("bool", "int", "dec", "str"):
            return e[1]
        if k == "var":
            return self.getvar(env, e[1])
        if k == "neg":
            v = self.eval(e[1], env)
            if v is None:
                return None
            if not is_num(v):
                raise Unspecified("unary minus on " + kind(v))
            return -v if v != 0 or isinstance(v, int) else (0.0 - v)
        if k == "par":
            return self.eval(e[1], env)
        if k == "pos":
            return self.eval(e[1], env)
        if k == "not":
            return not self.truth(self.eval(e[1], env))
        if k == "bin":
            a = self.eval(e[2], env)
            b = self.eval(e[3], env)
            return self.binop(e[1], a, b)
        if k == "cmp":
            left = self.eval(e[1][0], env)
            for o, xe in zip(e[2], e[1][1:]):
                right = self.eval(xe, env)
                if "chain-first-operand" in self.flags:
                    ok = self.compare(o, self.eval(e[1][0], env), right)
                else:
                    ok = self.compare(o, left, right)
                if not ok:
                    return False
                left = right
            return True
        if k == "and":
            if "eager-and-or" in self.flags:
                vals = [self.eval(x, env) for x in e[1]]
                for v in vals:
                    if not isinstance(v, bool):
                        raise CklError(ERR)
                return all(vals)
            for x in e[1]:
                if not self.truth(self.eval(x, env)):
                    return False
            return True
        if k == "or":
            if "eager-and-or" in self.flags:
                vals = [self.eval(x, env) for x in e[1]]
                for v in vals:
                    if not isinstance(v, bool):
                        raise CklError(ERR)
                return any(vals)
            for x in e[1]:
                if self.truth(self.eval(x, env)):
                    return True
            return False
        if k == "in":
            a = self.eval(e[1], env)
            b = self.eval(e[2], env)
            r = self.member(a, b)
            return (not r) if e[3] else r
        if k == "is":
            v = self.eval(e[1], env)
            r = self.predicate(v, e[2])
            return (not r) if e[3] else r
        if k == "list":
            out = []
            for it in e[1]:
                if it[0] == "spread":
                    v = self.eval(it[1], env)
                    if isinstance(v, list):
                        out.extend(v)
                    elif isinstance(v, mv.MSet):
                        out.extend(self.sorted_items(v.items))
                    elif isinstance(v, mv.MMap):
                        out.extend(self.sorted_items([k for k, _ in v.pairs]))
                    else:
                        raise CklError(ERR)
                else:
                    out.append(self.eval(it, env))
            return out
        if k == "set":
            return mv.MSet([self.eval(x, env) for x in e[1]])
        if k == "map":
            return mv.MMap([(self.eval(a, env), self.eval(b, env))
                            for a, b in e[1]])
        if k == "obj":
            return mv.MObj({n: self.eval(v, env) for n, v in e[1]})
        if k == "call":
            f = self.eval(e[1], env)
            if not isinstance(f, (Closure, Builtin)):
                raise CklError(ERR)
            pos, named = self.eval_args(e[2], env)
            return self.call(f, pos, named, env)
        if k == "pipe":
            x_first = self.eval(e[1], env) if False else None
            f = self.eval(e[2], env)
            if not isinstance(f, (Closure, Builtin)):
                raise CklError(ERR)
            x = self.eval(e[1], env)
            pos, named = self.eval_args(e[3], env)
            if "pipe-inserts-last" in self.flags:
                pos = pos + [x]
            else:
                pos = [x] + pos
            return self.call(f, pos, named, env)
        if k == "method":
            o = self.eval(e[1], env)
            if not isinstance(o, mv.MObj):
                raise Unspecified("method call on " + kind(o))
            f = self.lookup_member(o, e[2])
            if f is MISSING:
                raise CklError(ERR)
            if not isinstance(f, (Closure, Builtin)):
                raise CklError(ERR)
            pos, named = self.eval_args(e[3], env)
            if "method-without-receiver" not in self.flags:
                pos = [o] + pos
            return self.call(f, pos, named, env)
        if k == "member":
            o = self.eval(e[1], env)
            if not isinstance(o, mv.MObj):
                raise Unspecified("member access on " + kind(o))
            v = self.lookup_member(o, e[2])
            if v is MISSING:
                raise Unspecified("missing member value")
            return v
        if k == "index":
            idx = self.eval(e[2], env)
            a = self.eval(e[1], env)
            return self.index(a, idx)
        if k == "slice":
            a = self.eval(e[1], env)
            i = self.eval(e[2], env)
            j = self.eval(e[3], env) if e[3] is not None else None
            return self.slice(a, i, j)
        if k == "fn":
            return Closure(e[1], e[2], env)
        if k == "ife":
            return self.do_if(e[1], e[2], env,
                              lambda b: self.exec_stmts(b, env))
        if k == "blocke":
            return self.do_block(e[1], env)
        if k == "lcomp":
            return self.comprehension(e, env)
        if k == "mcomp":
            return self.map_comprehension(e, env)
        raise ValueError(k)

    def lookup_member(self, o, name):
        cur = o
        depth = 0
        while True:
            if name in cur.members:
                return cur.members[name]
            if "no-proto-walk" in self.flags:
                return MISSING
            p = cur.members.get("_proto_")
            if not isinstance(p, mv.MObj) or depth > 10:
                return MISSING
            cur = p
            depth += 1

    # ---- operators
    def binop(self, o, a, b):
        if a is UNSPEC or b is UNSPEC:
            raise Unspecified("value of a statement without value")
        if o in "+-*/%" and (a is None or b is None):
            if isinstance(a, (list, mv.MSet)) or isinstance(b, (list, mv.MSet)):
                raise Unspecified("collection with NULL")
            return None
        if is_num(a) and is_num(b):
            if "float-int-arith" in self.flags and isinstance(a, int) and \
                    isinstance(b, int) and o in "+-*":
                return int({"+": float(a) + float(b), "-": float(a) - float(b),
                            "*": float(a) * float(b)}[o])
            both_int = isinstance(a, int) and isinstance(b, int)
            if o == "+":
                return a + b if both_int else float(a) + float(b)
            if o == "-":
                if "right-assoc-sub" in self.flags:
                    pass
                return a - b if both_int else float(a) - float(b)
            if o == "*":
                return a * b if both_int else float(a) * float(b)
            if o == "/":
                if b == 0:
                    raise CklError(ERR)
                if both_int:
                    q = abs(a) // abs(b)
                    return -q if (a < 0) != (b < 0) else q
                return float(a) / float(b)
            if o == "%":
                if b == 0:
                    raise CklError(ERR)
                if both_int and a >= 0 and b > 0:
                    return a % b
                raise Unspecified("% convention outside a >= 0, b > 0")
        if o == "+":
            if isinstance(a, list):
                if isinstance(b, list):
                    return a + b
                if isinstance(b, mv.MSet):
                    return a + self.sorted_items(b.items)
                return a + [b]
            if isinstance(a, mv.MSet):
                if isinstance(b, mv.MSet):
                    return mv.MSet(a.items + b.items)
                if isinstance(b, list):
                    return mv.MSet(a.items + b)
                return mv.MSet(a.items + [b])
            if isinstance(a, str) and isinstance(b, str):
                return a + b
            if isinstance(a, str) and isinstance(b, (int, bool)):
                return a + string_form(b)
            if isinstance(b, str) and isinstance(a, (int, bool)):
                return string_form(a) + b
            raise Unspecified(f"{kind(a)} + {kind(b)}")
        if o == "-":
            if isinstance(a, list):
                rem = b if isinstance(b, list) else (
                    b.items if isinstance(b, mv.MSet) else [b])
                return [x for x in a if not any(meq(x, y) for y in rem)]
            if isinstance(a, mv.MSet):
                rem = b.items if isinstance(b, mv.MSet) else (
                    b if isinstance(b, list) else [b])
                return mv.MSet([x for x in a.items
                                if not any(meq(x, y) for y in rem)])
            raise Unspecified(f"{kind(a)} - {kind(b)}")
        if o == "*":
            if isinstance(a, str) and isinstance(b, int) and \
                    not isinstance(b, bool) and b >= 0:
                return a * b
            if isinstance(a, list) and isinstance(b, int) and \
                    not isinstance(b, bool) and b >= 0:
                return a * b
            raise Unspecified(f"{kind(a)} * {kind(b)}")
        raise Unspecified(f"{kind(a)} {o} {kind(b)}")

    def compare(self, o, a, b):
        if a is UNSPEC or b is UNSPEC:
            raise Unspecified("value of a statement without value")
        if o in ("==", "is"):
            return meq(a, b)
        if o in ("!=", "<>", "is not"):
            return not meq(a, b)
        if isinstance(a, (Closure, Builtin)) or isinstance(b, (Closure, Builtin)):
            raise Unspecified("order of functions")
        ca, cb = mv.order_class(a), mv.order_class(b)
        if ca != cb or ca not in ("num", "string", "boolean", "list"):
            raise Unspecified(f"order of {ca} and {cb}")
        if ca == "list":
            self._check_list_order(a, b)
        c = mv.mcmp(a, b)
        return {"<": c < 0, "<=": c <= 0, ">": c > 0, ">=": c >= 0}[o]

    def _check_list_order(self, a, b):
        for x, y in zip(a, b):
            cx, cy = mv.order_class(x), mv.order_class(y)
            if cx != cy or cx not in ("num", "string", "boolean", "list"):
                raise Unspecified("order of lists with mixed kinds")
            if cx == "list":
                self._check_list_order(x, y)

    def member(self, a, b):
        if isinstance(b, list):
            return any(meq(a, x) for x in b)
        if isinstance(b, mv.MSet):
            return any(meq(a, x) for x in b.items)
        if isinstance(b, mv.MMap):
            return b.has(a)
        if isinstance(b, str):
            if isinstance(a, str):
                return a in b
            raise Unspecified("non-string in string")
        raise Unspecified("in " + kind(b))

    def predicate(self, v, words):
        p = words[0]
        if len(words) > 1:
            raise Unspecified("predicate " + " ".join(words))
        types = {"string": "string", "int": "int", "decimal": "decimal",
                 "boolean": "boolean", "pattern": "pattern", "func": "func",
                 "list": "list", "set": "set", "map": "map",
                 "object": "object"}
        if p in types:
            return kind(v) == types[p]
        if p == "empty":
            if v is None:
                return True
            if isinstance(v, (str, list)):
                return len(v) == 0
            if isinstance(v, mv.MSet):
                return len(v.items) == 0
            if isinstance(v, mv.MMap):
                return len(v.pairs) == 0
            if is_num(v):
                return False
            raise Unspecified("is empty on " + kind(v))
        if p == "zero":
            return is_num(v) and v == 0
        if p == "negative":
            return is_num(v) and v < 0
        raise Unspecified("predicate " + p)

    def index(self, a, i):
        if a is None:
            raise Unspecified("index of NULL")
        if isinstance(a, (str, list)):
            if not isinstance(i, int) or isinstance(i, bool):
                raise Unspecified("non-int index")
            j = i + len(a) if i < 0 else i
            if 0 <= j < len(a):
                return a[j]
            raise CklError(ERR)
        if isinstance(a, mv.MMap):
            if a.has(i):
                return a.get(i)
            raise CklError(ERR)
        raise Unspecified("index of " + kind(a))

    def slice(self, a, i, j):
        if not isinstance(a, (str, list)):
            raise Unspecified("slice of " + kind(a))
        n = len(a)
        for x in (i, j):
            if x is not None and (not isinstance(x, int) or isinstance(x, bool)):
                raise Unspecified("non-int slice bound")
        i = min(max(i + n if i < 0 else i, 0), n)
        j = n if j is None else min(max(j + n if j < 0 else j, 0), n)
        return a[i:j] if i < j else a[:0]

    def setindex(self, cont, idx, val):
        if isinstance(cont, list):
            if not isinstance(idx, int) or isinstance(idx, bool):
                raise Unspecified("non-int index")
            j = idx + len(cont) if idx < 0 else idx
            if 0 <= j < len(cont):
                cont[j] = val
                return cont
            raise CklError(ERR)
        if isinstance(cont, mv.MMap):
            for n, (k, _) in enumerate(cont.pairs):
                if meq(k, idx):
                    cont.pairs[n] = (k, val)
                    return cont
            cont.pairs.append((idx, val))
            return cont
        raise Unspecified("element assignment on " + kind(cont))

    # ---- calls
    def eval_args(self, args, env):
        pos, named = [], []
        for a in args:
            if a[0] == "pos":
                if named and "positional-after-named" not in self.flags:
                    raise Unspecified("positional after named argument")
                pos.append(self.eval(a[1], env))
            elif a[0] == "named":
                named.append((a[1], self.eval(a[2], env)))
            else:
                v = self.eval(a[1], env)
                if isinstance(v, list):
                    if "spread-not-in-place" in self.flags:
                        pos = list(v) + pos
                    else:
                        pos.extend(v)
                elif isinstance(v, mv.MSet):
                    pos.extend(self.sorted_items(v.items))
                elif isinstance(v, mv.MMap):
                    for kk, vv in v.pairs:
                        if not isinstance(kk, str):
                            raise Unspecified("spread map with non-string key")
                        named.append((kk, vv))
                else:
                    raise CklError(ERR)
        return pos, named

    def call(self, f, pos, named, caller_env):
        self.tick()
        params = f.params
        names = [p[0] for p in params if not p[2]]
        rest = [p[0] for p in params if p[2]]
        bound = {}
        if "positional-first" in self.flags:
            free = list(names)
            extra = []
            for v in pos:
                if free:
                    bound[free.pop(0)] = v
                else:
                    extra.append(v)
            for n, v in named:
                if n not in names:
                    raise CklError(ERR)
                bound[n] = v
        else:
            seen = set()
            for n, v in named:
                if n not in names:
                    raise CklError(ERR)
                if n in seen:
                    raise Unspecified("argument named twice")
                seen.add(n)
                bound[n] = v
            free = [n for n in names if n not in bound]
            extra = []
            for v in pos:
                if free:
                    bound[free.pop(0)] = v
                else:
                    extra.append(v)
        if extra and not rest:
            raise CklError(ERR)
        if "rest-drops-first" in self.flags and extra:
            extra = extra[1:]
        if isinstance(f, Builtin):
            for p in params:
                if not p[2] and p[0] not in bound:
                    raise CklError(ERR)
            return f.fn(bound)
        env = Env(f.env)
        if "shared-params" in self.flags:
            env = f.__dict__.setdefault("_shared_env", env)
        for (n, default, is_rest) in params:
            if is_rest:
                env.vars[n + "..."] = list(extra)
            elif n in bound:
                env.vars[n] = bound[n]
            elif default is not None:
                if "default-in-caller-scope" in self.flags:
                    env.vars[n] = self.eval(default, caller_env)
                elif "default-at-definition" in self.flags:
                    key = ("_defcache", n)
                    cache = f.__dict__.setdefault("_defcache", {})
                    if n not in cache:
                        cache[n] = self.eval(default, f.env)
                    env.vars[n] = cache[n]
                else:
                    env.vars[n] = self.eval(default, env)
            else:
                raise CklError(ERR)
        self.dyn_stack.append(env)
        try:
            if f.body[0] == "block":
                v = self.do_block(f.body, env)
            else:
                v = self.eval(f.body, env)
        except ReturnSig as r:
            if "return-leaves-loop-only" in self.flags:
                raise
            v = r.value
        except (BreakSig, ContinueSig):
            raise CklError(ERR)
        finally:
            self.dyn_stack.pop()
        return v

    # ---- comprehensions
    def comp_values(self, what, it):
        if isinstance(it, mv.MMap) and what is None:
            raise Unspecified("comprehension over a map without what")
        return self.iter_values(what, it)

    def comprehension(self, e, env):
        _, ckind, value, var, what, ite, second, cond = e
        out = []
        it = self.eval(ite, env)
        vals = self.comp_values(what, it)
        local = Env(env)
        if second is None:
            combos = [(v,) for v in vals]
            names = (var,)
        else:
            mode, var2, what2, ite2 = second
            vals2 = self.comp_values(what2, self.eval(ite2, env))
            names = (var, var2)
            if mode == "for":
                combos = [(a, b) for a in vals for b in vals2]
            else:
                if len(vals) != len(vals2):
                    raise Unspecified("parallel comprehension of unequal "
                                      "lengths")
                combos = list(zip(vals, vals2))
        for combo in combos:
            self.tick()
            for n, v in zip(names, combo):
                local.vars[n] = v
            # the equivalent explicit loop tests the filter first and
            # evaluates the element expression for accepted elements only
            if "value-before-filter" in self.flags:
                v = self.eval(value, local)
            if cond is not None and "filter-ignored" not in self.flags:
                if not self.truth(self.eval(cond, local)):
                    continue
            if "value-before-filter" not in self.flags:
                v = self.eval(value, local)
            out.append(v)
        return out if ckind == "list" else mv.MSet(out)

    def map_comprehension(self, e, env):
        _, key, value, var, what, ite, cond = e
        it = self.eval(ite, env)
        vals = self.comp_values(what, it)
        local = Env(env)
        pairs = []
        for v in vals:
            self.tick()
            local.vars[var] = v
            if "value-before-filter" in self.flags:
                kk = self.eval(key, local)
                vv = self.eval(value, local)
            if cond is not None and "filter-ignored" not in self.flags:
                if not self.truth(self.eval(cond, local)):
                    continue
            if "value-before-filter" not in self.flags:
                kk = self.eval(key, local)
                vv = self.eval(value, local)
            pairs.append((kk, vv))
        return mv.MMap(pairs)


class _Unspec:
    def __repr__(self):
        return "<unspecified>"


UNSPEC = _Unspec()
MISSING = object()


def contains_unspec(v, depth=0):
    if v is UNSPEC:
        return True
    if depth > 20:
        return False
    if isinstance(v, list):
        return any(contains_unspec(x, depth + 1) for x in v)
    if isinstance(v, mv.MSet):
        return any(contains_unspec(x, depth + 1) for x in v.items)
    if isinstance(v, mv.MMap):
        return any(contains_unspec(a, depth + 1) or contains_unspec(b, depth + 1)
                   for a, b in v.pairs)
    if isinstance(v, mv.MObj):
        return any(contains_unspec(x, depth + 1) for x in v.members.values())
    return False


def strip_funcs(v, depth=0):
    """Replace closures/builtins by mv.Func so that results can be compared
    with converted interpreter values."""
    if isinstance(v, (Closure, Builtin)):
        return mv.Func(v.name)
    if depth > 20:
        return v
    if isinstance(v, list):
        return [strip_funcs(x, depth + 1) for x in v]
    if isinstance(v, mv.MSet):
        return mv.MSet([strip_funcs(x, depth + 1) for x in v.items])
    if isinstance(v, mv.MMap):
        return mv.MMap([(strip_funcs(a, depth + 1), strip_funcs(b, depth + 1))
                        for a, b in v.pairs])
    if isinstance(v, mv.MObj):
        return mv.MObj({k: strip_funcs(x, depth + 1)
                        for k, x in v.members.items()})
    return v


def model_run(stmts, flags=(), budget=20000):
    """Returns ("value", v) | ("error", v) | ("unspecified", why) |
    ("budget",)."""
    ev = Evaluator(flags, budget)
    try:
        r = ev.run(stmts)
    except Unspecified as u:
        return ("unspecified", str(u))
    except Budget:
        return ("budget",)
    except RecursionError:
        return ("budget",)
    if contains_unspec(r[1]):
        return ("unspecified", "result contains the value of a statement "
                               "whose value is unspecified")
    return (r[0], strip_funcs(r[1]))
