#!/usr/bin/env python
"""C14 hunt: reproductions.  Run with
   cd /tmp/seed3/C14 && PYTHONPATH=/tmp/seed3/C14/src /venv/bin/python hunt/repro.py
Prints one line per finding: FINDING <n>: <VIOLATES|HOLDS> <description>."""
import io
import signal

from ckl.interpreter import Interpreter
from ckl.errors import CklRuntimeError, CklSyntaxError


class Timeout(Exception):
    pass


def _alarm(*_):
    raise Timeout()


signal.signal(signal.SIGALRM, _alarm)


def run(src, legacy):
    """Observable behaviour: (kind, result-or-error-value, output)."""
    it = Interpreter(secure=False, legacy=legacy)
    out = io.StringIO()
    it.setStandardOutput(out)
    signal.alarm(10)
    try:
        v = it.interpret(src, "t.ckl")
        r = ("ok", repr(v))
    except CklRuntimeError as e:
        r = ("runtime-error", repr(e.value))
    except CklSyntaxError:
        r = ("syntax-error", "")
    except Timeout:
        r = ("timeout", "")
    except RecursionError:
        r = ("python-exception", "RecursionError")
    except Exception as e:  # an internal Python exception escaping
        r = ("python-exception", type(e).__name__)
    finally:
        signal.alarm(0)
    return r + (out.getvalue(),)


def differs(*srcs):
    """True if the renderings do not all behave identically (in any mode)."""
    for legacy in (True, False):
        rs = [run(s, legacy) for s in srcs]
        if any(r != rs[0] for r in rs):
            return True
    return False


FINDINGS = [
    # (number, description, list of groups; each group = renderings that
    #  must behave identically according to C14)
    (1, "parentheses around the body expression of 'for' / the handler of "
        "'catch' turn the preceding expression into a call",
     [
         ["def l = [1, 2, 3]; for x in l println(x)",
          "def l = [1, 2, 3]; for x in l (println(x))"],
         ["def l = [1, 2, 3]; def s = 0; for x in l s += x; s",
          "def l = [1, 2, 3]; def s = 0; for x in l (s += x); s"],
         ["def e = 'E1'; do error 'E1' catch e 'caught' end",
          "def e = 'E1'; do error 'E1' catch e ('caught') end"],
     ]),
    (2, "the trailing semicolon after a bare 'return' before end/catch/EOF "
        "is not optional",
     [
         ["def f() do if TRUE then do return; end; 1 end; f()",
          "def f() do if TRUE then do return end; 1 end; f()"],
         ["def f() do do return; catch all 1 end; 2 end; f()",
          "def f() do do return catch all 1 end; 2 end; f()"],
         ["def f() do return; end; f()",
          "def f() do return end; f()"],
         ["return;", "return"],
     ]),
    (3, "-<literal> and -(<literal>) differ: -0.0 versus 0.0, and "
        "different binding of !> / is / in",
     [
         ["-0.0", "-(0.0)"],
         ["println(-0.0)", "println(-(0.0))"],
         ["-2 !> abs()", "-(2) !> abs()"],
         ["-1 is negative", "-(1) is negative"],
         ["-3 in [-3]", "-(3) in [-3]"],
     ]),
    (4, "[doubtful] a trailing semicolon is rejected inside a parenthesised "
        "statement sequence",
     [
         ["(1; 2)", "(1; 2;)"],
     ]),
    (5, "[doubtful] adjacent tokens made of < and > merge when the "
        "separating blank is dropped",
     [
         ["<<1>> > <<0>>", "<<1>>><<0>>"],
         ["<<<1 => <<2>> >>>", "<<<1 => <<2>>>>>"],
         ["1 < <<2>>", "1<<<2>>"],
     ]),
    (6, "[doubtful] parentheses change operands that the parser reads "
        "without going through the expression grammar (keys/values/entries, "
        "spread operand, obj->member call)",
     [
         ["def values = [1, 2]; for x in values do println(x) end",
          "def values = [1, 2]; for x in (values) do println(x) end"],
         ["def keys = [1, 2]; [x for x in keys]",
          "def keys = [1, 2]; [x for x in (keys)]"],
         ["def f(a...) a...; def l = [1, 2]; f(...l)",
          "def f(a...) a...; def l = [1, 2]; f(...(l))"],
         ["def o = <*a = 2, f(self, k) self->a * k*>; o->f(5)",
          "def o = <*a = 2, f(self, k) self->a * k*>; (o->f)(5)"],
     ]),
]


def main():
    for n, desc, groups in FINDINGS:
        bad = sum(1 for g in groups if differs(*g))
        verdict = "VIOLATES" if bad else "HOLDS"
        print(f"FINDING {n}: {verdict} {desc} "
              f"({bad}/{len(groups)} reproductions differ)")


if __name__ == "__main__":
    main()
