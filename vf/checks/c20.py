"""C20  Reported source lines are the lines where the reported construct starts."""
import os
import re
import shutil
import tempfile

from vf.core import Finding, time_limit, CaseTimeout
from vf.gen.chooser import TapeChooser, tapes
from vf import cklrun

PROPERTY = "C20"
RULE = (
    "(a) Token level: random sequences of tokens of every kind (identifiers, "
    "keywords, ints in all spellings, decimals, both string styles incl. "
    "multi-line strings, patterns, every operator and bracket) laid out by the "
    "generator with every kind of following character (space, TAB, LF, CRLF, "
    "comment, bracket, operator, end of input) so that each token's start "
    "line is known; oracle: Token.pos.filename is the given name and "
    "Token.pos.line the known start line. (b) Programs built from harmless "
    "multi-line statements with one planted fault (undefined name, type "
    "error, division by zero, call of a non-function, explicit error, six "
    "syntax faults) whose construct is kept on one line - or, for calls, "
    "begins with name and opening parenthesis on one line and continues "
    "with positional, named and spread arguments on following lines - while "
    "everything else is spread randomly over lines (LF/CRLF, comments), at top level, inside "
    "blocks, inside a called function (stack trace) and inside a generated "
    "module file required in six styles (plain, as alias, unqualified, "
    "import list, import alias, alias then plain); oracle: the syntax / runtime error position names the given "
    "file (mod:<name> for module code) and the planted line, and every "
    "stack-trace entry names the line of its call. Non-trivial = token "
    "directly followed by a line break or a layout with >= 3 lines."
)
ASSUMPTIONS = [
    "columns are not part of the statement and are not checked",
    "every planted construct (and every call whose stack-trace entry is "
    "checked) is kept on one line or begins with `name (` on one line, so "
    "the oracle does not depend on which token of the construct is blamed",
    "text handed to eval() or s() at run time is a program of its own: a "
    "fault inside it must carry a file and a line, but the line counts "
    "within that text (the statement speaks of the program's layout)",
]

NAME = "prog.ckl"

TOKENS = [
    # (text, number of line breaks inside the token)
    ("a", 0), ("foo_1", 0), ("x...", 0), ("if", 0), ("then", 0), ("do", 0),
    ("end", 0), ("def", 0), ("fn", 0), ("for", 0), ("in", 0), ("is", 0),
    ("not", 0), ("and", 0), ("return", 0), ("require", 0), ("TRUE", 0),
    ("FALSE", 0), ("0", 0), ("7", 0), ("42", 0), ("1_000", 0), ("0x1F", 0),
    ("0b101", 0), ("1.5", 0), ("0.25", 0), ("10.", 0), ("'s'", 0),
    ('"d q"', 0), ("'multi\nline'", 1), ('"two\n\nbreaks"', 2),
    ("'esc\\n\\x41'", 0), ("''", 0), ("//a+//", 0), ("//x y//", 0),
    ("+", 0), ("-", 0), ("*", 0), ("/", 0), ("%", 0), ("==", 0), ("<>", 0),
    ("!=", 0), ("<", 0), ("<=", 0), (">", 0), (">=", 0), ("=", 0), ("+=", 0),
    ("-=", 0), ("*=", 0), ("/=", 0), ("%=", 0), ("!>", 0), ("->", 0),
    ("(", 0), (")", 0), ("[", 0), ("]", 0), (",", 0), (";", 0), ("<<", 0),
    (">>", 0), ("<<<", 0), (">>>", 0), ("<*", 0), ("*>", 0), ("=>", 0),
    ("...", 0),
]
TERMINATORS = set("()[],;")
SEPS = [" ", " ", "  ", "\t", "\n", "\n", "\r\n", "\n\n", " \n ", " # c\n",
        "#\n", " # x\r\n", "\n# only comment\n", "\t\n\t"]


def lex_case(tokens, seps, tail):
    """tokens: list of token texts; seps[i] separates token i and i+1."""
    text = ""
    line = 1
    starts = []
    for i, t in enumerate(tokens):
        starts.append(line)
        text += t
        line += t.count("\n")
        s = seps[i] if i < len(seps) else tail
        text += s
        line += s.count("\n")
    return text, starts


def lex_prop(tokens, seps, tail):
    from ckl.lexer import Lexer
    text, starts = lex_case(tokens, seps, tail)
    try:
        with time_limit(10):
            toks = Lexer(text, NAME).scan().tokens
    except CaseTimeout:
        return Finding("C20|lexer-timeout", repr(text))
    except Exception as e:
        return Finding(f"C20|lexer-raises-{type(e).__name__}",
                       f"{text!r}: {e}")
    if len(toks) != len(tokens):
        return "mismatch"
    for tok, want, src in zip(toks, starts, tokens):
        pos = tok.pos
        if getattr(pos, "filename", None) != NAME:
            return Finding("C20|token-filename",
                           f"{text!r}: token {src!r} has file "
                           f"{getattr(pos, 'filename', None)!r}")
        if getattr(pos, "line", None) != want:
            return Finding("C20|token-line|" + _tok_kind(tok),
                           f"{text!r}: token {src!r} starts on line {want} "
                           f"but carries line {getattr(pos, 'line', None)}")
    return None


def _tok_kind(tok):
    return getattr(tok, "type", "?")


# --------------------------------------------------------------- programs

RUNTIME_FAULTS = [
    ("undefined-name", "undefined_name_q"),
    ("type-error", "1 + TRUE"),
    ("div-zero", "1 / 0"),
    ("not-a-function", "v0 ( 1 )"),
    ("explicit-error", "error 'boom'"),
    ("bad-index", "[ 1 ] [ 5 ]"),
    ("builtin-arg", "length ( 1 )"),
    ("non-boolean-if", "if 1 then 2"),
    # a name that was referenced (validly) earlier on another line
    ("out-of-scope-name", "pz_q"),
    ("second-use-fails", "seen_q ( 1 )"),
    ("member-key-not-a-string", "<* a = 1 *> [ stdout ]"),
    # deeper than the host stack (the harness runs with a limit of 5000)
    ("too-deep", " + ".join(["1"] * 3500)),
    # errors raised by helpers that do not know where they were called
    ("comprehension-over-int", "[ x for x in v0 ]"),
    ("set-comprehension-over-int", "<< x for x in v0 >>"),
    ("map-comprehension-over-int", "<<< x => 1 for x in v0 >>>"),
    ("product-comprehension-over-int", "[ x for x in [ 1 ] for y in v0 ]"),
    ("conversion", "int ( 'x' )"), ("pow-of-string", "pow ( 'a' , 2 )"),
    ("bind-unknown-native", "bind_native ( 'nosuch' )"),
    ("ls-of-int", "ls ( 1 )"), ("date-of-text", "date ( 'x' )"),
    ("callback-not-a-function", "process_lines ( [ 'a' ] , 5 )"),
    # calls written over several lines: the call begins at its first line
    ("builtin-arg-multiline", "length ( ¶ 1 ¶ )"),
    ("builtin-too-many-spread", "length ( ¶ ... [ 1 , 2 ] ¶ )"),
    ("builtin-spread-type", "upper ( ¶ ... [ ¶ 1 ] ¶ )"),
    ("not-a-function-multiline", "v0 ( ¶ ... [ 1 ] ¶ )"),
    ("user-too-many-spread", "fz_q ( ¶ 1 , ¶ ... [ 2 , 3 ] ¶ )"),
]
SYNTAX_FAULTS = [
    ("def-number", "def 1 = 2"),
    ("double-op", "1 + * 2"),
    ("missing-then", "if TRUE 1"),
    ("stray-paren", "( 1 ) )"),
    ("bad-param", "def g ( if ) 1"),
    ("two-idents", "foo bar"),
    # lexical faults inside a literal that goes on over the line break
    ("bad-hex-escape", "'abc\\xg ¶! '"), ("bad-hex-escape-dq", '"q\\x1 ¶! z"'),
]


class Layout:
    """Builds program text from tokens with break opportunities."""
    def __init__(self, ch, crlf):
        self.ch = ch
        self.nl = "\r\n" if crlf else "\n"
        self.text = ""
        self.line = 1

    def sep(self, allow_break=True):
        ch = self.ch
        if not allow_break:
            self.text += " "
            return
        k = ch.weighted([(5, "sp"), (4, "nl"), (1, "comment"), (1, "nlnl"),
                         (1, "tab")])
        if k == "sp":
            self.text += " "
        elif k == "tab":
            self.text += "\t"
        elif k == "nl":
            self.text += self.nl
            self.line += 1
        elif k == "nlnl":
            self.text += self.nl + "  " + self.nl
            self.line += 2
        else:
            self.text += " # note" + self.nl
            self.line += 1

    def toks(self, s, breaks=True):
        for t in s.split():
            self.text += t
            self.sep(breaks)

    def oneline(self, s):
        """emit on a single line; returns that line"""
        line = self.line
        self.text += s + " "
        return line


    def multiline(self, s):
        """emit tokens; a '¶' token is a line break (mostly) or a space.
        Returns the line of the first token."""
        line = self.line
        for t in s.split():
            if t == "¶!":         # a forced break right behind the token
                self.text = self.text.rstrip(" ") + self.nl
                self.line += 1
            elif t == "¶":
                if self.ch.bool(0.75):
                    if self.ch.bool(0.2):
                        self.text += " # c"
                    self.text += self.nl
                    self.line += 1
                else:
                    self.text += " "
            else:
                self.text += t + " "
        return line


# ways of writing a call of a one-parameter function (parameter name p / x);
# the call begins on the line of its name and opening parenthesis
CALL_SHAPES = ["{f} ( {a} )", "{f} ( {a} )", "{f} ( ¶ {a} ¶ )",
               "{f} ( ¶ ... [ {a} ] ¶ )", "{f} ( ¶ ... [ {a} ] )",
               "{f} ( ¶ {p} = {a} ¶ )", "{f} ( ¶ ¶ ... <<< '{p}' => {a} >>> )",
               "{f} ( ¶ ... [ ¶ {a} ¶ ] ¶ )"]


def call_shape(ch, f, p, a):
    return ch.choice(CALL_SHAPES).format(f=f, p=p, a=a)


def filler(lay, k):
    lay.toks(["def a%d = %d ;" % (k, k),
              "def b%d = [ 1 , 2 , 3 ] ;" % k,
              "if v0 == 9%d then do def c%d = 1 ; end ;" % (k % 10, k),
              "for e in [ 1 , 2 ] do def d%d = e ; end ;" % k,
              "def s%d = 'x' + 'y' ;" % k][k % 5])


def build_program(ch, fault_src, place, syntax):
    """Returns (text, planted_line, call_line or None)."""
    lay = Layout(ch, crlf=ch.bool(0.25))
    lay.toks("def v0 = 7 ;")
    # earlier, valid references to names that the planted fault uses again
    lay.toks("def fz_q ( pz_q ) pz_q + 1 ; def seen_q = 3 ; "
             "def uz_q = seen_q + fz_q ( 2 ) ;")
    for k in range(ch.int(0, 3)):
        filler(lay, k)
    call_line = None
    if place == "top":
        planted = lay.multiline(fault_src)
    elif place == "block":
        lay.toks("if v0 == 7 then do")
        for k in range(ch.int(0, 2)):
            filler(lay, 10 + k)
        planted = lay.multiline(fault_src)
        lay.sep()
        lay.toks("end")
    elif place == "loop":
        lay.toks("for q in [ 1 , 2 ] do")
        planted = lay.multiline(fault_src)
        lay.sep()
        lay.toks("end")
    elif place == "catchall":
        lay.toks("do def z = 1 ;")
        planted = lay.multiline(fault_src)
        lay.sep()
        lay.toks("catch 'never' 0 finally def w = 2 ; end")
    elif place == "strmethod":
        # the fault is inside an object's _str_ method, which runs when the
        # object is rendered by a call further down
        lay.toks("def oq = <* n = 1 , _str_ = fn ( self ) do")
        for k in range(ch.int(0, 2)):
            filler(lay, 50 + k)
        planted = lay.multiline(fault_src)
        lay.sep()
        lay.toks("end *> ;")
        for k in range(ch.int(0, 2)):
            filler(lay, 60 + k)
        lay.multiline(ch.choice(["string ( oq )", "println ( oq )",
                                 "length ( string ( [ oq ] ) )",
                                 "s ( '{oq}' )"]))
    elif place == "function2":
        # fault inside fq, which is called from gq, which is called at top
        lay.toks("def fq ( p ) do")
        for k in range(ch.int(0, 2)):
            filler(lay, 20 + k)
        planted = lay.multiline(fault_src)
        lay.sep()
        lay.toks("end ;")
        lay.toks("def gq ( x ) do")
        for k in range(ch.int(0, 2)):
            filler(lay, 40 + k)
        inner_call = lay.multiline(call_shape(ch, "fq", "p", "x"))
        lay.sep()
        lay.toks("end ;")
        for k in range(ch.int(0, 2)):
            filler(lay, 30 + k)
        call_line = {"fq(": inner_call,
                     "gq(": lay.multiline(call_shape(ch, "gq", "x", "1"))}
    else:  # function
        lay.toks("def fq ( p ) do")
        for k in range(ch.int(0, 2)):
            filler(lay, 20 + k)
        planted = lay.multiline(fault_src)
        lay.sep()
        lay.toks("end ;")
        for k in range(ch.int(0, 2)):
            filler(lay, 30 + k)
        call_line = lay.multiline(call_shape(ch, "fq", "p", "1"))
    if not syntax and ch.bool(0.5):
        lay.toks("; def after = 1")
    return lay.text, planted, call_line


LINE_RE = re.compile(r":(\d+):(-?\d+)\s*$")


def prog_prop(text, planted, call_line, syntax, name=NAME):
    out = cklrun.run(text, budget=20, name=name, session=False)
    if syntax:
        if out[0] != "syntax":
            return Finding(f"C20|syntax-fault-gives-{out[0]}",
                           f"{text!r} -> {cklrun.short(out)}")
        pos = out[2]
    else:
        if out[0] != "error":
            return Finding(f"C20|runtime-fault-gives-{out[0]}",
                           f"{text!r} -> {cklrun.short(out)}")
        pos = out[3]
    m = LINE_RE.search(pos)
    kind = "syntax" if syntax else "runtime"
    if not m or not pos.startswith(name + ":"):
        return Finding(f"C20|{kind}-error-position-without-file-or-line",
                       f"{text!r}: position {pos!r}, expected {name}:"
                       f"{planted}")
    if int(m.group(1)) != planted:
        return Finding(f"C20|{kind}-error-line",
                       f"{text!r}: reported {pos!r}, the faulty construct "
                       f"starts on line {planted}")
    if call_line is not None and not syntax:
        st = out[5].stacktrace
        wanted = call_line if isinstance(call_line, dict) \
            else {"fq(": call_line}
        for prefix, line in wanted.items():
            entries = [s for s in st if s.startswith(prefix)]
            if not entries:
                return Finding("C20|stacktrace-missing-entry",
                               f"{text!r}: stack trace {st!r} has no entry "
                               f"for {prefix}..)")
            m2 = LINE_RE.search(entries[0])
            if not m2 or (name + ":") not in entries[0]:
                return Finding("C20|stacktrace-entry-without-position",
                               f"{text!r}: entry {entries[0]!r}")
            if int(m2.group(1)) != line:
                return Finding("C20|stacktrace-line",
                               f"{text!r}: entry {entries[0]!r}, the call is "
                               f"on line {line}")
    return None


REQUIRE_STYLES = {
    "plain": ("require {m}", "{m}->boom ( 1 )"),
    "alias": ("require {m} as hq", "hq->boom ( 1 )"),
    "unqualified": ("require {m} unqualified", "boom ( 1 )"),
    "import": ("require {m} import [ boom ]", "boom ( 1 )"),
    "import-alias": ("require {m} import [ boom as b2 ]", "b2 ( 1 )"),
    "second-require-alias": ("require {m} as hq ; require {m}",
                             "{m}->boom ( 1 )"),
}


# where the require of a module with a syntax fault is written
SYNTAX_REQUIRE_STYLES = {
    "toplevel": "def k = 1;\nrequire {m}",
    "function": "def ld() do 1; require {m} end;\nld()",
    "list-loop": "for e in [1] do require {m} end",
    "input-loop": "for ln in str_input('a') do 1; require {m} end",
    "input-loop-function":
        "def ld(i) do for ln in i do require {m} end end;\n"
        "ld(str_input('a\nb'))",
    "comprehension": "[do require {m}; 1 end for e in [1]]",
    "process-lines": "process_lines(str_input('a'), fn(ln) do require {m} end)",
    "catch": "do require {m} catch all 5 end",
    "finally": "do require {m} finally 5 end",
    "while": "while TRUE do require {m}; break end",
}


def module_prop(modtext, planted, fault_in_function, modname="zmodq",
                style="plain", syntax=False):
    """Module file with a planted runtime fault."""
    home = tempfile.mkdtemp(prefix="vf_c20_home_")
    old_home = os.environ.get("HOME")
    try:
        moddir = os.path.join(home, ".ckl", "modules")
        os.makedirs(moddir)
        with open(os.path.join(moddir, modname + ".ckl"), "w",
                  encoding="utf-8", newline="") as f:
            f.write(modtext)
        os.environ["HOME"] = home
        it = cklrun.interpreter(fresh=True)
        if syntax:
            importer = SYNTAX_REQUIRE_STYLES[style].format(m=modname)
            out = cklrun.run(importer, budget=20, interp=it, name="imp.ckl")
            if out[0] != "syntax":
                return Finding(f"C20|module-syntax-fault-gives-{out[0]}",
                               f"{modtext!r} required by {importer!r} -> "
                               f"{cklrun.short(out)}")
            pos = out[2]
            m = LINE_RE.search(pos)
            if not m or not pos.startswith("mod:" + modname + ":"):
                return Finding("C20|module-error-position-does-not-name-"
                               "module", f"{modtext!r}: position {pos!r}")
            if int(m.group(1)) != planted:
                return Finding("C20|module-error-line",
                               f"{modtext!r}: reported {pos!r}, planted "
                               f"line {planted}")
            return None
        req, use = REQUIRE_STYLES[style]
        if style.startswith("import") and not fault_in_function:
            req = "require {m} import [ v0 ]"
        req = req.format(m=modname)
        importer = f"{req};\n\n{use.format(m=modname)}" \
            if fault_in_function else f"def k = 1;\n{req}"
        out = cklrun.run(importer, budget=20, interp=it, name="imp.ckl")
        if out[0] != "error":
            return Finding(f"C20|module-fault-gives-{out[0]}",
                           f"{modtext!r} -> {cklrun.short(out)}")
        pos = out[3]
        m = LINE_RE.search(pos)
        if not m or not pos.startswith("mod:" + modname + ":"):
            return Finding("C20|module-error-position-does-not-name-module",
                           f"{modtext!r}: position {pos!r}")
        if int(m.group(1)) != planted:
            return Finding("C20|module-error-line",
                           f"{modtext!r}: reported {pos!r}, planted line "
                           f"{planted}")
        return None
    finally:
        if old_home is None:
            os.environ.pop("HOME", None)
        else:
            os.environ["HOME"] = old_home
        shutil.rmtree(home, ignore_errors=True)


def prop(case):
    k = case["kind"]
    if k == "lex":
        r = lex_prop(case["tokens"], case["seps"], case["tail"])
        return None if r == "mismatch" else r
    if k == "prog":
        return prog_prop(case["text"], case["planted"], case["call_line"],
                         case["syntax"])
    if k == "callpos":
        return call_position_prop(case["src"])[0]
    if k == "formpos":
        return form_position_prop(case["form"], case["args"], case["blanks"],
                                  case["wrapped"])[0]
    if k == "module":
        return module_prop(case["text"], case["planted"], case["in_function"],
                           style=case.get("style", "plain"),
                           syntax=case.get("syntax", False))
    raise ValueError(k)


# --------------------------------------------------------------------- parts

def part_tokens(part, n):
    stats = {"mismatch": 0}

    def body(tape):
        ch = TapeChooser(tape)
        k = ch.int(1, 12)
        toks = [ch.choice(TOKENS)[0] for _ in range(k)]
        seps = []
        for i in range(k - 1):
            left, right = toks[i], toks[i + 1]
            if (left in TERMINATORS or right in TERMINATORS) and ch.bool(0.3):
                seps.append("")
            else:
                seps.append(ch.choice(SEPS))
        tail = ch.choice(["", "", " ", "\n", "\r\n", " # c", "#", "\t"])
        part.count()
        r = lex_prop(toks, seps, tail)
        if r == "mismatch":
            stats["mismatch"] += 1
            part.cls("lex:token-count-mismatch (not judged)")
            return None
        text, _ = lex_case(toks, seps, tail)
        if any(s[:1] in ("\n", "\r") or s == "" for s in seps) or \
                text.count("\n") >= 2:
            part.nontriv(text)
        part.cls("lex:" + ("multiline" if "\n" in text else "oneline"),
                 text if len(text) < 80 else None)
        if r:
            return r, {"kind": "lex", "tokens": toks, "seps": seps,
                       "tail": tail}
    part.hyp(tapes(200), body, n)
    part.note("token_count_mismatches", stats["mismatch"])


def part_token_matrix(part):
    """Every token kind x every kind of following text (exhaustive)."""
    follows = ["", " ", "\t", "\n", "\r\n", " # c\n", "#\n", ")", "(", "]",
               ",", ";", "\nz", "\r\nz", " z", "+", "\n+", "=="]
    for tok, _ in TOKENS:
        for fo in follows:
            for lead in ["", "\n", "\r\n\r\n", "# c\n", " "]:
                # token under test is the 2nd token; a leading identifier
                # makes the line arithmetic non-trivial
                text_tokens = ["lead", tok]
                seps = [" " + lead if lead else " "]
                if fo and fo.strip() and fo.strip()[0] not in "#":
                    extra = fo.strip()
                    sep2 = fo[:len(fo) - len(fo.lstrip())] or \
                        ("" if (tok in TERMINATORS or extra in TERMINATORS)
                         else " ")
                    if extra in ("z", "+", "==", ")", "(", "]", ",", ";"):
                        text_tokens.append(extra)
                        seps.append(sep2)
                        tail = ""
                    else:
                        tail = fo
                else:
                    tail = fo
                part.count()
                part.distinct()
                r = lex_prop(text_tokens, seps, tail)
                if r == "mismatch":
                    part.cls("matrix:token-count-mismatch (not judged)")
                    continue
                part.collect(r, {"kind": "lex", "tokens": text_tokens,
                                 "seps": seps, "tail": tail})
    part.cls("matrix:token-x-follower", "69 tokens x 18 followers x 5 leads")
    part.exhaustive = True


def part_programs(part, n):
    places = ["top", "block", "loop", "catchall", "function", "function",
              "function2", "strmethod"]

    def body(tape):
        ch = TapeChooser(tape)
        syntax = ch.bool(0.35)
        fname, fsrc = ch.choice(SYNTAX_FAULTS if syntax else RUNTIME_FAULTS)
        place = ch.choice(places)
        if syntax and fname in ("stray-paren", "two-idents", "def-number",
                                "bad-param") and place != "top":
            place = "top"
        text, planted, call_line = build_program(ch, fsrc, place, syntax)
        part.count()
        if text.count("\n") >= 2:
            part.nontriv(text)
        part.cls(f"prog:{'syntax' if syntax else 'runtime'}:{place}",
                 text if len(text) < 200 else None)
        f = prog_prop(text, planted, call_line, syntax)
        if f:
            return f, {"kind": "prog", "text": text, "planted": planted,
                       "call_line": call_line, "syntax": syntax}
    part.hyp(tapes(300), body, n)


POS_RE = re.compile(r"(?:gen\.ckl|mod:[^:\s]+):(\d+):(\d+)\Z")


def call_position_prop(src):
    """Whatever runtime error a call raises carries a file and a line."""
    out = cklrun.run(src, budget=5, name="gen.ckl")
    if out[0] != "error":
        return None, out[0]
    pos = out[3]
    m = POS_RE.match(pos or "")
    if not m or int(m.group(1)) < 1:
        return Finding("C20|runtime-error-without-file-or-line",
                       f"{src!r} raised {out[2]!r} with position {pos!r}"), \
            "error"
    st = getattr(out[5], "stacktrace", [])
    for entry in st:
        if not LINE_RE.search(entry):
            return Finding("C20|stacktrace-entry-without-position",
                           f"{src!r}: entry {entry!r}"), "error"
    return None, "error"


def part_call_positions(part, n):
    """Generated calls of every function with generated arguments (the
    tables of C13): errors come from conversions, helpers, callbacks and
    library code, not only from planted faults."""
    from vf.checks import c13
    it = cklrun.interpreter()
    names = sorted(k for k, v in it.base_environment.map.items()
                   if hasattr(v, "isFunc") and v.isFunc()
                   and k not in c13.NO_FUZZ and k not in (
                       "readln", "read", "read_all", "exit", "now",
                       "timestamp", "file_output", "make_dir", "file_delete",
                       "file_copy", "file_move"))

    def body(tape):
        ch = TapeChooser(tape)
        f = ch.choice(names)
        args = [c13.gen_arg(ch) for _ in range(ch.int(0, 3))]
        if ch.bool(0.15) and args:
            args[-1] = "zz = " + args[-1]
        lines_before = ch.int(0, 3)
        src = "\n" * lines_before + f + "(" + ", ".join(args) + ")"
        part.count()
        fnd, kind = call_position_prop(src)
        part.cls("call-position:" + kind, src if len(src) < 120 and
                 part.evaluations % 40 == 0 else None)
        if kind == "error":
            part.nontriv((f, tuple(args)))
        if fnd:
            fnd.signature += "|" + f
            part.collect(fnd, {"kind": "callpos", "src": src})
        return None
    part.hyp(tapes(64), body, n, shrink=False)


# ------------------------------------------------------- forms and positions

FORM_NAME = "gen.ckl"
FORM_POS_RE = re.compile(r"(gen\.ckl|mod:[^:\s]+):(\d+):(-?\d+)\Z")
ENTRY_RE = re.compile(r"(gen\.ckl|mod:[^:\s]+):(\d+):(-?\d+)\s*\Z")


def _has_code(src):
    """Does the source text of a value hold program code of its own (a lambda
    or a hook), whose faults carry the line of that code?"""
    return "fn(" in src or "_str_" in src


def form_program(form, args, blanks, wrapped):
    """Bind the arguments on lines of their own, then put the form on a line
    of its own, at top level or as the last statement of a function.  Returns
    (text, def line ranges, line of the form, line of the call or None)."""
    from vf.checks import c13
    lines = []
    ranges = []
    cur = 1
    for k, a in enumerate(args):
        stmt = f"def p{k} = {a};"
        n = stmt.count("\n")
        ranges.append((cur, cur + n))
        lines.append(stmt)
        cur += n + 1
    body = c13.form_src(form, len(args))
    if ";; " in body:       # statements that come first, on lines of their own
        first, body = body.split(";; ", 1)
        ranges.append((cur, cur))
        lines.append(first + ";")
        cur += 1
    for _ in range(blanks):
        lines.append("")
        cur += 1
    if not wrapped:
        form_line = cur
        lines.append(body)
        return "\n".join(lines), ranges, form_line, None
    if wrapped in ("if-multiline", "list-multiline", "finally-multiline"):
        # the form is a later line of a statement that begins before it
        head, tail = {"if-multiline": ("if p0 is not string then", ""),
                      "list-multiline": ("def zl = [1,", "]"),
                      "finally-multiline": ("do 1 finally", "end")}[wrapped]
        lines.append(head)
        lines.append("")
        form_line = cur + 2
        lines.append("  " + body + tail)
        return "\n".join(lines), ranges, form_line, None
    if wrapped == "default-value":
        # the form is the default value of a parameter, on a line of its own
        lines.append("def fq(x,")
        form_line = cur + 1
        lines.append("       y = " + body + ") y;")
        lines.append("")
        lines.append("fq(1)")
        return "\n".join(lines), ranges, form_line, cur + 3
    if wrapped == "bare":       # the form is the whole body, no block
        lines.append("def fq()")
        form_line = cur + 1
        lines.append("  " + body + ";")
        lines.append("")
        lines.append("fq()")
        return "\n".join(lines), ranges, form_line, cur + 3
    lines.append("def fq() do")
    lines.append("  1;")
    form_line = cur + 2
    lines.append("  " + body)
    lines.append("end;")
    lines.append("")
    lines.append("fq()")
    return "\n".join(lines), ranges, form_line, cur + 5


def form_position_prop(form, args, blanks, wrapped):
    """Whatever runtime error a form raises names the line of the form (or of
    the code inside one of its operands), and every stack-trace entry has a
    file and a line; inside a function the error is not moved to the call."""
    text, ranges, form_line, call_line = form_program(form, args, blanks,
                                                      wrapped)
    defs_only = "\n".join(text.split("\n")[:ranges[-1][1]]) if ranges else ""
    if defs_only:
        pre = cklrun.run(defs_only, budget=5, name=FORM_NAME, session=False)
        if pre[0] != "value":
            return None, "operand-fails"
    out = cklrun.run(text, budget=5, name=FORM_NAME, session=False)
    if out[0] != "error":
        return None, out[0]
    pos = out[3] or ""
    m = FORM_POS_RE.match(pos)
    if not m or int(m.group(2)) < 1:
        return Finding("C20|runtime-error-without-file-or-line|form",
                       f"{text!r} raised {out[2]!r} with position {pos!r}"), \
            "error"
    code = any(_has_code(a) for a in args)
    # text handed to eval / s / sprintf is a program of its own: its faults
    # carry the line within that text (ASSUMPTIONS)
    text_form = re.search(r"\b(eval|s)\(", form) is not None
    if m.group(1) == FORM_NAME and not text_form:
        line = int(m.group(2))
        ok = line == form_line or (
            code and any(lo <= line <= hi for lo, hi in ranges))
        if not ok:
            return Finding("C20|runtime-error-line|form",
                           f"{text!r} raised {out[2]!r} at {pos!r}; the form "
                           f"is on line {form_line}"
                           + (f", line {call_line} is the call of the "
                              f"enclosing function" if call_line else "")), \
                "error"
    st = getattr(out[5], "stacktrace", [])
    for entry in st:
        if not ENTRY_RE.search(entry):
            return Finding("C20|stacktrace-entry-without-position|form",
                           f"{text!r}: entry {entry!r} of {st!r}"), "error"
    if call_line is not None and m.group(1) == FORM_NAME:
        mine = [e for e in st if e.startswith("fq(")]
        if not mine:
            return Finding("C20|stacktrace-missing-entry|form",
                           f"{text!r}: {st!r} has no entry for fq()"), "error"
        m2 = ENTRY_RE.search(mine[-1])
        if int(m2.group(2)) != call_line:
            return Finding("C20|stacktrace-line|form",
                           f"{text!r}: entry {mine[-1]!r}, the call is on "
                           f"line {call_line}"), "error"
    return None, "error"


# forms that are not single statements of one line, define names the wrapper
# uses, or leave the function early on purpose
def _position_forms():
    from vf.checks import c13
    return [f for f in c13.FORMS if "\n" not in f
            and not f.startswith(("compare = ", "identity = ",
                                  "[compare, identity] = "))]


HOOK_OBJECTS = ["<*_str_ = s*>", "<*_str_ = sorted*>", "<*_str_ = eval*>",
                "<*_str_ = fn(self, x) 'a'*>", "<*_str_ = fn(self) zz_undefined*>",
                "<*_str_ = fn(self) 1 / 0*>", "stdout", "str_output()"]
# forms in which a value is rendered or converted by a node, not by a call
NODE_FORMS = [
    "<<<1 => 2>>>[A]", "<<<1 => 2>>>[A] = 1", "<<<1 => 2>>>[A] += 1",
    "<*a = 1*>[A]", "<*a = 1*>[A] = 1", "<*a = 1*>[A] += 1", "[1, 2][A]",
    "'abc'[A]", "<<1>>[A]", "<*a = 1*>->zz(A)", "A->zz", "A->zz = 1",
    "A->zz(1)", "[1, A] < [1, 2]", "<<A, 1>>", "<<<A => 1, 1 => 2>>>",
    "[x for x in <<A, 1>>]", "for x in <<A, 1>> do x end",
    "def checkerlang_module_path = [A]; require zz_nomodule",
    "error A", "A + 'x'", "'x' + A", "A < 1", "1 < A", "A in [1, 2]",
    "sorted([1, A])", "string(A)",
    "do error A catch A 1 end", "if A then 1", "while A do break end",
    "[1, 2][A to 1]", "def [x, y] = A; x", "for [x, y] in [A] do x end",
    "(fn(a) a)(...A)", "[...A]", "not A", "- A", "A and TRUE", "TRUE or A",
    # a set holding the operand is put in order by a node
    "def st = <<A, 1>>;; [...st]", "def st = <<A, 1>>;; [0, ...st, 2]",
    "def st = <<A, 1>>;; (fn(a...) a...)(...st)",
    "def st = <<A, 1>>;; <<<1 => [...st]>>>",
    "def st = <<A, 1>>;; <*a = [...st]*>", "def st = <<A, 1>>;; list(st)[0]",
    "def st = <<<A => 1, 1 => 2>>>;; [...st]",
]


def part_node_positions(part):
    """Every node-level form over operands that cannot be rendered or
    converted, at top level, in a function block and as a bare function body."""
    for form in NODE_FORMS:
        for obj in HOOK_OBJECTS:
            for wrapped in (False, True, "bare", "if-multiline",
                            "list-multiline", "finally-multiline",
                            "default-value"):
                if wrapped in ("bare", "if-multiline", "list-multiline",
                               "default-value") \
                        and (";" in form.split(";; ")[-1]
                             or form.split(";; ")[-1].startswith(
                            ("def ", "for ", "while ", "if ", "error "))):
                    continue
                for blanks in (0, 2):
                    part.count()
                    fnd, kind = form_position_prop(form, [obj], blanks,
                                                   wrapped)
                    part.cls("node-position:" + kind,
                             f"{form}  with  {obj}"
                             if part.evaluations % 60 == 0 else None)
                    if kind == "error":
                        part.nontriv((form, obj, wrapped, blanks))
                    if fnd:
                        fnd.signature += "|" + form
                        part.collect(fnd, {"kind": "formpos", "form": form,
                                           "args": [obj], "blanks": blanks,
                                           "wrapped": wrapped})
    part.exhaustive = True


def part_form_positions(part, n):
    """Every operator and statement form of the C13 tables over generated
    operands, at top level and inside a function: errors raised by node
    evaluation (not by a planted fault, not by a call) carry a position."""
    from vf.checks import c13
    forms = _position_forms()

    def body(tape):
        ch = TapeChooser(tape)
        form = ch.choice(forms)
        args = [c13.gen_arg(ch) for _ in range(c13.form_arity(form))]
        blanks = ch.int(0, 3)
        wrapped = ch.choice([False, True, "bare"])
        if wrapped == "bare" and (";" in form or form.startswith(
                ("return ", "def "))):
            wrapped = True
        part.count()
        fnd, kind = form_position_prop(form, args, blanks, wrapped)
        part.cls("form-position:" + kind + (":in-function" if wrapped else "")
                 + (":bare" if wrapped == "bare" else ""),
                 f"{form}  with  {', '.join(args)}"
                 if part.evaluations % 50 == 0 else None)
        if kind == "error":
            part.nontriv((form, tuple(args), wrapped))
        if fnd:
            fnd.signature += "|" + form
            part.collect(fnd, {"kind": "formpos", "form": form, "args": args,
                               "blanks": blanks, "wrapped": wrapped})
        return None
    part.hyp(tapes(64), body, n, shrink=False)


def part_modules(part, n):
    def syntax_body(ch):
        fname, fsrc = ch.choice(SYNTAX_FAULTS[:6])
        style = ch.choice(sorted(SYNTAX_REQUIRE_STYLES))
        lay = Layout(ch, crlf=ch.bool(0.2))
        lay.toks("def v0 = 7 ;")
        for k in range(ch.int(0, 3)):
            filler(lay, k)
        if lay.text and not lay.text.endswith(("\n", "\r\n")):
            lay.text += lay.nl
            lay.line += 1
        planted = lay.oneline(fsrc)
        lay.text += lay.nl + "def tail = 1" + lay.nl
        part.count()
        part.nontriv(lay.text)
        part.cls("module:syntax-fault:" + style,
                 lay.text if len(lay.text) < 200 else None)
        f = module_prop(lay.text, planted, False, style=style, syntax=True)
        if f:
            return f, {"kind": "module", "text": lay.text, "planted": planted,
                       "in_function": False, "style": style, "syntax": True}

    def body(tape):
        ch = TapeChooser(tape)
        if ch.bool(0.35):
            return syntax_body(ch)
        fname, fsrc = ch.choice(RUNTIME_FAULTS[:3] + RUNTIME_FAULTS[4:6])
        in_fn = ch.bool(0.6)
        style = ch.choice(sorted(REQUIRE_STYLES))
        lay = Layout(ch, crlf=ch.bool(0.2))
        lay.toks("def v0 = 7 ;")
        for k in range(ch.int(0, 3)):
            filler(lay, k)
        if in_fn:
            lay.toks("def boom ( p ) do")
            for k in range(ch.int(0, 2)):
                filler(lay, 10 + k)
            planted = lay.multiline(fsrc)
            lay.sep()
            lay.toks("end ;")
        else:
            planted = lay.multiline(fsrc)
        part.count()
        part.nontriv(lay.text)
        part.cls("module:" + ("function" if in_fn else "toplevel") + ":" +
                 style,
                 lay.text if len(lay.text) < 200 else None)
        f = module_prop(lay.text, planted, in_fn, style=style)
        if f:
            return f, {"kind": "module", "text": lay.text, "planted": planted,
                       "in_function": in_fn, "style": style}
    part.hyp(tapes(300), body, n)


def parts(tier, seed):
    if tier == "quick":
        ps = [(f"tokens-{i}", part_tokens, {"n": 8000}) for i in range(4)]
        ps += [("matrix", part_token_matrix, {})]
        ps += [(f"programs-{i}", part_programs, {"n": 2500}) for i in range(5)]
        ps += [(f"modules-{i}", part_modules, {"n": 60}) for i in range(4)]
        ps += [(f"callpos-{i}", part_call_positions, {"n": 4000})
               for i in range(4)]
        ps += [(f"formpos-{i}", part_form_positions, {"n": 4000})
               for i in range(4)]
        ps += [("nodepos", part_node_positions, {})]
    else:
        ps = [(f"tokens-{i}", part_tokens, {"n": 80000}) for i in range(4)]
        ps += [("matrix", part_token_matrix, {})]
        ps += [(f"programs-{i}", part_programs, {"n": 30000})
               for i in range(6)]
        ps += [(f"modules-{i}", part_modules, {"n": 400}) for i in range(4)]
        ps += [(f"callpos-{i}", part_call_positions, {"n": 80000})
               for i in range(6)]
        ps += [(f"formpos-{i}", part_form_positions, {"n": 80000})
               for i in range(6)]
        ps += [("nodepos", part_node_positions, {})]
    return ps
