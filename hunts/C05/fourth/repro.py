#!/usr/bin/env python
"""Reproductions for the fourth C05 hunt.  Run with
   cd /tmp/seed6/C05 && PYTHONPATH=/tmp/seed6/C05/src /venv/bin/python hunt/repro.py
Prints one line per (sub-)finding:  FINDING <n>: <VIOLATES|HOLDS> <description>
VIOLATES = the behaviour described in FINDINGS.md reproduces (all items are classified "doubtful" there).
Only the ckl package and the standard library are used; runs in about a second."""
import os
import signal
import sys

HERE = os.path.dirname(os.path.abspath(__file__))
sys.path.insert(0, os.path.join(os.path.dirname(HERE), "src"))

from ckl.interpreter import Interpreter                    # noqa: E402
from ckl.errors import CklRuntimeError, CklSyntaxError     # noqa: E402


class Timeout(Exception):
    pass


def _alarm(*_):
    raise Timeout()


signal.signal(signal.SIGALRM, _alarm)
PRE = "def LOG = []; def log(x) do append(LOG, x); x end;"


def guarded(fn, limit=10):
    signal.setitimer(signal.ITIMER_REAL, limit, 1)      # repeating: cannot be swallowed
    try:
        try:
            return ("OK", str(fn()))
        except CklRuntimeError as e:
            return ("RTE", str(e.value) + " / " + str(e.msg))
        except CklSyntaxError as e:
            return ("SYN", e.msg)
        except Timeout:
            return ("TIMEOUT", "")
        except BaseException as e:      # noqa
            return ("HOST", type(e).__name__)
    finally:
        signal.setitimer(signal.ITIMER_REAL, 0)


def run(src, legacy):
    it = Interpreter(secure=False, legacy=legacy)
    it.interpret(PRE, "pre.ckl")
    r = guarded(lambda: it.interpret(src, "t.ckl"))
    log = guarded(lambda: it.interpret("LOG", "log.ckl"))[1]
    return r, log


def report(name, desc, src, accepted):
    """accepted: list of (result, log) pairs a reading of the statement allows"""
    got = []
    ok = True
    for legacy in (True, False):
        r, log = run(src, legacy)
        got.append((r, log))
        if (r, log) not in accepted:
            ok = False
    print(f"FINDING {name}: {'HOLDS' if ok else 'VIOLATES'} {desc}  [got {got}]")


BRK = ("RTE", "'ERROR' / Cannot use break without surrounding loop")

# ---- Finding 1: return / break / continue reached in a value position that repair 9a975db does not cover
report("1a", "[doubtful] exit reached where the function of a call is evaluated, `(do return 3 finally .. end)(1)`: "
             "must leave F with 3 (is the type error 'Expected def but got return'; finally runs once)",
       "def F() do (do return 3 finally log('f') end)(1); log('after'); 9 end; F()",
       [(("OK", "3"), "['f']")])
report("1b", "[doubtful] exit reached in the value of a class member: `def class K do def a = (break) end` at top level must fail "
             "(break without loop) or at least not be stored; the marker becomes member a and silently ends an unrelated loop "
             "that merely reads K->a",
       "def class K do def a = (break) end; for i in [1, 2] do log(i); K->a; log('tail') end; log('end')",
       [(BRK, "[]"), (("OK", "'end'"), "[1, 'tail', 2, 'tail', 'end']")])
report("1c", "[doubtful] same inside a function: `def class K do def a = (do return 3 finally .. end) end` must leave F with 3 "
             "(the statement after it runs, F returns 9)",
       "def F() do def class K do def a = (do return 3 finally log('f') end) end; log('after'); 9 end; F()",
       [(("OK", "3"), "['f']")])
report("1d", "[doubtful] exit reached in a default parameter value: `(fn(a = (break)) ..)()` in a loop must leave the loop or fail "
             "with 'break without surrounding loop' (it is silently dropped: body and the rest of the loop run)",
       "def r = []; for i in [1, 2] do (fn(a = (break)) append(r, i))(); append(r, 'after') end; r",
       [(("OK", "[]"), "[]"), (BRK, "[]")])
report("1e", "[doubtful] `return 5` reached in a default parameter value must leave f with 5 before the body runs "
             "(body runs, f returns 7; finally of the default's block runs once)",
       "def f(a = (do return 5 finally log('f') end)) do log('body'); 7 end; f()",
       [(("OK", "5"), "['f']")])
report("1f", "[doubtful] exit reached in a placeholder of s(): `s('{if TRUE then return 5}')` must leave F with 5 like "
             "eval('if TRUE then return 5') does (is the runtime error 'Cannot convert to String')",
       "def F() do s('{if TRUE then return 5}'); log('after'); 9 end; F()",
       [(("OK", "5"), "[]")])

# ---- Finding 2: the message of 'Map does not contain key' is rendered with the _str_ hook of the key
report("2", "[doubtful] m[o] with a missing key o is a runtime 'ERROR' and must reach `catch 'ERROR'`; the _str_ hook of o runs while "
            "the message is built, and when the hook raises 7 the 'ERROR' is never raised: `catch 'ERROR'` is passed, `catch 7` taken",
       "def o = <*_str_ = fn(self) do log('hook'); error 7 end*>; def m = <<<1 => 2>>>; "
       "do m[o] catch 'ERROR' 'cE' catch 7 'c7' end",
       [(("OK", "'cE'"), "[]"), (("OK", "'cE'"), "['hook']")])
