"""Model values: an independent representation of Checkerlang data values with
equality, order, deep type and rendering written from the property statements
(C06, C07, C08), not from the implementation.

Representation
    NULL -> None, boolean -> bool, int -> int, decimal -> float,
    string -> str, date -> datetime.datetime, pattern -> Pat(text),
    list -> list, set -> MSet([...]), map -> MMap([(k, v), ...]),
    object -> MObj({name: v}), function -> Func(name), other -> Opaque(kind)
"""
import datetime
import math
from fractions import Fraction


class Pat:
    def __init__(self, text):
        self.text = text

    def __repr__(self):
        return f"Pat({self.text!r})"


class MSet:
    def __init__(self, items=()):
        self.items = []
        seen = set()
        for x in items:
            k = mkey(x)
            if k not in seen:
                seen.add(k)
                self.items.append(x)

    def __repr__(self):
        return f"MSet({self.items!r})"


class MMap:
    def __init__(self, pairs=()):
        self.pairs = []
        idx = {}
        for k, v in pairs:
            kk = mkey(k)
            if kk in idx:
                self.pairs[idx[kk]] = (self.pairs[idx[kk]][0], v)
            else:
                idx[kk] = len(self.pairs)
                self.pairs.append((k, v))

    def get(self, key, default=None):
        kk = mkey(key)
        for k, v in self.pairs:
            if mkey(k) == kk:
                return v
        return default

    def has(self, key):
        kk = mkey(key)
        return any(mkey(k) == kk for k, _ in self.pairs)

    def __repr__(self):
        return f"MMap({self.pairs!r})"


class MObj:
    def __init__(self, members=None):
        self.members = dict(members or {})

    def __repr__(self):
        return f"MObj({self.members!r})"


class Func:
    def __init__(self, name="fn"):
        self.name = name

    def __repr__(self):
        return f"Func({self.name})"


class Opaque:
    def __init__(self, kind):
        self.kind = kind

    def __repr__(self):
        return f"Opaque({self.kind})"


def kind(v):
    if v is None:
        return "null"
    if isinstance(v, bool):
        return "boolean"
    if isinstance(v, int):
        return "int"
    if isinstance(v, float):
        return "decimal"
    if isinstance(v, str):
        return "string"
    if isinstance(v, datetime.datetime):
        return "date"
    if isinstance(v, Pat):
        return "pattern"
    if isinstance(v, list):
        return "list"
    if isinstance(v, MSet):
        return "set"
    if isinstance(v, MMap):
        return "map"
    if isinstance(v, MObj):
        return "object"
    if isinstance(v, Func):
        return "func"
    if isinstance(v, Opaque):
        return v.kind
    raise TypeError(f"not a model value: {v!r}")


def mkey(v):
    """Hashable canonical key: two values are equal in the model iff their
    keys are equal (numbers compare by exact numeric value across int and
    decimal; sets and maps regardless of order; kinds never mix)."""
    k = kind(v)
    if k == "null":
        return ("null",)
    if k == "boolean":
        return ("bool", v)
    if k in ("int", "decimal"):
        if k == "decimal" and (math.isnan(v) or math.isinf(v)):
            return ("num", repr(v))
        return ("num", Fraction(v))
    if k == "string":
        return ("str", v)
    if k == "date":
        return ("date", v)
    if k == "pattern":
        return ("pat", v.text)
    if k == "list":
        return ("list", tuple(mkey(x) for x in v))
    if k == "set":
        return ("set", frozenset(mkey(x) for x in v.items))
    if k == "map":
        return ("map", frozenset((mkey(a), mkey(b)) for a, b in v.pairs))
    if k == "object":
        return ("obj", frozenset((n, mkey(x)) for n, x in v.members.items()))
    return (k, id(v))


def meq(a, b):
    return mkey(a) == mkey(b)


def deep_type(v):
    """Type signature that distinguishes int from decimal at every position;
    sets and maps order-free."""
    k = kind(v)
    if k == "list":
        return ("list", tuple(deep_type(x) for x in v))
    if k == "set":
        return ("set", frozenset((mkey(x), deep_type(x)) for x in v.items))
    if k == "map":
        return ("map", frozenset(
            (mkey(a), deep_type(a), deep_type(b)) for a, b in v.pairs))
    if k == "object":
        return ("object", frozenset(
            (n, deep_type(x)) for n, x in v.members.items()))
    return k


ORDERED_KINDS = {"int", "decimal", "string", "boolean", "date", "list"}


def order_class(v):
    k = kind(v)
    if k in ("int", "decimal"):
        return "num"
    return k


def mcmp(a, b):
    """Model order on values of one kind: -1, 0, 1.  Numeric on ints and
    decimals together (exact), code-point lexicographic on strings, FALSE
    before TRUE, chronological on dates, element-wise on lists."""
    ca, cb = order_class(a), order_class(b)
    if ca != cb:
        raise ValueError(f"cross-kind comparison {ca} / {cb}")
    if ca == "num":
        fa, fb = Fraction(a), Fraction(b)
        return (fa > fb) - (fa < fb)
    if ca in ("string", "date"):
        return (a > b) - (a < b)
    if ca == "boolean":
        return (a > b) - (a < b)
    if ca == "pattern":
        return (a.text > b.text) - (a.text < b.text)
    if ca == "list":
        for x, y in zip(a, b):
            c = mcmp(x, y)
            if c:
                return c
        return (len(a) > len(b)) - (len(a) < len(b))
    raise ValueError(f"kind {ca} has no model order")


def msorted(items):
    import functools
    return sorted(items, key=functools.cmp_to_key(mcmp))


# ------------------------------------------------------------------ rendering

def render_string(s):
    out = []
    for c in s:
        if c == "\\":
            out.append("\\\\")
        elif c == "'":
            out.append("\\'")
        elif c == "\r":
            out.append("\\r")
        elif c == "\n":
            out.append("\\n")
        elif c == "\t":
            out.append("\\t")
        else:
            out.append(c)
    return "'" + "".join(out) + "'"


def literal(v, order=None):
    """Source text that evaluates to v (construction order = given order).
    Used to build inputs; not an oracle for rendering."""
    k = kind(v)
    if k == "null":
        return "NULL"
    if k == "boolean":
        return "TRUE" if v else "FALSE"
    if k == "int":
        return str(v) if v >= 0 else f"(0 - {-v})" if False else str(v)
    if k == "decimal":
        return decimal_literal(v)
    if k == "string":
        return render_string(v)
    if k == "date":
        return "date('" + v.strftime("%Y%m%d%H%M%S") + "')"
    if k == "pattern":
        return "pattern(" + render_string(v.text) + ")"
    if k == "list":
        return "[" + ", ".join(literal(x) for x in v) + "]"
    if k == "set":
        inner = ", ".join(literal(x) for x in v.items)
        return "<< " + inner + " >>" if inner else "<<>>"
    if k == "map":
        inner = ", ".join(f"{key_literal(a)} => {literal(b)}"
                          for a, b in v.pairs)
        return "<<< " + inner + " >>>" if inner else "<<<>>>"
    if k == "object":
        return "<* " + ", ".join(f"{n} = {literal(x)}"
                                 for n, x in v.members.items()) + " *>"
    raise ValueError(f"no literal for {k}")


def key_literal(v):
    """Map-literal keys that are bare identifiers are string shorthand in the
    language (even NULL, which is an ordinary identifier), so computed keys
    are wrapped in identity()."""
    if v is None:
        return "identity(NULL)"
    return literal(v)


def decimal_literal(x):
    """Positional numeral with a fractional part that reads back as exactly x."""
    if math.isnan(x) or math.isinf(x):
        raise ValueError("no literal for nan/inf")
    import decimal as _d
    s = format(_d.Decimal(repr(x)), "f")
    if "." not in s:
        s += ".0"
    return s
