"""C17  Dates and day numbers convert one-to-one; date arithmetic is calendar-correct."""
import datetime

from vf.core import Finding, time_limit, CaseTimeout
from vf.gen.chooser import TapeChooser, tapes
from vf import cklrun

PROPERTY = "C17"
RULE = (
    "Conversions: ckl.date.to_oa_date / to_date on calendar days (quick: 1 Jan, "
    "28/29 Feb, 1 Mar, 31 Dec of every year 1-9999 plus random days and "
    "random times of day; thorough: every day 0001-01-01..9999-12-31) against "
    "Python's proleptic Gregorian ordinals: day number differences equal "
    "ordinal differences and to_date(to_oa_date(d)) == d to the second. "
    "Arithmetic: interpreted programs int(d), decimal(d), date(n), d + n, "
    "d - n, (d + n) - n == d, (d + n) - d == n for stride and random offsets. "
    "Non-trivial = first/last day of a year, leap-day neighbourhood, date "
    "before 1970, a time of day, or a result in another year."
)
ASSUMPTIONS = [
    "Python datetime ordinals are the reference calendar",
    "'to the second' = the fields year..second of the returned date, i.e. "
    "what rendering and format_date show, equal the original (no tolerance)",
    "representable dates = 0001-01-01 .. 9999-12-31 for the conversions (the "
    "statement's quantifier starts at 1900; earlier years are checked as "
    "well since a repaired defect lived there) and 1000-01-01 .. 9999-12-31 "
    "for arithmetic through program text (dates are written and rendered "
    "with 4-digit years)",
]

BASE = datetime.date(1899, 12, 30).toordinal()
ORD_1900 = datetime.date(1900, 1, 1).toordinal()
LAST = datetime.datetime(9999, 12, 31, 23, 59, 59)
STRIDES = [1, 2, 7, 28, 29, 30, 31, 59, 60, 365, 366, 730, 731, 1461, 36524,
           36525, 146097]


LO_ORD = datetime.date(1000, 1, 1).toordinal()   # 4-digit years in text
HI_ORD = datetime.date(9999, 12, 31).toordinal()


def _in_range(dt, off):
    """dt + off and dt - off days are representable dates."""
    o = dt.toordinal()
    return LO_ORD <= o + off <= HI_ORD and LO_ORD <= o - off <= HI_ORD


def _round_s(dt):
    if dt.microsecond >= 500000:
        try:
            dt = dt + datetime.timedelta(seconds=1)
        except OverflowError:
            pass
    return dt.replace(microsecond=0)


def is_leap(y):
    return y % 4 == 0 and (y % 100 != 0 or y % 400 == 0)


def _nontrivial(dt, other=None):
    if (dt.month, dt.day) in ((1, 1), (12, 31), (2, 28), (2, 29), (3, 1)):
        return True
    if dt.year < 1970 or dt.hour or dt.minute or dt.second:
        return True
    if other is not None and other.year != dt.year:
        return True
    return False


def conv_prop(dt):
    """dt: datetime.  Returns Finding or None."""
    from ckl.date import to_oa_date, to_date
    try:
        with time_limit(20):
            n = to_oa_date(dt)
            n0 = to_oa_date(datetime.datetime(1900, 1, 1))
            back = to_date(n)
    except CaseTimeout:
        return Finding("C17|conversion-timeout", str(dt))
    except Exception as e:
        return Finding(f"C17|conversion-raises-{type(e).__name__}",
                       f"{dt}: {e}")
    frac = (dt.hour * 3600 + dt.minute * 60 + dt.second) / 86400.0
    want = (dt.toordinal() - ORD_1900) + frac
    if abs((n - n0) - want) > 1e-6:
        return Finding("C17|day-number-not-calendar",
                       f"{dt}: day number {n} (1900-01-01 is {n0}), "
                       f"calendar distance {want}")
    # "to the second": what the date shows (its fields down to the second,
    # which is what rendering and format_date print) is the original
    if isinstance(back, datetime.datetime) and \
            back.replace(microsecond=0) == dt:
        return None
    return Finding("C17|roundtrip-differs", f"{dt} -> {n} -> {back}")


def _lit(dt):
    return "date('" + dt.strftime("%Y%m%d%H%M%S") + "')"


def _dt_str(dt):
    return dt.strftime("%Y%m%d%H%M%S")


def arith_prop(dt, n):
    """Interpreter level: dt a midnight datetime, n an int offset such that
    both dt+n and dt-n are representable."""
    d = _lit(dt)
    plus = dt + datetime.timedelta(days=n)
    minus = dt - datetime.timedelta(days=n)
    num = dt.toordinal() - BASE
    prog = (
        f"def d = {d}; def n = {n}; "
        f"[int(d), decimal(d) == int(d), string(date(int(d))), "
        f"string(d + n), string(d - n), string((d + n) - n), "
        f"((d + n) - d) == n, (d - (d - n)) == n, int(d + n) - int(d), "
        f"(d + n) > d, compare(d + n, d), string(date(decimal(d)))]"
    )
    sign = (n > 0) - (n < 0)
    want = [num, True, _dt_str(dt), _dt_str(plus), _dt_str(minus),
            _dt_str(dt), True, True, n, n > 0, sign, _dt_str(dt)]
    out = cklrun.run(prog, budget=20)
    if out[0] != "value":
        return Finding(f"C17|arith-{out[0]}-{out[1] if out[0]=='host' else ''}",
                       f"{prog} -> {cklrun.short(out)}")
    try:
        got = cklrun.to_model(out[1])
    except cklrun.BadValue as e:
        return Finding("C17|arith-badvalue", f"{prog} -> {e}")
    if got != want:
        labels = ["int(d)", "decimal(d)==int(d)", "date(int(d))", "d+n", "d-n",
                  "(d+n)-n", "((d+n)-d)==n", "(d-(d-n))==n",
                  "int(d+n)-int(d)", "(d+n)>d", "compare(d+n,d)",
                  "date(decimal(d))"]
        bad = [labels[i] for i in range(min(len(got), len(want)))
               if got[i] != want[i]] if isinstance(got, list) else ["shape"]
        return Finding("C17|arith-" + (bad[0] if bad else "shape"),
                       f"d={dt.date()} n={n}: got {got} want {want}")
    return None


def time_arith_prop(dt, n):
    """Dates with a time of day: (d + n) - n == d to the second."""
    d = _lit(dt)
    prog = (f"def d = {d}; def n = {n}; "
            f"[string((d + n) - n), string(d + n), string(date(decimal(d))), "
            f"(d + n) - d == n, string(date(int(d)))]")
    out = cklrun.run(prog, budget=20)
    if out[0] != "value":
        return Finding(f"C17|time-arith-{out[0]}",
                       f"{prog} -> {cklrun.short(out)}")
    got = cklrun.to_model(out[1])
    plus = dt + datetime.timedelta(days=n)

    def close(s, want):
        try:
            g = datetime.datetime.strptime(s, "%Y%m%d%H%M%S")
        except Exception:
            return False
        return g == want

    if not (isinstance(got, list) and len(got) == 5 and close(got[0], dt)
            and close(got[1], plus) and close(got[2], dt)):
        return Finding("C17|time-arith-differs",
                       f"d={dt} n={n}: got {got}")
    if got[3] is not True:
        return Finding("C17|time-arith-(d+n)-d",
                       f"d={dt} n={n}: (d + n) - d == n is {got[3]!r}")
    if not close(got[4], dt.replace(hour=0, minute=0, second=0)):
        return Finding("C17|int-of-date-with-time",
                       f"d={dt}: date(int(d)) is {got[4]}, the day of d is "
                       f"{dt.date()}")
    return None


def between_prop(dt, et):
    """The difference of two dates is the offset that leads from one to the
    other: d + (e - d) == e, e - (e - d) == d, (d + n) - d == n for that n,
    to the second - also when the result lies exactly on midnight."""
    prog = (f"def d = {_lit(dt)}; def e = {_lit(et)}; def n = e - d; "
            f"[string(d + n), d + n == e, string(e - n), (d + n) - d == n, "
            f"int(d + n) == int(e)]")
    out = cklrun.run(prog, budget=20)
    if out[0] != "value":
        return Finding(f"C17|between-{out[0]}", f"{prog} -> {cklrun.short(out)}")
    got = cklrun.to_model(out[1])
    want = [f"{et.year:04d}" + et.strftime("%m%d%H%M%S"), True,
            f"{dt.year:04d}" + dt.strftime("%m%d%H%M%S"), True, True]
    if got != want:
        return Finding("C17|difference-does-not-lead-back",
                       f"d={dt} e={et}: [string(d + (e - d)), d + (e - d) == e,"
                       f" string(e - (e - d)), (d + n) - d == n, int(d + n) =="
                       f" int(e)] is {got}, expected {want}")
    return None


def part_between(part, n):
    def body(tape):
        ch = TapeChooser(tape)
        dt = _draw_date(ch)
        et = _draw_date(ch)
        if ch.bool(0.8):
            dt = dt.replace(hour=ch.int(0, 23), minute=ch.int(0, 59),
                            second=ch.int(0, 59))
        if ch.bool(0.4):
            et = et.replace(hour=ch.int(0, 23), minute=ch.int(0, 59),
                            second=ch.int(0, 59))
        if ch.bool(0.3):        # a few days apart
            try:
                near = dt.replace(hour=et.hour, minute=et.minute,
                                  second=et.second) + \
                    datetime.timedelta(days=ch.int(-3, 3))
                if near.year >= 1000:       # four-digit years in the text
                    et = near
            except OverflowError:
                pass
        part.count()
        part.nontriv((str(dt), str(et)))
        midnight = et.hour == et.minute == et.second == 0
        part.cls("between:" + ("target-at-midnight" if midnight
                               else "target-with-time"),
                 f"{dt} -> {et}" if part.evaluations % 50 == 0 else None)
        f = between_prop(dt, et)
        if f:
            return f, {"kind": "between", "dt": _iso(dt), "et": _iso(et)}
    part.hyp(tapes(64), body, n)


def prop(case):
    k = case["kind"]
    if k == "between":
        return between_prop(
            datetime.datetime.strptime(case["dt"], "%Y-%m-%d %H:%M:%S"),
            datetime.datetime.strptime(case["et"], "%Y-%m-%d %H:%M:%S"))
    if k == "conv":
        return conv_prop(datetime.datetime.strptime(case["dt"],
                                                    "%Y-%m-%d %H:%M:%S"))
    if k == "arith":
        return arith_prop(datetime.datetime.strptime(case["d"], "%Y-%m-%d"),
                          case["n"])
    if k == "timearith":
        return time_arith_prop(
            datetime.datetime.strptime(case["dt"], "%Y-%m-%d %H:%M:%S"),
            case["n"])
    raise ValueError(k)


def _iso(dt):
    # strftime("%Y") does not pad years below 1000
    return (f"{dt.year:04d}-{dt.month:02d}-{dt.day:02d} "
            f"{dt.hour:02d}:{dt.minute:02d}:{dt.second:02d}")


def _conv_case(dt):
    return {"kind": "conv", "dt": _iso(dt)}


# --------------------------------------------------------------------- parts

def part_keydays(part, shard, nshards):
    """1 Jan, 28/29 Feb, 1 Mar, 31 Dec of every year (sharded by year)."""
    for y in range(1 + shard, 10000, nshards):
        days = [(1, 1), (2, 28), (3, 1), (12, 31), (1, 2), (12, 30)]
        if is_leap(y):
            days.append((2, 29))
        for m, d in days:
            dt = datetime.datetime(y, m, d)
            part.count()
            part.distinct()
            f = conv_prop(dt)
            part.cls("conv:keyday", str(dt) if y % 977 == 0 else None)
            part.collect(f, _conv_case(dt))
    part.exhaustive = False


def part_alldays(part, shard, nshards):
    """Every calendar day of the years y = 1 + shard (mod nshards)."""
    for y in range(1 + shard, 10000, nshards):
        dt = datetime.datetime(y, 1, 1)
        n = 366 if is_leap(y) else 365
        for i in range(n):
            cur = dt + datetime.timedelta(days=i)
            part.count()
            if _nontrivial(cur):
                part.distinct()
            f = conv_prop(cur)
            if f is not None:
                part.collect(f, _conv_case(cur))
        part.cls("conv:year-fully-enumerated")
    part.exhaustive = True


def _draw_date(ch):
    y = ch.weighted([(3, None), (1, 1900), (1, 1969), (1, 1970), (1, 9999),
                     (1, 2000), (1, 2100), (1, 1899), (1, 1000), (2, "old")])
    if y is None:
        y = ch.int(1900, 9999)
    elif y == "old":
        y = ch.int(1000, 1899)
    k = ch.int(0, 9)
    if k == 0:
        m, d = 1, 1
    elif k == 1:
        m, d = 12, 31
    elif k == 2:
        m, d = 2, 28
    elif k == 3 and is_leap(y):
        m, d = 2, 29
    elif k == 4:
        m, d = 3, 1
    else:
        m = ch.int(1, 12)
        d = ch.int(1, 28 if m == 2 else 30)
    return datetime.datetime(y, m, d)


def part_random_conv(part, n):
    def body(tape):
        ch = TapeChooser(tape)
        dt = _draw_date(ch)
        if ch.bool(0.1):
            dt = dt.replace(year=ch.int(1, 999) if not (dt.month == 2 and
                                                         dt.day == 29) else 4)
        if ch.bool(0.7):
            dt = dt.replace(hour=ch.int(0, 23), minute=ch.int(0, 59),
                            second=ch.int(0, 59))
        part.count()
        if _nontrivial(dt):
            part.nontriv(str(dt))
        part.cls("conv:random" + (":time" if dt.hour or dt.minute or dt.second
                                  else ""), str(dt))
        f = conv_prop(dt)
        if f:
            return f, _conv_case(dt)
    part.hyp(tapes(64), body, n)


def part_arith(part, n):
    lo = datetime.datetime(1000, 1, 1)
    hi = datetime.datetime(9999, 12, 31)

    def body(tape):
        ch = TapeChooser(tape)
        dt = _draw_date(ch)
        if ch.bool(0.6):
            off = ch.choice(STRIDES)
        else:
            off = ch.int(1, 400000)
        if ch.bool(0.3):
            off = -off
        if ch.bool(0.03):
            off = 0
        # keep d+n and d-n representable
        if not _in_range(dt, off):
            off = ch.choice([1, -1, 0]) if lo < dt < hi else 0
        if ch.bool(0.25):
            t = dt.replace(hour=ch.int(0, 23), minute=ch.int(0, 59),
                           second=ch.int(0, 59))
            if not _in_range(t, abs(off) + 1):
                off = 0
            part.count()
            part.nontriv(("t", str(t), off))
            part.cls("arith:time-of-day", f"{t} n={off}")
            f = time_arith_prop(t, off)
            if f:
                return f, {"kind": "timearith",
                           "dt": _iso(t), "n": off}
            return None
        part.count()
        other = dt + datetime.timedelta(days=off)
        if _nontrivial(dt, other):
            part.nontriv((str(dt), off))
        part.cls("arith:stride" if abs(off) in STRIDES else "arith:random",
                 f"{dt.date()} n={off}")
        f = arith_prop(dt, off)
        if f:
            return f, {"kind": "arith", "d": dt.strftime("%Y-%m-%d"),
                       "n": off}
    part.hyp(tapes(64), body, n)


def part_arith_keydays(part, shard, nshards):
    """All key days of every 16th year x the stride set, through the
    interpreter."""
    lo = datetime.datetime(1000, 1, 1)
    hi = datetime.datetime(9999, 12, 31)
    for y in range(1000 + shard, 10000, nshards * 8):
        for m, d in [(1, 1), (12, 31), (2, 28), (3, 1)]:
            dt = datetime.datetime(y, m, d)
            for s in STRIDES:
                for n in (s, -s):
                    if not _in_range(dt, n):
                        continue
                    part.count()
                    part.distinct()
                    part.cls("arith:keyday-stride")
                    f = arith_prop(dt, n)
                    part.collect(f, {"kind": "arith",
                                     "d": dt.strftime("%Y-%m-%d"), "n": n})


def parts(tier, seed):
    ps = []
    if tier == "quick":
        ps += [(f"keydays-{i}", part_keydays, {"shard": i, "nshards": 8})
               for i in range(8)]
        ps += [(f"random-{i}", part_random_conv, {"n": 2500})
               for i in range(4)]
        ps += [(f"arith-{i}", part_arith, {"n": 1500}) for i in range(4)]
        ps += [(f"between-{i}", part_between, {"n": 1500}) for i in range(2)]
    else:
        ps += [(f"alldays-{i}", part_alldays, {"shard": i, "nshards": 32})
               for i in range(32)]
        ps += [(f"random-{i}", part_random_conv, {"n": 40000})
               for i in range(4)]
        ps += [(f"arith-{i}", part_arith, {"n": 30000}) for i in range(8)]
        ps += [(f"between-{i}", part_between, {"n": 30000}) for i in range(4)]
        ps += [(f"arithkey-{i}", part_arith_keydays,
                {"shard": i, "nshards": 8}) for i in range(8)]
    return ps
