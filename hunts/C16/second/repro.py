#!/usr/bin/env python
"""C16 second hunt - reproductions.

Run:  cd /tmp/seed4/C16 && PYTHONPATH=/tmp/seed4/C16/src /venv/bin/python hunt/repro.py [-v]

Prints one line per reported finding:  FINDING <n>: <VIOLATES|HOLDS> <description>
and, after that, CHECK lines for the items of the earlier report that were repaired.
Only the ckl package and the standard library are used.
"""
import os
import signal
import sys

sys.path.insert(0, os.path.join(os.path.dirname(os.path.abspath(__file__)), "..", "src"))

from ckl.interpreter import Interpreter            # noqa: E402
from ckl.errors import CklRuntimeError, CklSyntaxError   # noqa: E402

VERBOSE = "-v" in sys.argv


class Timeout(Exception):
    pass


def _alarm(signum, frame):
    raise Timeout()


signal.signal(signal.SIGALRM, _alarm)


def run(src, legacy):
    """Evaluate src on a fresh interpreter, return the rendered result."""
    signal.alarm(10)
    try:
        it = Interpreter(secure=False, legacy=legacy)
        return str(it.interpret(src, "repro.ckl"))
    except CklRuntimeError as e:
        return "CKLERR: " + str(e.msg)
    except CklSyntaxError as e:
        return "SYNERR: " + str(e.msg)
    except Timeout:
        return "TIMEOUT"
    except BaseException as e:          # host exception leaking out
        return "PYEXC: %s: %s" % (type(e).__name__, e)
    finally:
        signal.alarm(0)


def probe(cases):
    """cases: (source, result the statement requires). True if all hold."""
    ok = True
    for src, required in cases:
        for legacy in (True, False):
            got = run(src, legacy)
            good = got == required
            ok = ok and good
            if VERBOSE:
                print("    [%s] %s  ==> %s%s" % (
                    "legacy" if legacy else "base  ", src, got,
                    "" if good else "   (required: %s)" % required))
    return ok


def report(kind, n, holds, text):
    print("%s %s: %s %s" % (kind, n, "HOLDS" if holds else "VIOLATES", text))


# ---------------------------------------------------------------- finding 1
# (doubtful) list/set/map/object applied to a value that already has the
# requested kind return the argument itself, so the "converted" value is an
# alias of the input; every other kind of input gives a fresh container.
f1 = probe([
    ("def l = [1, 2]; def c = list(l); append(c, 9); l", "[1, 2]"),
    ("def s = <<1>>; def c = set(s); append(c, 9); s", "<<1>>"),
    ("def m = <<<1 => 2>>>; def c = map(m); c[5] = 6; m", "<<<1 => 2>>>"),
    ("def o = <*a = 1*>; def c = object(o); c->b = 6; o", "<*a=1*>"),
    # controls: a conversion between kinds is independent of its input
    ("def s = <<1>>; def c = list(s); append(c, 9); s", "<<1>>"),
    ("def o = <*a = 1*>; def c = map(o); c['b'] = 6; o", "<*a=1*>"),
])
report("FINDING", 1, f1,
       "(doubtful) list(l) / set(s) / map(m) / object(o) return their "
       "argument itself: changing the result changes the input")

# ------------------------------------------- items repaired since hunt no. 1
c3 = probe([
    ("def l = [1, 2]; def c = chunks(l, 5); append(c[0], 9); l", "[1, 2]"),
    ("def l = [1, 2, 3, 4]; def c = chunks(l, 4); append(c[0], 9); l", "[1, 2, 3, 4]"),
    ("def l = [1, 2, 3, 4]; def c = chunks(l, 2); append(c[1], 9); append(c[0], 8); l", "[1, 2, 3, 4]"),
])
report("CHECK", "earlier-3", c3, "chunks() never puts the caller's list into its result")

c4 = probe([
    ("def f(x) x; def s = <<f>>; def g = f; [f in s, g in s]", "[TRUE, TRUE]"),
    ("def f(x) x; def m = <<<>>>; m[f] = 1; def g = f; [m[f], m[g], f in m]", "[1, 1, TRUE]"),
    ("def f(x) x; def s = <<f>>; def [g, h] = [f, f]; remove(s, h); length(s)", "0"),
])
report("CHECK", "earlier-4", c4, "def g = f no longer damages a set / map holding f")

c5 = probe([
    ("def o = <*a=1, b=2*>; for v in values o do o->c = 5; end; o", "<*a=1, b=2, c=5*>"),
    ("def o = <*a=1, b=2, c=3*>; for k in keys o do remove(o, k) end; o", "<**>"),
    ("def o = <*a=1, b=2*>; for e in entries o do o[e[0] + 'x'] = e[1] end; o", "<*a=1, b=2, ax=1, bx=2*>"),
])
report("CHECK", "earlier-5", c5, "members can be added / removed while a for loop runs over the object")
