"""C08  Rendering is canonical and data literals round-trip through print and parse."""
import re

from vf.core import Finding
from vf.gen.chooser import TapeChooser, tapes
from vf.gen import values as gv
from vf.model import values as mv
from vf import cklrun

PROPERTY = "C08"
RULE = (
    "Hypothesis-generated data values to depth 3 (NULL, booleans, ints incl. "
    "negative and > 2^64, decimals across magnitudes 5e-324..1.8e308 incl. "
    "integral and -0.0, strings over both quotes, backslash runs, CR LF TAB, "
    "NUL/ESC/DEL, #, //, braces, << >>, non-ASCII, patterns, empty and nested "
    "lists/sets/maps incl. sets in sets and maps keyed by every scalar kind). "
    "Oracles: (i) every sampled permutation of the construction order of "
    "every set and map renders to the identical text; (ii) an int renders as "
    "-?[0-9]+, a decimal as -?[0-9]+\\.[0-9]+, a string as the quoted text "
    "with \\\\ \\' \\r \\n \\t escaped (independent renderer); (iii) "
    "interpreting the rendered text yields a model-equal value of the same "
    "deep type (int vs decimal at every position) that renders to the same "
    "text; built both through ckl.values constructors and from literal "
    "source text; (iv) the language itself calls the round-tripped value and "
    "the permuted construction equal (==), and a set / map built from all "
    "three has one element / key; (v) a generated sequence of mutations "
    "(index and member assignment, put, remove, append, insert_at, "
    "delete_at, nested targets) of a map, list, set or object renders the "
    "same at the end whether or not renderings, hashing uses, spreads and "
    "conversions of the container were interleaved, and round-trips. "
    "Also: every numeric result of a table of int/decimal "
    "producing expressions renders according to its type(). Non-trivial = "
    "value with a character that needs escaping, a decimal outside "
    "[1e-4, 1e16), a negative number, or a collection nested in a set or map."
)
ASSUMPTIONS = [
    "NaN/inf excluded; dates are not in the statement's list of data values",
    "excluded by construction and counted (open known findings): maps with "
    "the key NULL, patterns that contain '//', end in '/' or are empty, "
    "values holding both -0.0 and a pattern (cross-kind order by text is not "
    "consistent there; root cause of the open C12 finding)",
]

INT_RE = re.compile(r"-?[0-9]+\Z")
DEC_RE = re.compile(r"-?[0-9]+\.[0-9]+\Z")


def dec(s):
    return eval(s, {"MSet": mv.MSet, "MMap": mv.MMap, "Pat": mv.Pat,
                    "inf": float("inf"), "__builtins__": {}}, {})


def walk(v):
    yield v
    k = mv.kind(v)
    if k == "list":
        for x in v:
            yield from walk(x)
    elif k == "set":
        for x in v.items:
            yield from walk(x)
    elif k == "map":
        for a, b in v.pairs:
            yield from walk(a)
            yield from walk(b)


def bad_pattern(t):
    return t == "" or "//" in t or t.endswith("/")


def known_class(v):
    for x in walk(v):
        if mv.kind(x) == "map" and any(a is None for a, _ in x.pairs):
            return "map-key-NULL"
    for x in walk(v):
        if mv.kind(x) == "pattern" and bad_pattern(x.text):
            return "pattern-contains-delimiter"
    # the order across kinds goes by rendered text: "-0.0" < "//p//" < "0.0"
    # although -0.0 == 0.0, so lists holding a negative zero, a pattern and a
    # zero have no consistent order (same root cause as the open C12 finding
    # on dates next to numbers): such values are not generated here
    negzero = pat = False
    for x in walk(v):
        if mv.kind(x) == "decimal" and x == 0 and str(x) == "-0.0":
            negzero = True
        if mv.kind(x) == "pattern":
            pat = True
    if negzero and pat:
        return "negative-zero-next-to-pattern"
    return None


def nontrivial(v):
    for x in walk(v):
        k = mv.kind(x)
        if k == "string" and any(c in x for c in "\\'\r\n\t"):
            return True
        if k == "decimal" and x != 0 and not (1e-4 <= abs(x) < 1e16):
            return True
        if k in ("int", "decimal") and (x < 0 or (x == 0 and str(x) == "-0.0")):
            return True
        if k == "set" and any(mv.kind(e) in ("set", "map", "list")
                              for e in x.items):
            return True
        if k == "map" and any(mv.kind(a) in ("set", "map", "list") or
                              mv.kind(b) in ("set", "map") for a, b in x.pairs):
            return True
    return False


def permuted(ch, v):
    k = mv.kind(v)
    if k == "list":
        return [permuted(ch, x) for x in v]
    if k == "set":
        return mv.MSet(ch.shuffle([permuted(ch, x) for x in v.items]))
    if k == "map":
        return mv.MMap(ch.shuffle([(permuted(ch, a), permuted(ch, b))
                                   for a, b in v.pairs]))
    return v


def leaf_format(v):
    """Independent expectation for scalar renderings; None if unconstrained."""
    k = mv.kind(v)
    if k == "null":
        return "NULL"
    if k == "boolean":
        return "TRUE" if v else "FALSE"
    if k == "string":
        return mv.render_string(v)
    return None


def check_value(v, variants=()):
    """v: model value; variants: model-equal values with permuted construction
    order.  Returns Finding or None."""
    tag = known_class(v)
    suffix = f"|{tag}" if tag else ""
    try:
        cv = cklrun.from_model(v)
        text = str(cv)
    except Exception as e:
        return Finding(f"C08|render-raises-{type(e).__name__}{suffix}",
                       f"{v!r}: {e}")
    # (i) canonical
    for w in variants:
        t2 = str(cklrun.from_model(w))
        if t2 != text:
            return Finding("C08|rendering-depends-on-construction-order",
                           f"{v!r} renders {text!r}; {w!r} renders {t2!r}")
    # (ii) scalar formats
    for x in walk(v):
        k = mv.kind(x)
        if k in ("int", "decimal", "string", "null", "boolean"):
            t = str(cklrun.from_model(x))
            if k == "int" and not INT_RE.match(t):
                return Finding("C08|int-not-an-integer-numeral",
                               f"{x!r} renders {t!r}")
            if k == "decimal" and not DEC_RE.match(t):
                return Finding("C08|decimal-not-a-positional-numeral",
                               f"{x!r} renders {t!r}")
            want = leaf_format(x)
            if want is not None and t != want:
                return Finding(f"C08|{k}-rendering-differs",
                               f"{x!r} renders {t!r}, expected {want!r}")
    # (iii) round trip
    out = cklrun.run(text, budget=20)
    if out[0] != "value":
        return Finding(f"C08|roundtrip|rendered-text-does-not-evaluate"
                       f"{suffix}", f"{v!r} renders {text!r} -> "
                       f"{cklrun.short(out)}")
    try:
        back = cklrun.to_model(out[1])
    except cklrun.BadValue as e:
        return Finding(f"C08|roundtrip|badvalue{suffix}", f"{text!r}: {e}")
    if not mv.meq(back, v):
        return Finding(f"C08|roundtrip|value-differs{suffix}",
                       f"{v!r} renders {text!r}, which evaluates to {back!r}")
    if mv.deep_type(back) != mv.deep_type(v):
        return Finding(f"C08|roundtrip|type-differs{suffix}",
                       f"{v!r} renders {text!r}, which evaluates to {back!r}")
    t3 = str(out[1])
    if t3 != text:
        return Finding(f"C08|roundtrip|second-rendering-differs{suffix}",
                       f"{text!r} -> {t3!r}")
    return None


def check_literal_route(v):
    """Build the value by interpreting literal source text; its rendering
    inside a list must equal the rendering of the API-built value."""
    tag = known_class(v)
    suffix = f"|{tag}" if tag else ""
    src = f"string([{mv.literal(v)}])"
    out = cklrun.run(src, budget=20)
    if out[0] != "value":
        return Finding(f"C08|literal-route|{out[0]}{suffix}",
                       f"{src} -> {cklrun.short(out)}")
    got = cklrun.to_model(out[1])
    want = "[" + str(cklrun.from_model(v)) + "]"
    if got != want:
        return Finding(f"C08|literal-route|rendering-differs{suffix}",
                       f"{src} gave {got!r}, API rendering {want!r}")
    return None


NUM_EXPRS = [
    "date('20200115') - date('20200101')", "date('20200115120000') - date('20200101')",
    "length('abc')", "int('42')", "int(2.7)", "int(-2.7)", "decimal(3)",
    "decimal('2.50')", "round(2.5)", "round(2.567, 2)", "7 / 2", "7.0 / 2",
    "-7 / 2", "7 % 3", "7.5 % 2", "2 * 3", "2 * 3.0", "1e0", "sum([1, 2, 3])",
    "sum([1, 2.5])", "floor(2.5)", "ceiling(2.5)", "abs(-3)", "abs(-3.5)",
    "sign(-2)", "pow(2, 10)", "pow(2.0, 3)", "sqrt(16)", "ord('a')",
    "find('abc', 'c')", "compare(1, 2)", "int(date('20200101'))",
    "decimal(date('20200101'))", "timestamp('20200101000000')" if False else "1",
    "min(1, 2.0)", "max(1, 2.0)", "10000000000000000 * 1.0", "1.0 / 3",
    "0.00001 * 1", "100000000000000000000 + 1", "2.0 * 10000000000000000000000",
    "mean([1, 2])", "median([1, 2, 3])", "length([])", "bit_and(6, 3)",
    "int(TRUE)", "decimal(FALSE)", "parse_json('1.5e3')", "parse_json('12')",
    "parse_json('1e2')", "0.1 + 0.2", "1 - 1.0", "-0.0", "0.0 * -1",
    # decimals made from ints that no double represents exactly
    "decimal(9007199254740993)", "9007199254740993 * 1.0",
    "9007199254740993 + 0.0", "9007199254740993 - 0.5",
    "round(9007199254740993)", "floor(9007199254740993)",
    "ceiling(9007199254740993)", "abs(decimal(-9007199254740993))",
    "max(9007199254740993, 0.5)", "min(-9007199254740993, 0.5)",
    "sum([9007199254740993, 0.5])", "decimal(pow(10, 25) + 1)",
    "mean([9007199254740993])", "decimal(18446744073709551617)",
    "if_null(NULL, decimal(9007199254740993))", "decimal('9007199254740993')",
    "9007199254740993 / 1.0", "9007199254740993 % 2.5",
    "[decimal(9007199254740993)][0]", "decimal(2147483648 * 4194304 + 1)",
    # ints beyond the host's default int <-> text limit of 4300 digits
    "pow(10, 5000)", "pow(10, 4300) - 1", "0 - pow(7, 6000)", "pow(10, 4299)",
]


def check_numeric_expr(expr):
    src = (f"def v = {expr}; def w = eval(string([v]))[0]; "
           f"[type(v), string(v), string([v]), w == v, type(w) == type(v), "
           f"string(w) == string(v)]")
    out = cklrun.run(src, budget=20)
    if out[0] == "error":
        return None      # the expression is not defined for these operands
    if out[0] != "value":
        return Finding(f"C08|typed-render|{out[0]}", f"{src} -> "
                       f"{cklrun.short(out)}")
    try:
        t, s, inlist, same, same_type, same_text = cklrun.to_model(out[1])
    except cklrun.BadValue as e:
        return Finding("C08|typed-render|badvalue", f"{src}: {e}")
    if t in ("int", "decimal") and not (same is True and same_type is True
                                        and same_text is True):
        return Finding("C08|typed-render|roundtrip",
                       f"{expr} renders {s!r}; evaluating that text gives a "
                       f"value with ==: {same}, same type: {same_type}, same "
                       f"text: {same_text}")
    if t == "int" and not (INT_RE.match(s) and inlist == f"[{s}]"):
        return Finding("C08|int-not-an-integer-numeral",
                       f"{expr} has type int but renders {s!r} / {inlist!r}")
    if t == "decimal" and not (DEC_RE.match(s) and inlist == f"[{s}]"):
        return Finding("C08|decimal-not-a-positional-numeral",
                       f"{expr} has type decimal but renders {s!r} / "
                       f"{inlist!r}")
    return None


def check_language_equality(v, variants):
    """The round trip must give a value the *language* calls equal, and equal
    values must be one element of a set / one key of a map, whatever order
    their parts were written in."""
    if known_class(v):
        return None
    a = mv.literal(v)
    b = mv.literal(variants[0]) if variants else a
    src = (f"def a = {a}; def b = {b}; def c = eval(string([a]))[0]; "
           f"[a == b, b == a, a == c, c == a, c == b, "
           f"string(<<a, b, c>>) == string(<<a>>), "
           f"string(<<c, b, a>>) == string(<<a>>), "
           f"string(<<<identity(a) => 0, identity(b) => 0, identity(c) => 0"
           f">>>) == string(<<<identity(a) => 0>>>), "
           f"string(c) == string(a), string(b) == string(a)]")
    names = ["a == b", "b == a", "a == eval(string(a))",
             "eval(string(a)) == a", "eval(string(a)) == b",
             "<<a, b, c>> renders as <<a>>", "<<c, b, a>> renders as <<a>>",
             "map keyed by a, b, c renders as map keyed by a",
             "string(eval(string(a))) == string(a)", "string(b) == string(a)"]
    out = cklrun.run(src, budget=20)
    if out[0] != "value":
        return Finding(f"C08|language-equality|{out[0]}",
                       f"{src} -> {cklrun.short(out)}")
    got = cklrun.to_model(out[1])
    for g, nm in zip(got, names):
        if g is not True:
            return Finding(f"C08|language-equality|{nm}",
                           f"a = {a}, b = {b} (same value, other construction"
                           f" order), c = eval(string([a]))[0]: {nm} is {g!r}")
    return None


# ---- renderings interleaved with mutations

KEY_POOL = ["1", "2", "3", "0", "'a'", "'b'", "'c'", "2.5", "TRUE", "[1]",
            "<<1>>", "-1", "'B'", "10"]
OBSERVERS = ["string(x)", "string([x])", "<<x>>", "<<<identity(x) => 1>>>",
             "x == x", "[...x]", "<<...x>>", "length(x)",
             "sorted(x)", "object(x)", "set(x)", "list(x)", "map(x)",
             "[e for e in x]", "sum(x)", "x == []", "s('{x}')", "x in <<x>>",
             "string(x[0])", "string(x[1])", "string(x['a'])",
             "<<x[0]>>", "<<x['a']>>", "sprintf('{0}', x)"]


def gen_mutation_case(ch):
    def val(depth=1):
        for _ in range(10):
            v = gv.gen_value(ch, depth=ch.int(0, depth),
                             kinds=("null", "boolean", "int", "decimal",
                                    "string"), wide=False, maxlen=3)
            if not known_class(v):
                return mv.literal(v)
        return "0"

    def key():
        return ch.choice(KEY_POOL)

    kind = ch.weighted([(5, "map"), (3, "list"), (3, "set"), (1, "object")])
    n0 = ch.int(0, 4)
    if kind == "map":
        ks = []
        for _ in range(n0):
            k = key()
            if k not in ks:
                ks.append(k)
        base = "<<< " + ", ".join(f"{k} => {val()}" for k in ks) + " >>>"
        if not ks:
            base = "<<<>>>"
    elif kind == "list":
        base = "[" + ", ".join(val() for _ in range(n0)) + "]"
    elif kind == "set":
        base = "<< " + ", ".join(ch.choice([key(), val()])
                                  for _ in range(n0)) + " >>"
    else:
        base = "<* " + ", ".join(f"{n} = {val()}" for n in
                                  ["a", "b", "c", "d"][:n0]) + " *>"
    steps = []
    for _ in range(ch.int(1, 7)):
        if ch.bool(0.45):
            steps.append(("obs", ch.choice(OBSERVERS)))
            continue
        idx = str(ch.int(-2, 4))
        if kind == "map":
            m = ch.choice([f"x[{key()}] = {val()}", f"x[{key()}] = {val()}",
                           f"put(x, {key()}, {val()})",
                           f"remove(x, {key()})", f"x[{key()}] += 1",
                           f"append(x[{key()}], {val(0)})",
                           f"x[{key()}][{idx}] = {val(0)}",
                           f"x[{key()}][{key()}] = {val(0)}",
                           f"x !> put({key()}, {val()})"])
        elif kind == "list":
            m = ch.choice([f"x[{idx}] = {val()}", f"append(x, {val()})",
                           f"insert_at(x, {idx}, {val()})",
                           f"delete_at(x, {idx})", f"remove(x, {val()})",
                           f"x[{idx}][{idx}] = {val(0)}",
                           f"x[{idx}][{key()}] = {val(0)}",
                           f"append(x[{idx}], {val(0)})",
                           f"x !> append({val()})",
                           f"append_all(x, [{val()}, {val()}])"])
        elif kind == "set":
            m = ch.choice([f"append(x, {key()})", f"append(x, {val()})",
                           f"remove(x, {key()})", f"x !> append({key()})",
                           f"append_all(x, [{key()}, {val()}])"])
        else:
            nm = ch.choice(["a", "b", "c", "e", "zz"])
            m = ch.choice([f"x->{nm} = {val()}", f"x['{nm}'] = {val()}",
                           f"remove(x, '{nm}')",
                           f"append(x->{nm}, {val(0)})"])
        steps.append(("mut", m))
    return {"kind": "mutation", "container": kind, "base": base,
            "steps": [list(s) for s in steps]}


def _mutation_program(case, observed):
    parts_ = [f"def x = {case['base']}", "def log = []"]
    for what, text in case["steps"]:
        if what == "obs":
            if observed:
                parts_.append(f"do {text} catch all NULL end")
        else:
            parts_.append(f"do {text}; append(log, 1) catch all "
                          f"append(log, 0) end")
    tail = "[string(x), string([x]), string(<<x>>), log"
    if case["container"] != "object":
        tail += (", eval(string([x]))[0] == x, "
                 "string(eval(string([x]))) == string([x])")
    parts_.append(tail + "]")
    return "; ".join(parts_)


def check_mutation(case):
    pa = _mutation_program(case, True)
    pb = _mutation_program(case, False)
    oa = cklrun.run(pa, budget=20)
    ob = cklrun.run(pb, budget=20)
    if ob[0] != "value":
        if oa[0] != ob[0]:
            return Finding("C08|mutation|observed-run-ends-differently",
                           f"{pa} -> {cklrun.short(oa)}; without the "
                           f"observations -> {cklrun.short(ob)}")
        return None
    if oa[0] != "value":
        return Finding("C08|mutation|observed-run-ends-differently",
                       f"{pa} -> {cklrun.short(oa)}; without the "
                       f"observations -> {cklrun.short(ob)}")
    ga = cklrun.to_model(oa[1])
    gb = cklrun.to_model(ob[1])
    if ga[:4] != gb[:4]:
        return Finding(f"C08|mutation|rendering-depends-on-earlier-"
                       f"observation|{case['container']}",
                       f"{pa} -> {ga[:3]!r}; the same mutations without the "
                       f"intermediate observations -> {gb[:3]!r}")
    if "NULL =>" in ga[0] or "//" in ga[0]:
        return None          # open known findings (NULL key) / not data
    for g in (ga, gb):
        if len(g) > 4 and (g[4] is not True or g[5] is not True):
            return Finding(f"C08|mutation|roundtrip-after-mutation|"
                           f"{case['container']}",
                           f"{pa if g is ga else pb} -> {g!r}: "
                           f"eval(string(x)) == x is {g[4]!r}, second "
                           f"rendering equal is {g[5]!r}")
    return None


def mutation_nontrivial(case):
    seen_obs = False
    for what, _ in case["steps"]:
        if what == "obs":
            seen_obs = True
        elif seen_obs:
            return True
    return False


TWINS = [("<<1, 1.0>>", "<<1.0, 1>>"), ("<<0.0, -0.0>>", "<<-0.0, 0.0>>"),
         ("set([2, 2.0])", "set([2.0, 2])"), ("<<[1]>> + <<[1.0]>>",
                                             "<<[1.0]>> + <<[1]>>"),
         ("<<<1 => 'a'>>> !> put(1.0, 'a')", "<<<1.0 => 'a'>>> !> put(1, 'a')")]


def twins_prop(a, b):
    """Equal collections built in a different order from an int and the
    decimal equal to it: one value, so one text."""
    src = f"def a = {a}; def b = {b}; [a == b, string(a), string(b)]"
    out = cklrun.run(src, budget=20)
    if out[0] != "value":
        return Finding(f"C08|twins|{out[0]}", f"{src} -> {cklrun.short(out)}")
    eq, ta, tb = cklrun.to_model(out[1])
    if eq is True and ta != tb:
        return Finding("C08|equal-collections-render-differently|int-and-"
                       "equal-decimal",
                       f"{a} == {b} is TRUE, but they render {ta!r} and "
                       f"{tb!r}: the collection keeps whichever of two equal "
                       f"numbers came first")
    return None


# three pairwise unequal elements whose leading collections are an int / the
# equal decimal / a larger int: the order of collections among themselves must
# agree with their equality, or the elements form a cycle
NESTED_TWINS = [
    ["[<<1>>, 0]", "[<<10>>, 0]", "[<<1.0>>, 1]"],
    ["[<<<0 => 1>>>, 0]", "[<<<0 => 10>>>, 0]", "[<<<0 => 1.0>>>, 1]"],
    ["[<*a = 1*>, 0]", "[<*a = 10*>, 0]", "[<*a = 1.0*>, 1]"],
    ["[[<<2>>], 'a']", "[[<<2.0>>], 'b']", "[[<<12>>], 'a']"],
]


def nested_twins_prop(elems, as_keys=False):
    import itertools as _it
    texts = {}
    for perm in _it.permutations(elems):
        lit = ("<<< " + ", ".join(f"({e}) => 1" for e in perm) + " >>>") \
            if as_keys else ("<< " + ", ".join(perm) + " >>")
        src = f"def v = {lit}; def t = string(v); " \
              f"[t, eval(t) == v, string(eval(t)) == t]"
        out = cklrun.run(src, budget=20)
        if out[0] != "value":
            return Finding(f"C08|nested-twins|{out[0]}",
                           f"{src} -> {cklrun.short(out)}")
        t, same, fixed = cklrun.to_model(out[1])
        if same is not True:
            return Finding("C08|roundtrip|value-differs|nested-twins",
                           f"{src}: the text {t!r} evaluates to another value")
        if fixed is not True:
            return Finding("C08|equal-collections-render-differently|"
                           "collections-ordered-by-text",
                           f"{src}: the text {t!r} evaluates to an equal "
                           f"value that renders differently")
        texts.setdefault(t, lit)
    if len(texts) > 1:
        shown = "; ".join(f"{l} -> {t}" for t, l in list(texts.items())[:3])
        return Finding("C08|equal-collections-render-differently|"
                       "collections-ordered-by-text",
                       f"one set written in six orders has {len(texts)} "
                       f"texts: {shown}")
    return None


REBIND = [
    "do eval('NULL = 0') catch all 0 end",
    "do eval('def NULL = 1') catch all 0 end",
    "do eval('[NULL] = [2]') catch all 0 end",
    "(fn() do eval('NULL = 3') catch all 0 end)()",
    "do eval('def f(NULL) NULL; f(4)') catch all 0 end",
]


# binding forms with a scope of their own: the check runs inside (@)
SCOPED_REBIND = [
    "for NULL in [7] do @ end", "for [a, NULL] in [[1, 7]] do @ end",
    "[@ for NULL in [7]][0]", "[@ for x in [1] for NULL in [7]][0]",
    "[@ for x in [1] also for NULL in [7]][0]",
    "[@ for NULL in [7] for x in [1]][0]",
    "list(<<@ for NULL in [7]>>)[0]", "<<<1 => @ for NULL in [7]>>>[1]",
    "require Math as NULL; @", "require Math import [PI as NULL]; @",
    "require Math import [PI as p, E as NULL]; @",
]


def scoped_rebind_prop(template):
    check = ("[eval(t) == v, string(eval(t)) == t, "
             "string([NULL]) == '[NULL]', NULL == v[0]]")
    inner = template.replace("@", check)
    src = (f"def v = [NULL, <<<'a' => NULL>>>, <<NULL>>]; def t = string(v); "
           f"def r = [TRUE, TRUE, TRUE, TRUE]; "
           f"do r = eval(\"{inner}\") catch all 0 end; r")
    out = cklrun.run(src, budget=20)
    if out[0] != "value":
        return Finding(f"C08|rebinding|{out[0]}",
                       f"{src} -> {cklrun.short(out)}")
    got = cklrun.to_model(out[1])
    if got != [True, True, True, True]:
        return Finding("C08|roundtrip|notation-word-rebound",
                       f"{src} -> {got!r}: inside `{template}` the text of a "
                       f"value no longer evaluates to that value")
    return None


def rebind_prop(stmt):
    """What a rendered text means must not depend on what the program did
    before: the words of the notation (NULL) cannot be given another value."""
    src = (f"def v = [NULL, <<<'a' => NULL>>>, <<NULL>>]; def t = string(v); "
           f"{stmt}; [eval(t) == v, string(eval(t)) == t, "
           f"string([NULL]) == '[NULL]', NULL == v[0]]")
    out = cklrun.run(src, budget=20)
    if out[0] != "value":
        return Finding(f"C08|rebinding|{out[0]}",
                       f"{src} -> {cklrun.short(out)}")
    got = cklrun.to_model(out[1])
    if got != [True, True, True, True]:
        return Finding("C08|roundtrip|notation-word-rebound",
                       f"{src} -> {got!r}: after `{stmt}` the text of a "
                       f"value no longer evaluates to that value")
    return None


def part_twins(part):
    for stmt in REBIND:
        part.count()
        part.distinct()
        part.cls("rebinding", stmt)
        part.collect(rebind_prop(stmt), {"kind": "rebind", "stmt": stmt})
    for tmpl in SCOPED_REBIND:
        part.count()
        part.distinct()
        part.cls("rebinding-scoped", tmpl)
        part.collect(scoped_rebind_prop(tmpl),
                     {"kind": "rebind-scoped", "template": tmpl})
    for k, elems in enumerate(NESTED_TWINS):
        for as_keys in (False, True):
            part.count()
            part.distinct()
            part.cls("nested-twins", elems[0])
            part.collect(nested_twins_prop(elems, as_keys),
                         {"kind": "nested-twins", "index": k,
                          "as_keys": as_keys})
    for a, b in TWINS:
        part.count()
        part.distinct()
        part.cls("numeric-twins", a)
        part.collect(twins_prop(a, b), {"kind": "twins", "a": a, "b": b})
    part.exhaustive = True


def prop(case):
    k = case["kind"]
    if k == "twins":
        return twins_prop(case["a"], case["b"])
    if k == "nested-twins":
        return nested_twins_prop(NESTED_TWINS[case["index"]],
                                 case.get("as_keys", False))
    if k == "rebind-scoped":
        return scoped_rebind_prop(case["template"])
    if k == "rebind":
        return rebind_prop(case["stmt"])
    if k == "value":
        v = dec(case["value"])
        vs = [dec(x) for x in case.get("variants", [])]
        f = check_value(v, vs)
        return f or check_literal_route(v) or check_language_equality(v, vs)
    if k == "mutation":
        return check_mutation(case)
    if k == "numexpr":
        return check_numeric_expr(case["expr"])
    raise ValueError(k)


# --------------------------------------------------------------------- parts

KINDS = ("null", "boolean", "int", "decimal", "string", "pattern")


def _gen(ch, part):
    for _ in range(20):
        v = gv.gen_value(ch, depth=ch.int(0, 3), kinds=KINDS, wide=True,
                         maxlen=4)
        tag = known_class(v)
        if tag is None:
            return v
        part.excluded["by-construction:" + tag] += 1
    return 0


def part_values(part, n):
    def body(tape):
        ch = TapeChooser(tape)
        v = _gen(ch, part)
        variants = [permuted(ch, v) for _ in range(2)]
        part.count()
        if nontrivial(v):
            part.nontriv(repr(v))
        part.cls("value:" + mv.kind(v), repr(v) if len(repr(v)) < 160 else None)
        f = (check_value(v, variants) or check_literal_route(v) or
             check_language_equality(v, variants))
        if f:
            return f, {"kind": "value", "value": repr(v),
                       "variants": [repr(w) for w in variants]}
    part.hyp(tapes(900), body, n)


def part_mutations(part, n):
    def body(tape):
        ch = TapeChooser(tape)
        case = gen_mutation_case(ch)
        part.count()
        if mutation_nontrivial(case):
            part.nontriv(repr(case))
        part.cls("mutation:" + case["container"],
                 _mutation_program(case, True))
        f = check_mutation(case)
        if f:
            return f, case
    part.hyp(tapes(600), body, n)


def part_scalars(part, n):
    """Scalars only, heavier on adversarial strings and decimal magnitudes."""
    import struct

    def body(tape):
        ch = TapeChooser(tape)
        k = ch.int(0, 3)
        if k == 0:
            v = gv.gen_string(ch, maxlen=12)
        elif k == 1:
            # any finite double from its bit pattern
            bits = ch.int(0, 2 ** 64 - 1)
            v = struct.unpack(">d", bits.to_bytes(8, "big"))[0]
            if v != v or v in (float("inf"), float("-inf")):
                v = 1.5
        elif k == 2:
            v = gv.gen_int(ch)
        else:
            v = gv.gen_decimal(ch, wide=True)
        part.count()
        if nontrivial(v):
            part.nontriv(repr(v))
        part.cls("scalar:" + mv.kind(v), repr(v))
        f = check_value(v) or check_literal_route(v)
        if f:
            return f, {"kind": "value", "value": repr(v)}
    part.hyp(tapes(200), body, n)


def part_all_orders(part, n):
    import itertools

    def body(tape):
        ch = TapeChooser(tape)
        ln = ch.int(2, 5 if part.tier == "thorough" else 4)
        elems = []
        for _ in range(ln):
            e = gv.gen_value(ch, depth=ch.int(0, 1), kinds=KINDS, wide=True,
                             maxlen=2)
            if known_class(e) or any(mv.meq(e, x) for x in elems):
                continue
            elems.append(e)
        if len(elems) < 2:
            return None
        as_map = ch.bool(0.4)
        base = None
        part.cls("allorders:" + ("map" if as_map else "set"))
        for perm in itertools.permutations(range(len(elems))):
            xs = [elems[i] for i in perm]
            if as_map:
                if any(x is None for x in xs):
                    return None
                v = mv.MMap([(x, i) for i, x in enumerate(xs)])
                # values differ per order; render keys only through a set too
                v = mv.MMap([(x, 0) for x in xs])
            else:
                v = mv.MSet(xs)
            t = str(cklrun.from_model(v))
            part.count()
            part.nontriv((repr(elems), perm))
            if base is None:
                base = (t, v)
            elif t != base[0]:
                return (Finding("C08|rendering-depends-on-construction-order",
                                f"{base[1]!r} renders {base[0]!r}; {v!r} "
                                f"renders {t!r}"),
                        {"kind": "value", "value": repr(base[1]),
                         "variants": [repr(v)]})
    part.hyp(tapes(400), body, n)


def part_numexprs(part):
    for e in NUM_EXPRS:
        part.count()
        part.distinct()
        part.cls("numexpr", e if len(part.samples.get("numexpr", [])) < 2
                 else None)
        part.collect(check_numeric_expr(e), {"kind": "numexpr", "expr": e})


def parts(tier, seed):
    if tier == "quick":
        ps = [(f"values-{i}", part_values, {"n": 4000}) for i in range(6)]
        ps += [(f"scalars-{i}", part_scalars, {"n": 8000}) for i in range(4)]
        ps += [(f"orders-{i}", part_all_orders, {"n": 150}) for i in range(2)]
        ps += [("numexprs", part_numexprs, {}), ("twins", part_twins, {})]
        ps += [(f"mutations-{i}", part_mutations, {"n": 1500})
               for i in range(3)]
    else:
        ps = [(f"values-{i}", part_values, {"n": 40000}) for i in range(8)]
        ps += [(f"scalars-{i}", part_scalars, {"n": 60000}) for i in range(4)]
        ps += [(f"orders-{i}", part_all_orders, {"n": 2500}) for i in range(3)]
        ps += [("numexprs", part_numexprs, {}), ("twins", part_twins, {})]
        ps += [(f"mutations-{i}", part_mutations, {"n": 25000})
               for i in range(4)]
    return ps
