#!/usr/bin/env python
"""Reproductions for the second C10 hunt (session persistence / failure residue).

Run:  cd /tmp/seed4/C10 && PYTHONPATH=/tmp/seed4/C10/src /venv/bin/python hunt/repro.py
Prints one line per finding: FINDING <n>: <VIOLATES|HOLDS> <description>
Uses only the ckl package and the standard library.
"""
import signal

from ckl.interpreter import Interpreter
from ckl.errors import CklRuntimeError, CklSyntaxError


class Timeout(Exception):
    pass


def _alarm(signum, frame):
    raise Timeout()


signal.signal(signal.SIGALRM, _alarm)


def mk(legacy=False):
    return Interpreter(secure=False, legacy=legacy)


def run(it, src):
    """('OK', text) or ('RTE'|'SYN'|'PY', message)."""
    try:
        return ("OK", str(it.interpret(src, "t.ckl")))
    except CklRuntimeError as e:
        return ("RTE", str(e.msg))
    except CklSyntaxError as e:
        return ("SYN", str(e.msg))
    except Timeout:
        raise
    except Exception as e:  # pragma: no cover
        return ("PY", type(e).__name__ + ": " + str(e))


def finding(n, description, probe):
    signal.alarm(15)
    try:
        verdict = "VIOLATES" if probe() else "HOLDS"
    except Timeout:
        verdict = "VIOLATES"
        description += " [probe timed out]"
    except Exception as e:
        verdict = "HOLDS"
        description += " [probe crashed: %s: %s]" % (type(e).__name__, e)
    finally:
        signal.alarm(0)
    print("FINDING %d: %s %s" % (n, verdict, description))


# 1a. a failed assignment whose right-hand side is a stray break/continue
#     replaces the variable's value by a control marker
def f1a():
    bad = False
    for legacy in (False, True):
        for rhs in ("do break end", "do continue end", "if TRUE then break"):
            it = mk(legacy)
            assert run(it, "def a = 0") == ("OK", "0")
            r = run(it, "a = " + rhs)
            assert r[0] == "RTE", r                  # the call fails ...
            if run(it, "a") != ("OK", "0"):          # ... yet a is no longer 0
                bad = True
    return bad


# 1b. a failed `def x = do break end` leaves x defined; reading x later aborts
#     the rest of any script
def f1b():
    bad = False
    for legacy in (False, True):
        it = mk(legacy)
        r = run(it, "def x = do break end")
        assert r[0] == "RTE", r
        if "x" in it.environment.map:
            bad = True
        r2 = run(it, "def y = 1; x; def z = 2")
        if r2[0] == "RTE" and "Symbol 'x' not defined" not in r2[1]:
            bad = True          # fails with 'Cannot use break ...', z never defined
    return bad


# 1c. (doubtful, successful calls) def r = do return 5 end binds a return marker:
#     a later script that merely mentions r stops there without any error
def f1c():
    it = mk()
    assert run(it, "def r = do return 5 end") == ("OK", "5")
    r = run(it, "def q1 = 1; r; def q2 = 2")
    return r == ("OK", "5") and run(it, "q2")[0] == "RTE"


# 2a. a class definition binds its members in the enclosing (session) scope
#     and so replaces unrelated top-level definitions of the same name
def f2a():
    bad = False
    for legacy in (False, True):
        it = mk(legacy)
        assert run(it, "def v = 100") == ("OK", "100")
        assert run(it, "def h(x) x + 1")[0] == "OK"
        assert run(it, "def class K do def v = 1; def h(self) self->v end")[0] == "OK"
        if run(it, "v") != ("OK", "100"):
            bad = True
        if run(it, "h(1)") != ("OK", "2"):
            bad = True
    return bad


# 2b. a class whose body fails is not defined, but the members evaluated before
#     the failure stay behind as top-level names
def f2b():
    it = mk()
    r = run(it, "def class K2 do def m1 = 5; def m2 = 1/0 end")
    assert r[0] == "RTE"
    assert run(it, "K2")[0] == "RTE"
    return run(it, "m1") == ("OK", "5")


# 2c. consequence: a class with a method called add/sub/equals/... hijacks the
#     operators of every later call in the session
def f2c():
    it = mk()
    assert run(it, "1 + 2") == ("OK", "3")
    assert run(it, "def class V do def add(self, other) 42 end")[0] == "OK"
    return run(it, "1 + 2") != ("OK", "3")


# 3. (doubtful) a failed destructuring def of a non-collection wipes the doc
#    string of the value it was applied to, although it defined nothing
def f3():
    it = mk()
    assert run(it, "'doc f' def f(x) x")[0] == "OK"
    assert run(it, "info(f)") == ("OK", "'doc f'")
    r = run(it, "def [a, b] = f")
    assert r[0] == "RTE"
    return run(it, "info(f)") != ("OK", "'doc f'")


finding(1, "failed `a = do break end` overwrites a with a break marker (a was 0, now unreadable)", f1a)
finding(2, "failed `def x = do break end` leaves x bound to a break marker that aborts later scripts", f1b)
finding(3, "(doubtful) `def r = do return 5 end` binds a return marker; later `def q1 = 1; r; def q2 = 2` stops silently at r", f1c)
finding(4, "`def class K do def v = 1; def h(self) .. end` overwrites top-level v and h", f2a)
finding(5, "failing class body leaves the members evaluated so far as top-level names (class itself undefined)", f2b)
finding(6, "class method named add leaks to top level and changes `1 + 2` for the rest of the session", f2c)
finding(7, "(doubtful) failed `def [a, b] = f` wipes info(f)", f3)
