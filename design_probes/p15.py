import itertools, collections, sys
from ckl.interpreter import Interpreter
from ckl.functions import get_none_environment
from ckl.errors import *
from ckl.values import *
it = Interpreter(False, True)
def ev(src):
    try:
        v = it.interpret(src, "t", get_none_environment())
        return ('val', py(v))
    except CklRuntimeError as e: return ('err', py(e.value) if isinstance(e.value, Value) else 'HOSTVAL')
    except Exception as e: return ('host', type(e).__name__)
def py(v):
    if v.isString(): return v.value
    if v.isInt(): return v.value
    if v.isNull(): return None
    if v.isBoolean(): return v.value
    if v.isList(): return [py(x) for x in v.value]
    return ('other', v.type())
def lit(x):
    if isinstance(x, str): return "'" + x + "'"
    if isinstance(x, int): return str(x) if x >= 0 else "(%d)" % x
    return '[' + ', '.join(lit(y) for y in x) + ']'
def norm(i, n): return i + n if i < 0 else i
def clamp(i, n): return max(0, min(n, i))
def m_index(s, i):
    j = norm(i, len(s))
    if 0 <= j < len(s): return ('val', s[j])
    return ('err', 'ERROR')
def m_slice(s, a, b=None):
    n = len(s); a = clamp(norm(a, n), n); b = n if b is None else clamp(norm(b, n), n)
    return ('val', s[a:b] if a < b else s[0:0])
buckets = collections.Counter(); ex = {}
def note(k, e):
    buckets[k] += 1
    if k not in ex: ex[k] = e
def chk(name, src, exp):
    got = ev(src)
    if got != exp: note(name, "%s -> %r expected %r" % (src, got, exp))
seqs = []
for n in range(0, 5):
    for t in itertools.product('ab', repeat=n):
        seqs.append(''.join(t)); seqs.append([{'a':1,'b':2}[c] for c in t])
R = range(-6, 7)
n = 0
for s in seqs:
    S = lit(s)
    for i in R:
        n += 1
        chk('index', "%s[%s]" % (S, lit(i)), m_index(s, i))
        chk('slice1', "%s[%s to *]" % (S, lit(i)), m_slice(s, i))
        if isinstance(s, str): chk('substr1', "substr(%s, %s)" % (S, lit(i)), m_slice(s, i))
        else: chk('sublist1', "sublist(%s, %s)" % (S, lit(i)), m_slice(s, i))
        for j in R:
            n += 1
            chk('slice2', "%s[%s to %s]" % (S, lit(i), lit(j)), m_slice(s, i, j))
            if isinstance(s, str): chk('substr2', "substr(%s, %s, %s)" % (S, lit(i), lit(j)), m_slice(s, i, j))
            else: chk('sublist2', "sublist(%s, %s, %s)" % (S, lit(i), lit(j)), m_slice(s, i, j))
        if isinstance(s, list):
            # insert_at / delete_at
            L = len(s); k = i if i >= 0 else L + 1 + i
            exp = (s[:k] + [9] + s[k:]) if 0 <= k <= L else s
            chk('insert_at', "def l = %s; insert_at(l, %s, 9); l" % (S, lit(i)), ('val', exp))
            k = norm(i, L)
            exp = (s[:k] + s[k+1:]) if 0 <= k < L else s
            chk('delete_at', "def l = %s; delete_at(l, %s); l" % (S, lit(i)), ('val', exp))
            k = norm(i, L)
            chk('assign', "def l = %s; l[%s] = 9; l" % (S, lit(i)), ('val', s[:k] + [9] + s[k+1:]) if 0 <= k < L else ('err', 'ERROR'))
    if isinstance(s, str):
        for part in ['', 'a', 'b', 'ab', 'ba', 'aa']:
            chk('find', "find(%s, %s)" % (S, lit(part)), ('val', s.find(part)))
            chk('find_last', "find_last(%s, %s)" % (S, lit(part)), ('val', s.rfind(part)))
    else:
        for part in [1, 2, 3]:
            chk('findl', "find(%s, %s)" % (S, lit(part)), ('val', s.index(part) if part in s else -1))
            chk('find_lastl', "find_last(%s, %s)" % (S, lit(part)), ('val', (len(s) - 1 - s[::-1].index(part)) if part in s else -1))
    for k in range(0, len(s) + 1):
        chk('identity', "%s[0 to %d] + %s[%d to *] == %s" % (S, k, S, k, S), ('val', True))
print(n, "evals")
for k, c in sorted(buckets.items(), key=lambda x: -x[1]): print(c, k, ex[k])
