import sys, math, itertools, collections, datetime
from hypothesis import given, settings, strategies as st, seed, HealthCheck
from ckl.values import *
from ckl.interpreter import Interpreter
from ckl.functions import get_none_environment
it = Interpreter(False, True)
buckets = collections.Counter(); ex = {}
def note(k, e):
    buckets[k]+=1
    if k not in ex or len(e) < len(ex[k]): ex[k]=e
ALPHA = list(" !\"#&'(aZ\\\t\né")
strs = st.lists(st.sampled_from(ALPHA), max_size=4).map("".join)
nums = st.one_of(st.integers(-3,3), st.sampled_from([2**53, 2**53+1, 2**53-1, 2**63, -2**53-1]), st.sampled_from([0.0, -0.0, 1.0, 2.5, -1.5, 2.0**53, 2.0**53+2, 1e300, 0.1]))
dates = st.integers(0, 5).map(lambda d: datetime.datetime(2020,1,1) + datetime.timedelta(days=d))
def samekind(n):
    base = st.one_of(st.lists(nums,min_size=n,max_size=n), st.lists(strs,min_size=n,max_size=n), st.lists(st.booleans(),min_size=n,max_size=n), st.lists(dates,min_size=n,max_size=n),
       st.lists(st.lists(nums, max_size=3),min_size=n,max_size=n), st.lists(st.lists(strs, max_size=3),min_size=n,max_size=n))
    return base
def mk(v):
    if isinstance(v, bool): return ValueBoolean.fromval(v)
    if isinstance(v, int): return ValueInt(v)
    if isinstance(v, float): return ValueDecimal(v)
    if isinstance(v, datetime.datetime): return ValueDate(v)
    if isinstance(v, str): return ValueString(v)
    if isinstance(v, list):
        r=ValueList()
        for x in v: r.addItem(mk(x))
        return r
N=[0]
@seed(4)
@settings(max_examples=20000, deadline=None, database=None, suppress_health_check=list(HealthCheck))
@given(samekind(3))
def t(vs):
    N[0]+=1
    a,b,c = vs
    A,B,C = mk(a),mk(b),mk(c)
    try:
        if A<A: note(("irrefl",), repr(A))
        lt, gt, eq = A<B, A>B, A==B
        if bool(lt)+bool(gt)+bool(eq) != 1: note(("trichotomy",), "%r %r %s %s %s" % (A,B,lt,gt,eq))
        if bool(lt) != (a<b): note(("model-lt",type(a).__name__), "%r %r real=%s" % (A,B,lt))
        if (A<B) and (B<C) and not (A<C): note(("trans",), "%r %r %r" % (A,B,C))
        if (A<=B) != bool(lt or eq): note(("le",), "%r %r" % (A,B))
        if (A>=B) != bool(gt or eq): note(("ge",), "%r %r" % (A,B))
    except Exception as e:
        note(("raises", type(e).__name__), "%r %r" % (A,B))
t()
print(N[0])
for k,c in sorted(buckets.items(), key=lambda x:-x[1]): print(c, k, repr(ex[k])[:240])
