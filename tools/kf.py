#!/usr/bin/env python3
"""Maintain known_findings.json by hand (never used at check run time).

  kf.py fixed PROP COMMIT "what failed" name=CASEJSON [name=CASEJSON ...]
      record a repaired defect; writes replay/PROP/<name>.json regression inputs
  kf.py open PROP SIGNATURE "what fails" CASEJSON [CASEJSON ...]
      record an open finding identified by its failure signature + examples
"""
import json
import os
import sys

HERE = os.path.dirname(os.path.dirname(os.path.abspath(__file__)))
KF = os.path.join(HERE, "known_findings.json")


def load():
    with open(KF) as f:
        return json.load(f)


def save(d):
    with open(KF, "w") as f:
        json.dump(d, f, indent=1, ensure_ascii=False)
        f.write("\n")


def main(argv):
    d = load()
    if argv[0] == "fixed":
        prop, commit, what = argv[1:4]
        replays = []
        os.makedirs(os.path.join(HERE, "replay", prop), exist_ok=True)
        for item in argv[4:]:
            name, _, cj = item.partition("=")
            case = json.loads(cj)
            path = os.path.join("replay", prop, name + ".json")
            with open(os.path.join(HERE, path), "w") as f:
                json.dump({"property": prop, "case": case}, f, indent=1)
                f.write("\n")
            replays.append(path)
        d["findings"].append({
            "status": "fixed", "property": prop, "commit": commit,
            "what": what,
            "record": f"fixed: property={prop} {commit} {what}",
            "replay": replays,
        })
    elif argv[0] == "open":
        prop, sig, what = argv[1:4]
        examples = [json.loads(x) for x in argv[4:]]
        d["findings"] = [e for e in d["findings"]
                         if not (e.get("status") == "open"
                                 and e["property"] == prop
                                 and e["signature"] == sig)]
        d["findings"].append({
            "status": "open", "property": prop, "signature": sig,
            "what": what, "examples": examples,
        })
    else:
        raise SystemExit(__doc__)
    save(d)


if __name__ == "__main__":
    main(sys.argv[1:])
