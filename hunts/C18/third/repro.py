#!/usr/bin/env python
"""Reproductions for the third C18 hunt (string algebra / s / sprintf).

Run:  cd /tmp/seed5/C18 && PYTHONPATH=/tmp/seed5/C18/src /venv/bin/python hunt/repro.py
Prints one line per finding: FINDING <n>: <VIOLATES|HOLDS> <description>
(VIOLATES = the reported behaviour is reproduced; both findings are classified
"doubtful" in FINDINGS.md), followed by REPAIRED-CHECK lines for the repaired
items of the two earlier investigations.
"""
import signal
import time

from ckl.interpreter import Interpreter
from ckl.errors import CklRuntimeError, CklSyntaxError


class Timeout(Exception):
    pass


def _alarm(signum, frame):
    raise Timeout()


signal.signal(signal.SIGALRM, _alarm)


def run(code, legacy=True, limit=10):
    it = Interpreter(secure=False, legacy=legacy)
    signal.alarm(limit)
    try:
        v = it.interpret(code, "repro.ckl")
        if v.isString() or v.isInt() or v.isBoolean():
            return v.value
        return repr(v)
    except (CklRuntimeError, CklSyntaxError) as e:
        return ("ERR", e.msg)
    except Timeout:
        return ("ERR", "timeout")
    except Exception as e:  # host exception
        return ("HOSTEXC", type(e).__name__, str(e))
    finally:
        signal.alarm(0)


def report(n, violated, text):
    print(f"FINDING {n}: {'VIOLATES' if violated else 'HOLDS'} {text}")


# 1. s() evaluates its placeholders in the scope of whatever code contains the
#    call to s.  Reached through a library function written in the language
#    (sprintf, apply, map_list, curry) the caller's variables are invisible and
#    the library function's own locals are inserted instead.
cases = [
    # (program, what a caller-scoped / "other text unchanged" reading gives)
    ("def fmt = 'outer'; sprintf('{fmt} {0}', 1)", ["outer 1", "{fmt} 1"]),
    ("def x = 'outer'; sprintf('{x} {0}', 1)", ["outer 1", "{x} 1"]),
    ("sprintf('{args...}', 1, 2)", ["{args...}"]),
    ("def x = 'q'; apply(s, ['<{x}>'])", ["<q>"]),
    ("def lst = 'mine'; map_list(['{lst}'], s)", ["['mine']"]),
]
res = []
for code, wants in cases:
    a = run(code)
    b = run(("require List unqualified; " if "map_list" in code else "") + code,
            legacy=False)
    res.append((code, a, b, wants))
viol = all(a == b and a not in wants for code, a, b, wants in res)
report(1, viol, "placeholders are evaluated in the scope of the library function "
       "that calls s, not of the user's call (doubtful): "
       + "; ".join(f"{c} -> {a!r}" for c, a, b, w in res))

# 2. padding on the left is built one character per loop pass (quadratic); a
#    width the host cannot produce never returns for a value without '-', while
#    the twin with a negative number (repaired in ddbbcfc) is a runtime error
t0 = time.time()
left = run("length(s('{7#-200000}'))")
t_left = time.time() - t0
t0 = time.time()
right = run("length(s('{7#200000}'))", limit=30)
t_right = time.time() - t0
huge_pos = run("s('{1#0999999999999999999999999999999}')", limit=5)
huge_pos_sp = run("s('{1#999999999999999999999999999999}')", limit=5)
huge_neg = run("s('{-1#0999999999999999999999999999999}')", limit=5)
viol = (huge_pos == ("ERR", "timeout") and huge_pos_sp == ("ERR", "timeout")
        and isinstance(huge_neg, tuple) and huge_neg[0] == "ERR"
        and huge_neg[1] != "timeout")
report(2, viol, "s('{1#0999999999999999999999999999999}') -> "
       f"{huge_pos!r}, s('{{1#999999999999999999999999999999}}') -> {huge_pos_sp!r}, "
       f"negative twin -> {huge_neg!r}; width 200000: right-justified {right} in "
       f"{t_right:.2f}s, left-justified {left} in {t_left:.2f}s (doubtful)")

# ---------------------------------------------------------------------------
# repaired items of the earlier investigations: do they hold now?
def check(name, pairs):
    ok = True
    detail = []
    for code, want in pairs:
        for legacy in (True, False):
            got = run(code, legacy=legacy)
            if got != want:
                ok = False
                detail.append(f"{code} -> {got!r} (want {want!r}, legacy={legacy})")
    print(f"REPAIRED-CHECK: {'HOLDS' if ok else 'VIOLATES'} {name}"
          + ("" if ok else ": " + "; ".join(detail)))


check("second report, item 1: zero flag on a string value starting with '-' pads it as text", [
    ("def x = '-abc'; s('{x#06}')", "00-abc"),
    ("def x = '--5'; s('{x#05}')", "00--5"),
    ("def x = '-'; s('{x#03}')", "00-"),
    ("sprintf('{0#06}', '-a b')", "00-a b"),
    ("def x = '-abc'; s('{x#6}|{x#-6}|')", "  -abc|-abc  |"),
])
check("first report, item 1: zero padding after the sign of a number", [
    ("def n = -12; s('{n#05}')", "-0012"),
    ("def n = -255; s('{n#06x}')", "-000ff"),
    ("sprintf('{0#08.3}', -3.14159)", "-003.142"),
    ("def n = -1.5; s('{n#07.2}')", "-0001.5"),
])
check("first report, item 2: precision without exponent, ints exact", [
    ("def n = 0.0000123; s('{n#.5}')", "0.00001"),
    ("def n = 0.00001234; s('{n#.7}')", "0.0000123"),
    ("def n = 12345678901234567890; s('{n#.2}')", "12345678901234567890.0"),
    ("def n = 9007199254740993; s('{n#.2}')", "9007199254740993.0"),
    ("sprintf('{0#.2}', 10000000000000000.0)", "10000000000000000.0"),
])
big = all(run(c, legacy=l) == w for l in (True, False) for c, w in [
    ("require String; String->replace('a' * 5000, 'a', 'b') == 'b' * 5000", True),
    ("require String; length(String->esc('<' * 3000))", 12000),
])
print(f"REPAIRED-CHECK: {'HOLDS' if big else 'VIOLATES'} first report, item 3: "
      "replace with thousands of occurrences")
