#!/usr/bin/env python
"""Reproductions for the second C13 hunt ("only language-level errors escape
evaluation").  Run with

    cd /tmp/seed4/C13 && PYTHONPATH=/tmp/seed4/C13/src /venv/bin/python hunt/repro.py [-v]

Every program is evaluated in a child process (so that a hang can be killed)
and one line per finding is printed:

    FINDING <n>: <VIOLATES|HOLDS> <short description>

Only the ckl package and the standard library are used.
"""
import json
import os
import subprocess
import sys
import tempfile
from concurrent.futures import ThreadPoolExecutor

PROBE_TIMEOUT = 8          # seconds per single program
HERE = os.path.dirname(os.path.abspath(__file__))
SRC = os.path.join(os.path.dirname(HERE), "src")

E30 = "9" * 30

# (number, description, programs); a program is (source, legacy).
# A finding VIOLATES if any of its programs ends in a host exception (anything
# but CklRuntimeError) or does not come back within PROBE_TIMEOUT seconds.
FINDINGS = [
    (1, "a map key that is changed after insertion (list/set/map/object/"
        "string): KeyError from rendering, for, comprehension, spread, "
        "conversion, comparison",
     [
         ("def k = [1]; def m = <<<>>>; m[k] = 1; append(k, 2); string(m)",
          False),
         ("def k = [1]; def m = <<<>>>; m[k] = 1; append(k, 2); "
          "for v in m do v end", False),
         ("def k = [1]; def m = <<<>>>; m[k] = 1; append(k, 2); "
          "[e for e in m]", False),
         ("def k = [1]; def m = <<<>>>; m[k] = 1; append(k, 2); "
          "def f(a) a; f(...m)", False),
         ("def k = [1]; def m = <<<>>>; m[k] = 1; append(k, 2); object(m)",
          True),
         ("def k = [1]; def m = <<<>>>; m[k] = 1; append(k, 2); m < 1",
          False),
         ("def k = [1]; def m = <<<>>>; m[k] = 1; append(k, 2); <<<>>>[m]",
          False),
         ("def s = 'a'; def m = <<<>>>; m[s] = 1; s[0] = 'b'; string(m)",
          False),
         ("def o = <*a = 1*>; def m = <<<>>>; m[o] = 1; o->a = 2; "
          "do string(m) catch all 'caught' end", False),
     ]),
    (2, "a _str_ member that changes the object / map being rendered: "
        "RuntimeError (dictionary changed size) / KeyError",
     [
         ("def o = <*a = 1*>; o->a = <*_str_ = fn(self) do o->b = 1; 'x' "
          "end*>; string(o)", False),
         ("def o = <*a = 1*>; o->a = <*_str_ = fn(self) do o->b = 1; 'x' "
          "end*>; o < 1", False),
         ("def m = <<<>>>; def k = <*_str_ = fn(self) do remove(m, 'z'); "
          "'a' end*>; m[k] = 1; m['z'] = 2; string(m)", False),
         ("def m = <<<>>>; def k = <*_str_ = fn(self) do remove(m, 'z'); "
          "'a' end*>; m[k] = 1; m['z'] = 2; for v in m do v end", False),
     ]),
    (3, "find / find_last with a key function that shortens the list: "
        "IndexError",
     [
         ("def l = [1, 2, 3, 4]; "
          "find(l, 9, key = fn(x) do delete_at(l, 0); x end)", False),
         ("def l = [1, 2, 3, 4]; find_last(l, 9, key = fn(x) do "
          "delete_at(l, 0); delete_at(l, 0); x end)", False),
     ]),
    (4, "Random->sample(<map or object with equal values>, n) never ends",
     [
         ("require Random; Random->sample(<<<1 => 'a', 2 => 'a'>>>, 2)",
          False),
         ("require Random; Random->sample(<*a = 1, b = 1*>, 2)", False),
     ]),
    (5, "s() with a zero-padded negative number and a width beyond the "
        "host's size type: OverflowError",
     [
         ("s('{-1#0" + E30 + "}')", False),
         ("def x = -5; s('{x#0" + E30 + ".2}')", False),
     ]),
    (6, "(remainder of repaired item 3) _str_ bound to a built-in that uses "
        "its environment (sorted, read, readln, read_all): AttributeError",
     [
         ("string(<*_str_ = sorted*>)", False),
         ("bind_native('read_all'); string(<*_str_ = read_all*>)", False),
         ("def o = <*_str_ = sorted*>; o < 1", False),
     ]),
    (7, "(remainder of repaired item 14) compare / identity changed by "
        "assignment instead of def: sorted() raises AttributeError",
     [
         ("compare = 5; sorted([2, 1])", False),
         ("identity = 'x'; sorted([2, 1])", False),
         ("[compare, identity] = [1, 2]; sorted([2, 1])", True),
     ]),
    (8, "(remainder of repaired item 15) execute(..., echo = TRUE) with an "
        "argument the host cannot encode: UnicodeEncodeError",
     [
         ("execute('true', [chr(55296)], echo = TRUE)", True),
     ]),
    (9, "(doubtful, resource) s() with a zero-padded negative number and a "
        "width of 10^17: MemoryError",
     [
         ("def x = -5; s('{x#099999999999999999}')", False),
     ]),
]

WORKER = r"""
import sys, json, io
sys.path.insert(0, %(src)r)
import os
os.chdir(%(cwd)r)
from ckl.interpreter import Interpreter
from ckl.errors import CklRuntimeError, CklSyntaxError
src = sys.stdin.read()
legacy = %(legacy)r
real_stdout = sys.stdout
sys.stdout = io.TextIOWrapper(io.BytesIO(), encoding="utf-8")
try:
    it = Interpreter(secure=False, legacy=legacy)
    try:
        v = it.interpret(src, "repro.ckl")
        try:
            text = repr(v)
        except Exception as e:
            text = "<value of kind " + v.type() + ">"
        res = ["VALUE", text[:80]]
    except CklRuntimeError as e:
        res = ["RT", str(e.msg)[:80]]
    except CklSyntaxError as e:
        res = ["SYN", str(e)[:80]]
    except BaseException as e:
        res = ["HOST", type(e).__name__ + ": " + str(e)[:80]]
finally:
    sys.stdout = real_stdout
print(json.dumps(res))
"""


def run_program(source, legacy, cwd):
    code = WORKER % {"src": SRC, "cwd": cwd, "legacy": legacy}
    try:
        p = subprocess.run(
            [sys.executable, "-c", code],
            input=source.encode("utf-8", "surrogatepass"),
            capture_output=True,
            timeout=PROBE_TIMEOUT,
        )
    except subprocess.TimeoutExpired:
        return ["HANG", f"no result after {PROBE_TIMEOUT} s"]
    out = p.stdout.decode("utf-8", "replace").strip().splitlines()
    if not out:
        return ["HOST", "worker died: "
                + p.stderr.decode("utf-8", "replace")[-120:]]
    try:
        return json.loads(out[-1])
    except ValueError:
        return ["HOST", "unreadable worker output " + out[-1][:80]]


def main():
    verbose = "-v" in sys.argv[1:]
    cwd = tempfile.mkdtemp(prefix="c13_repro_")
    jobs = []
    for number, description, programs in FINDINGS:
        for source, legacy in programs:
            jobs.append((number, source, legacy))
    with ThreadPoolExecutor(max_workers=6) as pool:
        results = list(pool.map(
            lambda j: run_program(j[1], j[2], cwd), jobs))
    by_number = {}
    for job, result in zip(jobs, results):
        by_number.setdefault(job[0], []).append((job, result))
    for number, description, programs in FINDINGS:
        entries = by_number[number]
        bad = [r for _, r in entries if r[0] in ("HOST", "HANG", "SYN")]
        verdict = "VIOLATES" if bad else "HOLDS"
        print(f"FINDING {number}: {verdict} {description}")
        if verbose:
            for (num, source, legacy), result in entries:
                mark = "!!" if result[0] in ("HOST", "HANG", "SYN") else "ok"
                print(f"    {mark} [{'legacy' if legacy else 'non-legacy'}] "
                      f"{source[:90]} -> {result}")
    try:
        os.rmdir(cwd)
    except OSError:
        pass


if __name__ == "__main__":
    main()
