#!/usr/bin/env python
"""Reproductions for the third C19 hunt.

Run with:
  cd /tmp/seed5/C19 && PYTHONPATH=/tmp/seed5/C19/src /venv/bin/python hunt/repro.py

Prints one line per finding: FINDING <n>: <VIOLATES|HOLDS> <description>
VIOLATES means that the behaviour described in FINDINGS.md reproduces.
Both findings are classified "doubtful" in FINDINGS.md; no clear violation was found.
"""
import os
import signal
import sys

SRC = os.path.join(os.path.dirname(os.path.abspath(__file__)), "..", "src")
sys.path.insert(0, SRC)

from ckl.interpreter import Interpreter  # noqa: E402
from ckl.errors import CklRuntimeError, CklSyntaxError  # noqa: E402


class Timeout(Exception):
    pass


def _on_alarm(signum, frame):
    raise Timeout()


signal.signal(signal.SIGALRM, _on_alarm)


def ev(src, legacy=True, it=None):
    signal.alarm(10)
    try:
        if it is None:
            it = Interpreter(secure=False, legacy=legacy)
        return str(it.interpret(src, "repro.ckl"))
    except CklRuntimeError as e:
        return "RTERR: " + str(e.msg)
    except CklSyntaxError as e:
        return "SYNERR: " + str(e.msg)
    except Timeout:
        return "TIMEOUT"
    except Exception as e:  # noqa
        return "PYEXC: %r" % (e,)
    finally:
        signal.alarm(0)


def report(n, violates, text):
    print("FINDING %d: %s %s" % (n, "VIOLATES" if violates else "HOLDS", text))


def fib(n):
    a, b = 0, 1
    for _ in range(n):
        a, b = b, a + b
    return a


# 1 gcd / lcm are written recursively: for the worst-case arguments below 2^80 (consecutive
#   Fibonacci numbers, 115 levels) they need most of the host stack; the same call that works
#   at top level fails inside a user recursion of depth 100
a, b = fib(116), fib(115)            # 80 and 79 bits, both < 2^80, gcd = 1
assert a < 2 ** 80
prog = "def f(d, x, y) if d == 0 then %s(x, y) else f(d - 1, x, y); f(%d, %d, %d)"
g0 = ev(prog % ("gcd", 0, a, b))
g100 = ev(prog % ("gcd", 100, a, b))
l100 = ev(prog % ("lcm", 100, a, b))
s100 = ev(prog % ("add", 100, a, b))     # any non-recursive function is fine at this depth
report(1, g0 == "1" and (g100 != "1" or l100 != str(a * b)) and s100 == str(a + b),
       "gcd(F116, F115) at top level = %s; inside a user recursion of depth 100: gcd = %s, lcm = %s (add = %s)"
       % (g0, g100, l100[:45], "ok" if s100 == str(a + b) else s100))

# 2 legacy mode: the documented keyword form of List->reverse, reverse(obj = ...), is not accepted,
#   because String->reverse(str) hides it (neighbour of the repaired "reverse([1, 2, 3]) is NULL")
r_leg = ev("reverse(obj = [1, 2, 3])", legacy=True)
r_non = ev("require List; List->reverse(obj = [1, 2, 3])", legacy=False)
report(2, r_leg != "[3, 2, 1]" and r_non == "[3, 2, 1]",
       "reverse(obj = [1, 2, 3]): legacy %s, non-legacy List->reverse %s" % (r_leg, r_non))
