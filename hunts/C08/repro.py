"""Reproductions for the C08 hunt (rendering is canonical / data literals
round-trip).  Run with:

  cd /tmp/seed3/C08 && PYTHONPATH=/tmp/seed3/C08/src /venv/bin/python hunt/repro.py

Prints one line per finding: FINDING <n>: <VIOLATES|HOLDS> <description>
"""
import os
import signal
import sys

sys.path.insert(
    0, os.path.join(os.path.dirname(os.path.abspath(__file__)), "..", "src")
)

from ckl.interpreter import Interpreter  # noqa: E402


class Timeout(Exception):
    pass


def _alarm(*_):
    raise Timeout()


signal.signal(signal.SIGALRM, _alarm)


def new_interp():
    return Interpreter(secure=False, legacy=True)


def roundtrips(it, src):
    """Evaluate src, render the value, evaluate the rendered text and check
    that the result is equal, of the same type and renders identically.
    Returns (ok, detail)."""
    v = it.interpret(src, "orig.ckl")
    try:
        text = str(v)
    except Exception as e:  # rendering itself failed
        return False, f"rendering raised {type(e).__name__}"
    try:
        w = it.interpret(text, "rendered.ckl")
    except Exception as e:
        return False, (
            f"text {text[:40]!r} does not evaluate ({type(e).__name__})"
        )
    try:
        text2 = str(w)
    except Exception as e:
        return False, f"re-rendering raised {type(e).__name__}"
    if type(w) is not type(v):
        return False, f"text {text[:40]!r} evaluates to a {w.type()}"
    if not (w == v):
        return False, f"text {text[:40]!r} evaluates to unequal {text2[:40]!r}"
    if text2 != text:
        return False, f"text {text[:40]!r} re-renders as {text2[:40]!r}"
    return True, f"{text[:40]!r} round-trips"


def finding1():
    # NULL used as a map key
    it = new_interp()
    bad = []
    for src in [
        "def m = <<<>>>; m[NULL] = 1; m",
        "def m2 = <<<'a' => 1>>>; m2[NULL] = 2; [m2]",
    ]:
        ok, detail = roundtrips(it, src)
        if not ok:
            bad.append(detail)
    return bad


def finding2():
    # patterns: empty, leading/trailing slash, embedded double slash
    it = new_interp()
    bad = []
    for src in [
        "pattern('')",
        "pattern('/a')",
        "pattern('a/')",
        "pattern('a//b')",
        "[pattern('/a')]",
        "<<<pattern('a//b') => 1>>>",
    ]:
        ok, detail = roundtrips(it, src)
        if not ok:
            bad.append(f"{src}: {detail}")
    return bad


def finding3():
    # decimals that carry an exact integer larger than 2**53
    it = new_interp()
    bad = []
    for src in [
        "decimal(9007199254740993)",
        "[decimal(12345678901234567890)]",
        "round(12345678901234567891, 2)",
        "decimal(12345678901234567890) * 1",
        "decimal(pow(10, 400))",
    ]:
        ok, detail = roundtrips(it, src)
        if not ok:
            bad.append(f"{src}: {detail}")
    return bad


def finding4():
    # equal sets/maps, different construction order, different text
    it = new_interp()
    bad = []
    for a, b in [
        ("<<1, 1.0>>", "<<1.0, 1>>"),
        ("<<0.0, -0.0>>", "<<-0.0, 0.0>>"),
        ("<<[1], [1.0]>>", "<<[1.0], [1]>>"),
        ("def m = <<<>>>; m[1] = 'b'; m[1.0] = 'b'; m",
         "def k = <<<>>>; k[1.0] = 'b'; k[1] = 'b'; k"),
        ("set([2, 2.0])", "set([2.0, 2])"),
    ]:
        va = it.interpret(a, "a.ckl")
        vb = it.interpret(b, "b.ckl")
        it.environment.put("va", va)
        it.environment.put("vb", vb)
        equal = it.interpret("va == vb", "eq.ckl")
        if equal.value and str(va) != str(vb):
            bad.append(f"{a} / {b}: == is TRUE but render {va} / {vb}")
    return bad


def finding5():
    # non-finite decimals
    it = new_interp()
    bad = []
    for src in [
        "1" + "0" * 309 + ".0",                # a plain decimal literal
        "[pow(10.0, 308) * 10.0]",
        "[decimal('nan')]",
        "parse_json('[1E400]')",
    ]:
        ok, detail = roundtrips(it, src)
        if not ok:
            bad.append(f"{src[:30]}: {detail}")
    # as a map key the text silently becomes a string key
    v = it.interpret("def m = <<<>>>; m[pow(10.0, 308) * 10.0] = 1; m", "m")
    w = it.interpret(str(v), "m2")
    if not (w == v):
        bad.append(f"map {v} evaluates to {w}")
    # a set holding nan is not rendered in a canonical order: the very same
    # source text evaluated repeatedly gives different texts (nan compares
    # false with everything, its hash is per object)
    texts = set()
    keep = []
    for i in range(200):
        v = it.interpret("<<decimal('nan'), 1, 2, 3, 9, 17, 0.5>>", "p")
        keep.append(v)
        texts.add(str(v))
    if len(texts) > 1:
        bad.append(
            "one source text, several renderings: "
            + " / ".join(sorted(texts)[:3])
        )
    return bad


def finding6():
    # ints of more than 4300 digits
    it = new_interp()
    bad = []
    for src in [
        "string(pow(10, 4300))",
        "do string([pow(10, 4300)]); catch e 'caught'; end",
    ]:
        try:
            it.interpret(src, "big.ckl")
        except Exception as e:
            if type(e).__name__ not in ("CklRuntimeError", "CklSyntaxError"):
                bad.append(f"{src}: raw {type(e).__name__}")
    v = it.interpret("pow(10, 4300)", "big2.ckl")
    try:
        str(v)
    except ValueError:
        bad.append("str() of the int value raises ValueError")
    return bad


FINDINGS = [
    (1, finding1, "NULL as a map key renders as NULL and is read back as "
                  "the string key 'NULL'"),
    (2, finding2, "patterns that are empty, start/end with '/', or contain "
                  "'//' render to text that does not evaluate back"),
    (3, finding3, "decimals carrying an integer above 2**53 (decimal(int), "
                  "round/floor/ceiling) render digits the text cannot give "
                  "back"),
    (4, finding4, "equal sets/maps built in different order render "
                  "differently when elements are equal across int/decimal "
                  "or 0.0/-0.0"),
    (5, finding5, "inf/-inf/nan render as bare identifiers (doubtful: "
                  "non-finite decimals)"),
    (6, finding6, "ints above 4300 digits cannot be rendered: raw Python "
                  "ValueError (doubtful: host limit)"),
]


def main():
    for n, fn, desc in FINDINGS:
        signal.alarm(15)
        try:
            bad = fn()
            verdict = "VIOLATES" if bad else "HOLDS"
            extra = f" [{len(bad)} case(s); e.g. {bad[0][:160]}]" if bad else ""
        except Timeout:
            verdict, extra = "VIOLATES", " [probe timed out]"
        except Exception as e:
            verdict = "HOLDS"
            extra = f" [probe error {type(e).__name__}: {str(e)[:120]}]"
        finally:
            signal.alarm(0)
        print(f"FINDING {n}: {verdict} {desc}{extra}")


if __name__ == "__main__":
    main()
