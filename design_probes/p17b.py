import datetime, collections
from ckl.date import to_oa_date, to_date
bad = collections.Counter(); ex = {}
def chk(d):
    try:
        oa = to_oa_date(d)
        exp = (d - datetime.datetime(1899,12,30)).days
        if oa != exp: bad["oa_mismatch"] += 1; ex.setdefault("oa_mismatch", (d, oa, exp))
        try:
            back = to_date(oa)
            if back != d: bad["rt_mismatch"] += 1; ex.setdefault("rt_mismatch", (d, oa, back))
        except Exception as e:
            k = "to_date:" + type(e).__name__ + (":pre1970" if d.year < 1970 else ":jan1" if (d.month, d.day) == (1,1) else ":other")
            bad[k] += 1; ex.setdefault(k, (d, oa, str(e)))
    except Exception as e:
        k = "to_oa:" + type(e).__name__; bad[k] += 1; ex.setdefault(k, (d, str(e)))
n=0
for y in list(range(1900, 2105)) + [2399,2400,2401, 9998, 9999]:
    d = datetime.datetime(y,1,1)
    while d.year == y:
        chk(d); n+=1
        d += datetime.timedelta(days=1)
        if d.year == 9999 and d.month == 12 and d.day == 31: chk(d); break
print(n, bad)
for k, v in ex.items(): print(k, v)
# time of day
d = datetime.datetime(2020,3,4,13,45,59)
print(to_oa_date(d), to_date(to_oa_date(d)))
d = datetime.datetime(2020,3,4,23,59,59)
print(to_oa_date(d), to_date(to_oa_date(d)))
import random
r = random.Random(1); miss=0
for i in range(20000):
    d = datetime.datetime(r.randint(1971,2100), r.randint(1,12), r.randint(2,28), r.randint(0,23), r.randint(0,59), r.randint(0,59))
    b = to_date(to_oa_date(d))
    if b.replace(microsecond=0) != d: miss+=1; e=(d,b)
print("tod miss", miss, e if miss else None)
