"""C05  Errors reach the nearest matching handler and finally runs exactly once."""
from vf.core import Finding
from vf.gen.chooser import TapeChooser, tapes
from vf.gen import render as R
from vf.gen import programs as G
from vf.model import eval as ME
from vf.checks.c02 import same_value
from vf.checks.c04 import outcome_of, judge, kills

PROPERTY = "C05"
RULE = (
    "Hypothesis-generated nests (depth <= 4) of do / catch v / catch all / "
    "finally blocks at top level, inside functions and inside loops. At a "
    "random statement position of every block one of: `error v` with v of "
    "every data kind (NULL, booleans, 1 and 1.0, strings incl. 'ERROR', "
    "lists, sets in both orders, maps), a call of a function that raises, an "
    "undefined name, 1 / 0, a call of a non-function, an index out of range, "
    "an exit statement or a nested block; handlers log, yield a value, raise "
    "again or exit; finally parts log or raise. Every statement logs a unique "
    "tag. Each scenario is run twice: plain (the escaping error value is "
    "compared) and wrapped in an outer catch-all that returns the event log. "
    "Oracle: the reference evaluator. Non-trivial = an error crosses a block "
    "boundary or a finally is left by return/break/continue, AND the outcome "
    "differs under a mutant model (first clause regardless of value, finally "
    "skipped on control exits / run twice, statements after the failing one "
    "still run, unmatched error swallowed)."
)
ASSUMPTIONS = [
    "return/break/continue inside a finally part are judged only while an "
    "error is leaving the block (the statement says the error continues "
    "outward unchanged); on the other paths their effect is unspecified and "
    "the program is discarded; catch values are literals or plain variables; "
    "messages are not compared",
    "programs on which the reference evaluator meets something the statement "
    "leaves open are discarded and counted",
]
MUTANTS = ["catch-first-clause", "finally-skipped-on-exit", "finally-twice",
           "continue-after-error", "swallow-unmatched",
           "finally-exit-swallows-error"]


# ---- carriers: whatever sits between the raise and the handler must hand
# the error on unchanged

ERR_LITS = ["7", "'x'", "2.5", "TRUE", "[1, 'a']", "<<1>>", "<<<1 => 2>>>",
            "date('20200101')", "'ERROR'", "0"]
HUGE = "pow(10, 5000)"      # too long to be rendered by the host
CARRIERS = [
    ("direct", "error V"),
    ("call", "def f(x) error V; f(1)"),
    ("call-arg-object-with-_str_",
     "def o = <*_str_ = fn(self) 'o'*>; def f(x) error V; f(o)"),
    ("call-arg-object-with-bad-_str_",
     "def o = <*_str_ = 1, _proto_ = 2*>; def f(x) error V; f(o)"),
    ("call-arg-huge-int", f"def f(x) error V; f({HUGE})"),
    ("call-arg-self-containing-list",
     "def l = [1]; append(l, l); def f(x) error V; f(l)"),
    ("call-arg-stream", "def f(x) error V; f(str_input('a'))"),
    ("nested-calls", "def f(x) error V; def g(y) f(y); def h(z) g(z); h(1)"),
    ("for-input", "for l in str_input('a\\nb') do error V end"),
    ("for-list", "for x in [1, 2] do error V end"),
    ("for-set", "for x in <<1, 2>> do error V end"),
    ("for-map", "for x in entries <<<1 => 2>>> do error V end"),
    ("for-object", "for x in <*a = 1*> do error V end"),
    ("for-string", "for c in 'ab' do error V end"),
    ("while", "while TRUE do error V end"),
    ("eval-text", "def v_ = V; eval('error v_')"),
    ("eval-node", "def v_ = V; eval(parse('error v_'))"),
    ("s-placeholder", "def v_ = V; s('a {error v_} b')"),
    ("sorted-cmp", "sorted([2, 1], cmp = fn(a, b) error V)"),
    ("sorted-key", "sorted([2, 1], key = fn(a) error V)"),
    ("find-key", "find([1], 1, key = fn(x) error V)"),
    ("map_list", "map_list([1], fn(x) error V)"),
    ("filter", "filter([1], fn(x) error V)"),
    ("reduce", "reduce([1, 2], fn(a, b) error V)"),
    ("for_each", "for_each([1], fn(x) error V)"),
    ("process_lines", "process_lines(['a'], fn(x) error V)"),
    ("process_lines-input", "process_lines(str_input('a'), fn(x) error V)"),
    ("apply", "apply(fn(x) error V, [1])"),
    ("list-comprehension", "[error V for x in [1]]"),
    ("set-comprehension", "<<error V for x in [1]>>"),
    ("map-comprehension", "<<<x => error V for x in [1]>>>"),
    ("comprehension-filter", "[x for x in [1] if error V]"),
    ("method", "<*m = fn(self) error V*>->m()"),
    ("inherited-method",
     "def p = <*m = fn(self) error V*>; <*_proto_ = p*>->m()"),
    ("pipeline", "1 !> (fn(x) error V)()"),
    ("argument", "length(error V)"), ("list-item", "[1, error V]"),
    ("operand", "1 + error V"), ("condition", "if error V then 1"),
    ("index", "[1][error V]"), ("default-value", "(fn(a = error V) a)()"),
    ("finally-after", "do error V finally 1 end"),
    ("inner-handler-of-another-value",
     "do error V catch 'never-raised-value' 1 end"),
    ("rethrown", "do error 'other-value' catch all error V end"),
    ("deep-recursion-then-error",
     "def f(n) if n == 0 then error V else f(n - 1); f(60)"),
]


# runtime errors (value 'ERROR') raised in positions that are not calls
RUNTIME_CARRIERS = [
    ("runtime:index", "[1][5]"), ("runtime:map-key", "<<<1 => 2>>>[3]"),
    ("runtime:undefined-name", "undefined_zz_q"),
    ("runtime:non-boolean-condition", "if 1 then 2"),
    ("runtime:non-boolean-and", "1 and TRUE"),
    ("runtime:member-of-int", "def five = 5; five->a"),
    ("runtime:iterate-int", "for x in 5 do x end"),
    ("runtime:comprehension-over-int", "[x for x in 5]"),
    ("runtime:destructure-int", "def [a, b] = 5"),
    ("runtime:spread-int", "def q = 5; [...q]"),
    ("runtime:assign-undefined", "undefined_zz_q = 1"),
    ("runtime:stack-exhausted-in-set-literal",
     "def c = []; append(c, c); <<c>>"),
    ("runtime:stack-exhausted-in-map-literal",
     "def c = []; append(c, c); <<<identity(c) => 1>>>"),
    ("runtime:stack-exhausted-in-membership",
     "def c = []; append(c, c); c in <<1>>"),
    ("runtime:stack-exhausted-in-comprehension",
     "def c = []; append(c, c); <<x for x in [c]>>"),
    ("runtime:stack-exhausted-in-index-assignment",
     "def c = []; append(c, c); def m = <<<>>>; m[c] = 1"),
    ("runtime:stack-exhausted-in-map-lookup",
     "def c = []; append(c, c); <<<1 => 2>>>[c]"),
    ("runtime:endless-recursion", "def f(n) f(n + 1); f(0)"),
    ("runtime:stack-exhausted-inside-function",
     "def c = []; append(c, c); def g() <<c>>; g()"),
]


def carrier_prop(name, carrier, lit):
    from vf import cklrun
    from vf.model import values as mv
    body = carrier.replace("V", lit)
    other = "'x'" if lit != "'x'" else "7"
    src = (f"def t1 = do {body} catch {lit} 'caught' end; "
           f"def t2 = do {body} catch {other} 'wrong' catch all 'all' end; "
           f"def t3 = do do {body} catch {other} 'wrong' end catch {lit} "
           f"'outer' end; [t1, t2, t3]")
    out = cklrun.run(src, budget=20)
    if out[0] != "value":
        return Finding(f"C05|carrier|{name}|{out[0]}",
                       f"{src} -> {cklrun.short(out)}")
    got = cklrun.to_model(out[1])
    if got != ["caught", "all", "outer"]:
        return Finding(f"C05|carrier|{name}",
                       f"{src} -> {got!r}, expected "
                       f"['caught', 'all', 'outer']")
    # uncaught: it leaves the interpreter carrying that value
    out = cklrun.run(body, budget=20)
    direct = cklrun.run(f"error {lit}", budget=20)
    if out[0] != "error" or direct[0] != "error":
        return Finding(f"C05|carrier|{name}|uncaught-{out[0]}",
                       f"{body} -> {cklrun.short(out)}")
    a, b = cklrun.to_model(out[1]), cklrun.to_model(direct[1])
    if not (mv.meq(a, b) and mv.deep_type(a) == mv.deep_type(b)):
        return Finding(f"C05|carrier|{name}|uncaught-value",
                       f"{body} left the interpreter with {a!r}, `error "
                       f"{lit}` leaves it with {b!r}")
    return None


def part_carriers(part):
    for name, carrier in CARRIERS:
        for lit in ERR_LITS:
            part.count()
            part.distinct()
            part.cls("carrier:" + name, carrier if lit == "7" else None)
            part.collect(carrier_prop(name, carrier, lit),
                         {"kind": "carrier", "name": name, "lit": lit})
    for name, carrier in RUNTIME_CARRIERS:
        part.count()
        part.distinct()
        part.cls("carrier:" + name.split(":")[0], carrier)
        part.collect(carrier_prop(name, carrier, "'ERROR'"),
                     {"kind": "carrier", "name": name, "lit": "'ERROR'"})
    part.exhaustive = True


def prop(case):
    if case.get("kind") == "carrier":
        carrier = dict(CARRIERS + RUNTIME_CARRIERS)[case["name"]]
        return carrier_prop(case["name"], carrier, case["lit"])
    import ast as _ast
    stmts = _ast.literal_eval(case["ast"])
    m = ME.model_run(stmts)
    if m[0] in ("unspecified", "budget"):
        return None
    src = R.source(stmts)
    return judge(PROPERTY, src, m, outcome_of(src), case.get("label",
                                                            "program"))


def part_programs(part, n):
    def body(tape):
        ch = TapeChooser(tape)
        g = G.ErrGen(ch)
        pre, sc = g.program(False)
        first = None
        for wrapped in (False, True):
            stmts = G.wrap_scenario(pre, sc, wrapped)
            m = ME.model_run(stmts)
            part.count()
            label = "wrapped" if wrapped else "plain"
            if m[0] in ("unspecified", "budget"):
                part.excluded["discarded:" + str(m[1:])[:50]] += 1
                part.cls("discarded:" + m[0])
                continue
            src = R.source(stmts)
            killed = kills(stmts, m, MUTANTS)
            for k in killed:
                part.cls("kills:" + k)
            feats = g.features
            if killed and (feats & {"nested-blocks", "raised-in-callee",
                                    "exit-inside-block", "handler-exits",
                                    "block-in-function", "block-in-loop"}):
                part.nontriv(src)
            part.cls(f"{label}:{m[0]}", src if len(src) < 400 else None)
            if not wrapped:
                for f in sorted(feats):
                    part.cls("feature:" + f)
            f = judge(PROPERTY, src, m, outcome_of(src), label)
            f = part.judge(f, None) if f is not None else None
            if f is not None and first is None:
                first = (f, {"kind": "program", "ast": repr(stmts),
                             "label": label})
        return first
    part.hyp(tapes(1500), body, n)


def parts(tier, seed):
    cr = [("carriers", part_carriers, {})]
    if tier == "quick":
        return cr + [(f"programs-{i}", part_programs, {"n": 1000})
                     for i in range(10)]
    return cr + [(f"programs-{i}", part_programs, {"n": 10000})
                 for i in range(12)]
