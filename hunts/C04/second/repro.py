"""Reproductions for the second C04 hunt (conditionals, loops, comprehensions,
exits).

Run:  cd /tmp/seed4/C04 && PYTHONPATH=/tmp/seed4/C04/src /venv/bin/python hunt/repro.py
Prints one line per finding: FINDING <n>: <VIOLATES|HOLDS> <description>
"""
import os
import signal
import sys

sys.path.insert(
    0, os.path.join(os.path.dirname(os.path.abspath(__file__)), "..", "src")
)

from ckl.interpreter import Interpreter  # noqa: E402
from ckl.errors import CklRuntimeError, CklSyntaxError  # noqa: E402


class Timeout(BaseException):
    pass


def _on_alarm(*_):
    raise Timeout("timeout")


signal.signal(signal.SIGALRM, _on_alarm)


def run(src, legacy=True):
    """Returns a string: 'OK <value>', 'RTE <msg>', 'SYN <msg>', 'PYEXC ...'"""
    signal.alarm(10)
    try:
        it = Interpreter(secure=False, legacy=legacy)
        return "OK " + str(it.interpret(src, "repro.ckl"))
    except CklRuntimeError as e:
        return "RTE " + str(e.msg)
    except CklSyntaxError as e:
        return "SYN " + str(e.msg)
    except Timeout:
        return "PYEXC timeout"
    except BaseException as e:  # noqa
        return "PYEXC " + type(e).__name__ + ": " + str(e)
    finally:
        signal.alarm(0)


def both(src):
    return [run(src, legacy=True), run(src, legacy=False)]


def report(n, violates, text):
    print(f"FINDING {n}: {'VIOLATES' if violates else 'HOLDS'} {text}")


# ---------------------------------------------------------------- finding 1
# numbers next to a date (or a node) as map keys / set elements: numbers are
# compared numerically with each other, but by their text with the date, which
# is not transitive (3 < 20, 20 < date, date < 3), so sorted() leaves the
# numbers in descending order
def finding1():
    pre = "def d = date('20240101'); "
    cmp_ = run(pre + "[3 < 20, 20 < d, d < 3]")
    progs = [
        # for statement over map keys
        pre + "def m = <<<>>>; m[20] = 'a'; m[d] = 'b'; m[3] = 'c'; "
        "def r = []; for k in keys m do append(r, k) end; r",
        # values follow the same key order
        pre + "def m = <<<>>>; m[20] = 'a'; m[d] = 'b'; m[3] = 'c'; "
        "def r = []; for v in values m do append(r, v) end; r",
        # comprehension, decimals
        pre + "def m = <<<>>>; m[20.5] = 1; m[d] = 2; m[3.5] = 3; "
        "[k for k in keys m]",
        # a node instead of a date
        "def n = parse('25'); def m = <<<>>>; m[20] = 1; m[n] = 2; "
        "m[3] = 3; [k for k in keys m]",
    ]
    results = [r for p in progs for r in both(p)]
    expected_bad = {
        "OK [20, 20240101000000, 3]", "OK ['a', 'b', 'c']",
        "OK [20.5, 20240101000000, 3.5]", "OK [20, 25, 3]",
    }
    bad = [r for r in results if r in expected_bad]
    # sets: the position of the date in the hash table differs from run to
    # run, so only count how many of a few sets come out with the ints
    # descending
    setbad = 0
    for a, b in [(20, 3), (16, 5), (104, 9), (1000, 7), (24, 3), (18, 4)]:
        r = run(pre + f"[x for x in <<{a}, d, {b}>> if is_int(x)]")
        if r == f"OK [{a}, {b}]":
            setbad += 1
    report(
        1,
        len(bad) > 0,
        "numbers beside a date/node key are visited in DEscending order "
        f"(language says [3<20, 20<d, d<3] = {cmp_[3:]}; keys of "
        f"m[20], m[d], m[3]: {results[0]}; values: {results[2]}; "
        f"{len(bad)}/{len(results)} map probes wrong, "
        f"{setbad}/6 sets wrong in this process)",
    )


# ---------------------------------------------------------------- finding 2
def finding2():
    a = both("def r = []; if TRUE then append(r, 1) if TRUE then "
             "append(r, 2); r")
    b = both("def r = []; if TRUE then append(r, 1)\nif TRUE then "
             "append(r, 2)\nelse append(r, 3); r")
    control = run("def r = []; if TRUE then append(r, 1); if TRUE then "
                  "append(r, 2); r")
    report(
        2,
        a[0] == "OK [1]" or b[0] == "OK [1]",
        "[doubtful] a second `if` that follows an if-expression without `;` "
        "is silently taken as `elif`: its condition and branch are skipped "
        f"({a[0]} / {b[0]}; with `;` between them: {control})",
    )


# ---------------------------------------------------------------- finding 3
def finding3():
    progs = [
        "def f(x) do if x then return else 5 end; [f(TRUE), f(FALSE)]",
        "def f(x) do if x then return elif TRUE then 5 end; "
        "[f(TRUE), f(FALSE)]",
        "def f(x) do if x then (return); 5 end; [f(TRUE), f(FALSE)]",
        "(fn() return)()",
        "def o = <*m(self) return*>; o->m()",
    ]
    results = [r for p in progs for r in both(p)]
    bad = [r for r in results if not r.startswith("OK")]
    control = run("def f(x) do if x then do return end else 5 end; "
                  "[f(TRUE), f(FALSE)]")
    report(
        3,
        len(bad) > 0,
        "[doubtful] a value-less `return` directly before else / elif / ) "
        f"/ *> is a syntax error ({len(bad)}/{len(results)}: "
        f"{bad[0] if bad else '-'}); wrapped in do..end: {control}",
    )


# ---------------------------------------------------------------- finding 4
def finding4():
    a = both("def r = []; for [a, b] in 'xyz' do append(r, a) end; r")
    b = both("def r = []; for [a, b] in 'xyz' do append(r, b) end; r")
    c = run("def r = []; for [a, b] in ['xy'] do append(r, b) end; r")
    report(
        4,
        a[0] == "OK ['x', 'y', 'z']" and b[0].startswith("RTE"),
        "[doubtful] `for [a, b] in 'xyz'` is accepted, binds only the first "
        f"name and leaves the second unbound (a: {a[0]}; b: {b[0]}); a "
        f"string element of a list is rejected instead: {c}",
    )


for f in (finding1, finding2, finding3, finding4):
    try:
        f()
    except BaseException as e:  # noqa
        print(f"FINDING {f.__name__[-1]}: HOLDS (probe crashed: "
              f"{type(e).__name__}: {e})")
