"""Third C01 hunt (parsing is total) - no violation was found.

Run:  cd /tmp/seed5/C01 && PYTHONPATH=/tmp/seed5/C01/src /venv/bin/python hunt/repro.py

There is no finding to reproduce, so no `FINDING <n>: ...` line is printed.
The script re-checks the items of the second report that were repaired
(`RECHECK` lines), runs a small sample of the sweeps of this hunt as a smoke
test (`SWEEP` lines) and ends with the line `NO FINDINGS`.
Only the ckl package and the standard library are used; run time is well
below two minutes.
"""
import itertools
import os
import signal
import sys
import time

HERE = os.path.dirname(os.path.abspath(__file__))
sys.path.insert(0, os.path.join(os.path.dirname(HERE), "src"))

from ckl.errors import CklSyntaxError  # noqa: E402
from ckl.lexer import SourcePos  # noqa: E402
from ckl.parser import parse_script  # noqa: E402


class Hang(Exception):
    pass


def _alarm(*_):
    raise Hang()


signal.signal(signal.SIGALRM, _alarm)


def outcome(src, seconds=10):
    """'program' | 'syntax' | 'host:<Type>' | 'hang' | ..."""
    signal.alarm(seconds)
    try:
        try:
            node = parse_script(src, "t.ckl")
            if node is None or not hasattr(node, "evaluate"):
                return "not-a-program"
            return "program"
        except CklSyntaxError as e:
            ok = (
                isinstance(e.msg, str) and e.msg
                and isinstance(e.pos, SourcePos)
                and e.pos.filename == "t.ckl"
                and e.pos.line >= 1 and e.pos.column >= 1
            )
            return "syntax" if ok else "syntax-without-msg-or-pos"
        except Hang:
            return "hang"
        except BaseException as e:  # noqa
            return "host:" + type(e).__name__
    finally:
        signal.alarm(0)


bad = 0

# --- repaired items of the second report -------------------------------
rechecks = [
    ("nested compound assignment in a target list, depth 40",
     "[" + "a[" * 39 + "0" + "] += 1" * 39 + "] = 1", "syntax"),
    ("nested ->b += 1 in a target list, depth 40",
     "[" + "(" * 39 + "a" + "->b += 1)" * 39 + "] = 1", "syntax"),
    ("nested exact_len in a target list, depth 40",
     "[" + "x is numerical exact_len (" * 39 + "1" + ")" * 39 + "] = 1",
     "syntax"),
    ("nested chained comparison in a target list, depth 40",
     "[" + "1 < (" * 39 + "1" + ") < 1" * 39 + "] = 1", "syntax"),
    ("400-term sum in a target list", "[1" + " + 1" * 400 + "] = 1", "syntax"),
    ("400 ->b in a target list", "[a" + "->b" * 400 + "] = 1", "syntax"),
    ("400 calls in a target list", "[f" + "()" * 400 + "] = 1", "syntax"),
    ("400 [0] in a target list", "[a" + "[0]" * 400 + "] = 1", "syntax"),
    ("400 !> f() in a target list", "[1" + " !> f()" * 400 + "] = 1",
     "syntax"),
    ("20000-term sum in a target list", "[1" + " + 1" * 20000 + "] = 1",
     "syntax"),
    # first report
    ("4301-digit int literal", "9" * 4301, "program"),
    ("for-loop in a target list", "[(for a in b c)] = 1", "syntax"),
    ("bare return;", "return;", "program"),
    ("(return)", "(return)", "program"),
]
for text, src, want in rechecks:
    t = time.time()
    got = outcome(src)
    ok = got == want
    bad += not ok
    print(f"RECHECK {'HOLDS' if ok else 'STILL FAILS'} {text}: {got} "
          f"({time.time() - t:.2f}s)")

# --- a sample of the sweeps of this hunt -------------------------------
TOKENS = [
    "a", "1", "'s'", "(", ")", "[", "]", ",", ";", "=", "+=", "-", "->",
    "!>", "=>", "<<", ">>", "<<<", ">>>", "<*", "*>", "...", "if", "then",
    "else", "do", "end", "catch", "finally", "def", "fn", "for", "in",
    "while", "return", "error", "require", "as", "is", "not", "all",
    "class", "to", "import", "//x//", "1.5", "a...", "NULL",
]
n = 0
odd = {}
for L in (1, 2, 3):
    for seq in itertools.product(TOKENS, repeat=L):
        src = " ".join(seq)
        got = outcome(src, 5)
        n += 1
        if got not in ("program", "syntax"):
            odd.setdefault(got, src)
bad += len(odd)
print(f"SWEEP all {n} token sequences of length <= 3 over {len(TOKENS)} "
      f"tokens: {'only program / syntax error' if not odd else odd}")

CHARS = "01xba_.'\"\\/<>=!*-#([\n "
n = 0
odd = {}
for L in (1, 2, 3, 4):
    for seq in itertools.product(CHARS, repeat=L):
        src = "".join(seq)
        got = outcome(src, 5)
        n += 1
        if got not in ("program", "syntax"):
            odd.setdefault(got, src)
bad += len(odd)
print(f"SWEEP all {n} character strings of length <= 4 over {len(CHARS)} "
      f"characters: {'only program / syntax error' if not odd else odd}")

print("NO FINDINGS" if not bad else f"UNEXPECTED: {bad} probe(s) failed")
