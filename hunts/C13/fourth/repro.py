#!/usr/bin/env python
"""Reproductions for the fourth C13 hunt ("only language-level errors escape
evaluation").  Run with

    cd /tmp/seed6/C13 && PYTHONPATH=/tmp/seed6/C13/src /venv/bin/python hunt/repro.py [-v]

Every program is evaluated in a child process (so that a hang can be killed);
one line per finding is printed:

    FINDING <n>: <VIOLATES|HOLDS> <short description>

All three findings are classified "doubtful" in FINDINGS.md; VIOLATES means
that the behaviour described there is observed (exponential growth measured on
small depths and no result within PROBE_TIMEOUT seconds on the full-size input).
Only the ckl package and the standard library are used.  Whole run: < 60 s.
"""
import json
import os
import shutil
import subprocess
import sys
import tempfile

PROBE_TIMEOUT = 6          # seconds per single program
HERE = os.path.dirname(os.path.abspath(__file__))
SRC = os.path.join(os.path.dirname(HERE), "src")
VERBOSE = "-v" in sys.argv[1:]

WORKER = r'''
import sys, json
sys.path.insert(0, %(src)r)
from ckl.interpreter import Interpreter
from ckl.errors import CklRuntimeError, CklSyntaxError
from ckl.values import Value
source = %(source)r
legacy = %(legacy)r
try:
    it = Interpreter(secure=False, legacy=legacy)
    v = it.interpret(source, "repro.ckl")
    try:
        text = str(v)[:300]
    except Exception as e:
        text = "<unrenderable " + type(e).__name__ + ">"
    out = ["VALUE", text]
except CklRuntimeError as e:
    out = ["RTERR" if isinstance(e.value, Value) else "NOVALUE", "runtime error"]
except CklSyntaxError as e:
    out = ["SYNTAX", str(e.msg)[:200]]
except BaseException as e:
    out = ["HOST", type(e).__name__ + ": " + str(e)[:200]]
sys.stderr.write("\n@@RESULT@@" + json.dumps(out) + "\n")
'''


def run_program(source, legacy=True, cwd=None):
    """-> (kind, text); kind in VALUE RTERR NOVALUE SYNTAX HOST HANG DIED"""
    code = WORKER % {"src": SRC, "source": source, "legacy": legacy}
    env = dict(os.environ)
    env.pop("PYTHONPATH", None)
    p = subprocess.Popen(
        [sys.executable, "-c", code], cwd=cwd, env=env,
        stdin=subprocess.DEVNULL, stdout=subprocess.DEVNULL,
        stderr=subprocess.PIPE)
    try:
        _, err = p.communicate(timeout=PROBE_TIMEOUT)
    except subprocess.TimeoutExpired:
        p.kill()
        p.communicate()
        return ("HANG", "no result after %d s" % PROBE_TIMEOUT)
    err = err.decode("utf-8", "replace")
    if "@@RESULT@@" not in err:
        return ("DIED", err[-200:])
    return tuple(json.loads(err.split("@@RESULT@@")[-1].strip()))


def show(label, source, result):
    if VERBOSE:
        text = source if len(source) < 160 else source[:157] + "..."
        print("    %-9s %s\n              -> %s" % (label, text, result))


def nest(template, core, depth):
    e = core
    for _ in range(depth):
        e = template % e
    return e


# ---------------------------------------------------------------------------

def finding1():
    """comparison chain / exact_len: the shared operand is evaluated twice,
    nested 2^depth times"""
    counter = "def n = 0; def f() do n += 1; 5 end; "
    ok = True
    # (a) one chain: the middle operand is evaluated twice
    src = counter + "1 < f() < 9; n"
    r = run_program(src)
    show("chain", src, r)
    ok &= r == ("VALUE", "2")
    # (b) nesting: 2^depth evaluations (depth 10 -> 1024), in both modes
    for legacy in (True, False):
        src = counter + nest("(0 < %s < 9)", "f()", 10) + "; n"
        r = run_program(src, legacy)
        show("depth 10", src, r)
        ok &= r == ("VALUE", "1024")
    # (c) a loop-free program of about 400 characters does not come back
    src = counter + nest("(0 < %s < 9)", "f()", 40) + "; n"
    r = run_program(src)
    show("depth 40 (%d characters)" % len(src), src, r)
    ok &= r[0] == "HANG"
    # (d) the same with != and `is not`
    src = counter + nest("(0 != %s is not 0)", "f()", 10) + "; n"
    r = run_program(src)
    show("== / is", src, r)
    ok &= r == ("VALUE", "1024")
    # (e) exact_len: one operand serves as min and as max
    counter1 = "def n = 0; def f() do n += 1; 1 end; "
    src = counter1 + "'1' is numerical exact_len f(); n"
    r = run_program(src)
    show("exact_len", src, r)
    ok &= r == ("VALUE", "2")
    src = counter1 + nest(
        "(if '1' is numerical exact_len %s then 1 else 1)", "f()", 10) + "; n"
    r = run_program(src)
    show("exact_len depth 10", src, r)
    ok &= r == ("VALUE", "1024")
    src = counter1 + nest(
        "(if '1' is numerical exact_len %s then 1 else 1)", "f()", 40) + "; n"
    r = run_program(src)
    show("exact_len depth 40", src, r)
    ok &= r[0] == "HANG"
    return ok


def finding2():
    """list_dir(recursive) over a directory with two symbolic links to itself"""
    d = tempfile.mkdtemp(prefix="c13_repro_", dir=HERE)
    try:
        ok = True
        one = os.path.join(d, "one")
        two = os.path.join(d, "two")
        # one link to the directory itself: comes back (the host gives up
        # after 40 links in one path)
        src = ("make_dir('%s'); execute('ln', ['-s', '.', '%s/l1']); "
               "length(list_dir('%s', recursive = TRUE))" % (one, one, one))
        r = run_program(src)
        show("one link", src, r)
        ok &= r[0] == "VALUE"
        # two links, both made by the program itself: 2^40 directories
        src = ("make_dir('%s'); execute('ln', ['-s', '.', '%s/l1']); "
               "execute('ln', ['-s', '.', '%s/l2']); "
               "length(list_dir('%s', recursive = TRUE))" % (two, two, two, two))
        r = run_program(src)
        show("two links", src, r)
        ok &= r[0] == "HANG"
        # non-legacy mode
        src = ("require OS; length(OS->list_dir('%s', recursive = TRUE))" % two)
        r = run_program(src, legacy=False)
        show("two links, non-legacy", src, r)
        ok &= r[0] == "HANG"
        return ok
    finally:
        shutil.rmtree(d, ignore_errors=True)


def finding3():
    """the text of a node that holds nested compound element assignments
    doubles with every level"""
    ok = True
    lengths = []
    for depth in (8, 9, 10):
        e = nest("(%s[0] += 1)", "a", depth)
        src = "length(string(parse('%s')))" % e
        r = run_program(src)
        show("depth %d" % depth, src, r)
        ok &= r[0] == "VALUE"
        lengths.append(int(r[1]) if r[0] == "VALUE" else 0)
    ok &= lengths[0] > 0 and lengths[1] > 1.9 * lengths[0] \
        and lengths[2] > 1.9 * lengths[1]
    # evaluation of the same tree is linear since 54e6a07 ...
    e = nest("(%s[0] += 1)", "a", 40)
    src = "def a = [0]; %s; a" % e
    r = run_program(src)
    show("evaluate depth 40", src, r)
    ok &= r == ("VALUE", "[40]")
    # ... but comparing two such nodes (or rendering one) does not come back
    src = "parse('%s') == parse('%s + 1')" % (e, e)
    r = run_program(src)
    show("compare depth 40", src, r)
    ok &= r[0] == "HANG"
    # body() of a function hands the same kind of node to the program
    src = "def g(a) %s; body(g) == body(g)" % e
    r = run_program(src)
    show("body(g) == body(g)", src, r)
    ok &= r[0] == "HANG"
    return ok


FINDINGS = [
    (1, finding1,
     "(doubtful) the middle operand of a comparison chain (a < X < c, also == != is) and the "
     "operand of `is numerical exact_len X` are evaluated twice; nested 40 deep a 400-character "
     "loop-free program does not return (2^40 evaluations)"),
    (2, finding2,
     "(doubtful) list_dir(d, recursive = TRUE) on a directory that holds two symbolic links to "
     "itself (made by the program with execute('ln', ...)) visits 2^40 directories"),
    (3, finding3,
     "(doubtful) the text of a syntax-tree node with nested `x[i] op= v` doubles per level: "
     "string(parse(...)), parse(a) == parse(b), body(g) == body(g) at depth 40 do not return"),
]

if __name__ == "__main__":
    for number, probe, description in FINDINGS:
        try:
            violates = probe()
        except Exception as e:      # a broken probe must not hide the others
            violates = False
            description += " [probe failed: %s: %s]" % (type(e).__name__, e)
        print("FINDING %d: %s %s" % (
            number, "VIOLATES" if violates else "HOLDS", description))
