#!/usr/bin/env python
"""Reproductions for the third C15 hunt.  Run with
   cd /tmp/seed5/C15 && PYTHONPATH=/tmp/seed5/C15/src /venv/bin/python hunt/repro.py
Prints one line per finding: FINDING <n>: <VIOLATES|HOLDS> <description>,
followed by RECHECK lines for the items of the second report that were repaired."""
import signal

from ckl.interpreter import Interpreter
from ckl.errors import CklRuntimeError, CklSyntaxError


class Timeout(Exception):
    pass


def _alarm(signum, frame):
    raise Timeout()


signal.signal(signal.SIGALRM, _alarm)


def run(src, legacy=True):
    signal.alarm(10)
    try:
        it = Interpreter(secure=False, legacy=legacy)
        return str(it.interpret(src, "repro.ckl"))
    except (CklRuntimeError, CklSyntaxError) as e:
        return "ERROR:" + str(e.msg)
    except Timeout:
        return "TIMEOUT"
    except BaseException as e:  # host-level crash
        return "PYEXC:" + type(e).__name__
    finally:
        signal.alarm(0)


def finding1():
    # substitute(seq, idx, v) with idx < -length(seq): the repair of
    # substitute(seq, -1, v) normalises a negative idx only once, so an idx
    # below -length is still negative when it reaches substr/sublist and
    # wraps around a second time.
    obs = [
        # idx == -(len+1): the whole sequence is appended again (2n elements)
        (run("substitute('abcd', -5, 'x')"), "'abcxabcd'"),
        (run("substitute([1, 2, 3, 4], -5, 'x')"), "[1, 2, 3, 'x', 1, 2, 3, 4]"),
        (run("require Core; Core->substitute('abcd', -5, 'x')", False), "'abcxabcd'"),
        # -2*len <= idx <= -(len+2): a valid position (2*len+idx) is replaced
        (run("substitute('abcd', -6, 'x')"), "'abxd'"),
        (run("substitute([1, 2, 3, 4], -6, 'x')"), "[1, 2, 'x', 4]"),
        (run("substitute('abcd', -8, 'x')"), "'xbcd'"),
    ]
    bad = [got for got, wrong in obs if got == wrong]
    # what a non-wrapping implementation may return for an index that is out
    # of range: an error, the unchanged sequence, or (mirroring idx >= len,
    # which appends) the value put in front
    return bool(bad), "substitute(seq, idx, v) with idx < -length(seq) wraps " \
        "around: -5 on 'abcd' -> %s, -6 -> %s, -8 -> %s" % (
            obs[0][0], obs[3][0], obs[5][0])


def recheck():
    out = []
    r = [run("def l = [1,2,3,4]; find(l, 9, key = fn(x) do delete_at(l, 0); x end)"),
         run("def l = [1,2,3,4,5,6]; find_last(l, 9, key = fn(x) do "
             "delete_at(l, 0); delete_at(l, 0); x end)"),
         run("require List; def l = [1,2,3,4]; List->find(l, 9, key = fn(x) "
             "do delete_at(l, 0); x end)", False)]
    out.append((all(x == "-1" for x in r),
                "second report #1: find/find_last with a key that shrinks the list -> %s" % r))
    r = [run("substitute('abcd', -1, 'x')"), run("substitute([1, 2, 3, 4], -1, 'x')"),
         run("require Core; Core->substitute('abcd', -1, 'x')", False)]
    out.append((r == ["'abcx'", "[1, 2, 3, 'x']", "'abcx'"],
                "second report #2: substitute(seq, -1, v) -> %s" % r))
    r = [run("last_n([1, 2, 3], 0)"), run("require List; List->last_n([1, 2, 3], 0)", False)]
    out.append((r == ["[]", "[]"], "first report #3: last_n(lst, 0) -> %s" % r))
    return out


if __name__ == "__main__":
    for n, f in enumerate((finding1,), 1):
        try:
            bad, desc = f()
        except Exception as e:
            bad, desc = True, "probe crashed: %r" % (e,)
        print("FINDING %d: %s %s" % (n, "VIOLATES" if bad else "HOLDS", desc))
    for ok, desc in recheck():
        print("RECHECK: %s %s" % ("HOLDS" if ok else "VIOLATES", desc))
