#!/usr/bin/env python
"""Reproductions for the second C19 hunt.

Run with:
  cd /tmp/seed4/C19 && PYTHONPATH=/tmp/seed4/C19/src /venv/bin/python hunt/repro.py

Prints one line per finding: FINDING <n>: <VIOLATES|HOLDS> <description>
VIOLATES means the behaviour described in FINDINGS.md reproduces.
All three findings are classified "doubtful" in FINDINGS.md.
"""
import os
import signal
import subprocess
import sys

SRC = os.path.join(os.path.dirname(os.path.abspath(__file__)), "..", "src")
sys.path.insert(0, SRC)

from ckl.interpreter import Interpreter  # noqa: E402
from ckl.errors import CklRuntimeError, CklSyntaxError  # noqa: E402


class Timeout(Exception):
    pass


def _on_alarm(signum, frame):
    raise Timeout()


signal.signal(signal.SIGALRM, _on_alarm)


def ev(src, legacy=True):
    signal.alarm(8)
    try:
        it = Interpreter(secure=False, legacy=legacy)
        return str(it.interpret(src, "repro.ckl"))
    except CklRuntimeError as e:
        return "RTERR: " + str(e.msg)
    except CklSyntaxError as e:
        return "SYNERR: " + str(e.msg)
    except Timeout:
        return "TIMEOUT"
    except Exception as e:  # noqa
        return "PYEXC: %r" % (e,)
    finally:
        signal.alarm(0)


def report(n, violates, text):
    print("FINDING %d: %s %s" % (n, "VIOLATES" if violates else "HOLDS", text))


# 1 a set whose element (a list) was changed after it was put in: s \ s is not empty,
#   s intersected with s is empty (legacy and non-legacy)
r1 = ev("def a = [1]; def s = <<a>>; append(a, 2); [diff(s, s), intersection(s, s), a in s]")
r2 = ev("require Set; def a = [1]; def s = <<a>>; append(a, 2); "
        "[Set->diff(s, s), Set->intersection(s, s), a in s]", legacy=False)
ok = "[<<>>, <<[1, 2]>>, TRUE]"
report(1, r1 != ok or r2 != ok,
       "s = <<a>>, then append(a, 2): [diff(s, s), intersection(s, s), a in s] = %s (legacy), %s (non-legacy)"
       % (r1, r2))

# 2 grouped() splits adjacent equal elements when they are sets / maps of 1 versus 1.0
r1 = ev("[<<1, 2>> == <<1.0, 2.0>>, grouped([<<1, 2>>, <<1.0, 2.0>>, <<2, 1>>]), "
        "unique([<<1, 2>>, <<1.0, 2.0>>, <<2, 1>>])]")
r2 = ev("[<<<1 => 1>>> == <<<1.0 => 1>>>, grouped([<<<1 => 1>>>, <<<1.0 => 1>>>])]")
r3 = ev("[compare(<<1, 2>>, <<1.0, 2.0>>), compare(<<1.0, 2.0>>, <<1, 2>>)]")
report(2, not (r1.startswith("[TRUE, [[<<1, 2>>, <<1.0, 2.0>>, <<1, 2>>]]") and
               r2 == "[TRUE, [[<<<1 => 1>>>, <<<1.0 => 1>>>]]]" and r3 == "[0, 0]"),
       "equal sets/maps of 1 vs 1.0: %s ; %s ; compare both ways %s" % (r1, r2, r3))

# 3 pow(2, 2^80) on ints: neither a value nor a runtime error of the language
#   (run in a child with a 512 MB address space limit and a 25 s time limit)
child = r"""
import resource, sys
resource.setrlimit(resource.RLIMIT_AS, (1 << 29, 1 << 29))
from ckl.interpreter import Interpreter
from ckl.errors import CklRuntimeError
try:
    Interpreter(secure=False, legacy=True).interpret("pow(2, 1208925819614629174706176)", "x")
    print("VALUE")
except CklRuntimeError as e:
    print("RTERR " + str(e.msg))
except BaseException as e:
    print("PYEXC " + type(e).__name__)
"""
env = dict(os.environ)
env["PYTHONPATH"] = SRC
try:
    p = subprocess.run([sys.executable, "-c", child], env=env, capture_output=True, text=True, timeout=25)
    out = (p.stdout.strip().splitlines() or ["no output, rc=%s" % p.returncode])[-1]
except subprocess.TimeoutExpired:
    out = "TIMEOUT after 25 s"
report(3, not out.startswith("RTERR"), "pow(2, 2^80) under a 512 MB limit: %s" % out)
