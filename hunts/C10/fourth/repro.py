#!/usr/bin/env python
"""C10, fourth investigation - replays the (single, doubtful) finding.
Run: cd /tmp/seed6/C10 && PYTHONPATH=/tmp/seed6/C10/src /venv/bin/python hunt/repro.py
"""
import io
import signal
import sys

from ckl.interpreter import Interpreter
from ckl.errors import CklRuntimeError, CklSyntaxError


def run(it, src):
    try:
        return "OK " + str(it.interpret(src, "s"))
    except CklRuntimeError as e:
        return "RTE " + str(e.msg)
    except CklSyntaxError as e:
        return "SYN " + str(e.msg)
    except Exception as e:          # host exception
        return "HOST " + type(e).__name__ + " " + str(e)


class Timeout(Exception):
    pass


def guarded(fn, seconds=20):
    def handler(signum, frame):
        raise Timeout()
    signal.signal(signal.SIGALRM, handler)
    signal.alarm(seconds)
    try:
        return fn()
    except Timeout:
        return "TIMEOUT"
    finally:
        signal.alarm(0)


def finding1():
    # close(stdout) in instance a closes the host stream instance b writes to
    real = sys.stdout
    sys.stdout = io.StringIO()      # the interpreters pick sys.stdout up when they are made
    try:
        out = []
        for legacy in (False, True):
            a = Interpreter(secure=False, legacy=legacy)
            b = Interpreter(secure=False, legacy=legacy)
            pre = "" if legacy else "require IO unqualified; "
            before = run(b, pre + "println('hello')")
            run(a, pre + "close(stdout)")
            after = run(b, pre + "println('hello')")
            out.append((before, after))
            sys.stdout = io.StringIO()
    finally:
        sys.stdout = real
    violated = all(x[0].startswith("OK") and not x[1].startswith("OK") for x in out)
    return violated, out


def main():
    r = guarded(finding1)
    if r == "TIMEOUT":
        print("FINDING 1: HOLDS (timeout) close(stdout) in one instance")
    else:
        violated, out = r
        print("FINDING 1: %s (doubtful) close(stdout) in one interpreter instance makes println fail in every "
              "other instance (before/after in the other instance: %s)" % ("VIOLATES" if violated else "HOLDS", out[0]))


if __name__ == "__main__":
    main()
