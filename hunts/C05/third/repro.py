#!/usr/bin/env python
"""Reproductions for the third C05 hunt.  Run with
   cd /tmp/seed5/C05 && PYTHONPATH=/tmp/seed5/C05/src /venv/bin/python hunt/repro.py
Prints one line per (sub-)finding:  FINDING <n>: <VIOLATES|HOLDS> <description>
(VIOLATES = the behaviour described in FINDINGS.md reproduces; all items are classified "doubtful" there.)
Only the ckl package and the standard library are used; runs in a few seconds."""
import os
import signal
import sys

HERE = os.path.dirname(os.path.abspath(__file__))
sys.path.insert(0, os.path.join(os.path.dirname(HERE), "src"))

from ckl.interpreter import Interpreter          # noqa: E402
from ckl.errors import CklRuntimeError, CklSyntaxError   # noqa: E402
from ckl.functions import Environment            # noqa: E402


class Timeout(Exception):
    pass


def _alarm(*_):
    raise Timeout()


signal.signal(signal.SIGALRM, _alarm)

PRE = "def LOG = []; def log(x) do append(LOG, x); x end;"


def guarded(fn, limit=10):
    signal.setitimer(signal.ITIMER_REAL, limit, 1)   # repeating: cannot be swallowed
    try:
        try:
            v = fn()
            return ("OK", str(v))
        except CklRuntimeError as e:
            return ("RTE", str(e.value))
        except CklSyntaxError as e:
            return ("SYN", e.msg)
        except Timeout:
            return ("TIMEOUT", "")
        except BaseException as e:      # noqa
            return ("HOST", type(e).__name__)
    finally:
        signal.setitimer(signal.ITIMER_REAL, 0)


def run(src, legacy):
    it = Interpreter(secure=False, legacy=legacy)
    it.interpret(PRE, "pre.ckl")
    r = guarded(lambda: it.interpret(src, "t.ckl"))
    log = guarded(lambda: it.interpret("LOG", "log.ckl"))[1]
    return r, log


def report(name, desc, src, expect, expect_log):
    """expect / expect_log: what a single evaluation of every block / a taken exit would give"""
    got = []
    ok = True
    for legacy in (True, False):
        r, log = run(src, legacy)
        got.append((r, log))
        if r != ("OK", expect) or log != expect_log:
            ok = False
    print(f"FINDING {name}: {'HOLDS' if ok else 'VIOLATES'} {desc}  [got {got}]")


# ---- Finding 1: a block written once is evaluated twice (its finally part runs twice)
report("1a", "[doubtful] block as index of a compound element assignment `l[<block>] += 10` is left once, "
             "so its finally part must run once (body and finally run twice)",
       "def l = [1, 2]; l[do log('b'); 0 finally log('f') end] += 10; l",
       "[11, 2]", "['b', 'f']")
report("1b", "[doubtful] block as container of `<block>->x += 5`: finally must run once (runs twice)",
       "def o = <*x = 1*>; (do log('b'); o finally log('f') end)->x += 5; o->x",
       "6", "['b', 'f']")
report("1c", "[doubtful] block as middle operand of a chained comparison `1 < <block> < 3`: finally must run once (runs twice)",
       "1 < (do log('b'); 2 finally log('f') end) < 3",
       "TRUE", "['b', 'f']")
report("1d", "[doubtful] block as `exact_len` operand: finally must run once (runs twice)",
       "'123' is numerical exact_len (do log('b'); 3 finally log('f') end)",
       "TRUE", "['b', 'f']")
report("1e", "[doubtful] the second evaluation can fail after the first one completed: the block whose value was already "
             "used as index raises error 7 on re-evaluation, finally has then run twice",
       "def n = 0; def l = [1, 2]; "
       "do l[do n += 1; if n == 2 then error 7; 0 finally log('f') end] += 10 catch 7 log('c7') end; [n, l]",
       "[1, [11, 2]]", "['f']")
report("1f", "[doubtful] same root cause without any block: `l[nxt()] += 1` calls nxt() twice and reads one element but writes another",
       "def n = 0; def nxt() do n += 1; n end; def l = [0, 0, 5, 0]; l[nxt()] += 1; [n, l]",
       "[1, [0, 1, 5, 0]]", "[]")

# ---- Finding 2: return / break / continue reached in a value position other than def / assignment is stored, not taken
report("2a", "[doubtful] `l[0] = do return 5 finally .. end` must leave f (finally runs once - holds - but the statement after "
             "runs, f returns 9, and the stored marker ends an unrelated loop and the whole script later)",
       "def l = [0]; def f() do l[0] = do return 5 finally log('f') end; log('after'); 9 end; def r = f(); "
       "for x in [1, 2] do log(x); l[0]; log('tail') end; log('end'); r",
       "5", "['f', 1, 'tail', 2, 'tail', 'end']")
report("2b", "[doubtful] `o->x = do break finally .. end` in a loop must leave the loop (statement after runs; "
             "reading o->x in a function later raises 'Cannot use break without surrounding loop')",
       "def o = <*x = 0*>; for i in [1, 2] do o->x = do break finally log('f') end; log('after') end; "
       "def g() do log('g1'); o->x; log('g2'); 'done' end; g()",
       "done", "['f', 'g1', 'g2']")
report("2c", "[doubtful] `append(l, do continue finally .. end)` in a loop must continue (marker is appended, statement after runs)",
       "def l = []; for i in [1, 2] do append(l, do continue finally log('f') end); log('after') end; length(l)",
       "0", "['f', 'f']")


# ---- Finding 3: interpret(script, name, environment) with one environment object: second call makes the scope chain cyclic
def f3():
    it = Interpreter(secure=False, legacy=True)
    env = Environment()
    r1 = guarded(lambda: it.interpret("def a = 1; a + 1", "x", env))
    r2 = guarded(lambda: it.interpret("a + 2", "x", env))
    # without the argument: the undefined name is reported as stack exhaustion, not as an undefined symbol
    msg = []

    def plain():
        try:
            return it.interpret("undefined_q", "x")
        except CklRuntimeError as e:
            msg.append(str(e.msg))
            raise
    r3 = guarded(plain, 5)
    # third call with the same environment: never returns (the walk up the chain in interpret() loops)
    r4 = guarded(lambda: it.interpret("do undefined_q catch all 'caught' end", "x", env), 5)
    ok = r4 == ("OK", "'caught'") and msg and "not defined" in msg[0]
    print(f"FINDING 3: {'HOLDS' if ok else 'VIOLATES'} [doubtful, host API, outside the quantified domain] after two "
          f"interpret() calls with the same environment argument, `do undefined_q catch all 'caught' end` run with that "
          f"environment must give 'caught' (the call never returns) and a plain undefined name must be reported as such "
          f"(it is 'Maximum recursion depth exceeded')  [got {[r1, r2, r3, msg, r4]}]")


f3()
