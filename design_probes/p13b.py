import sys, signal, io, itertools, collections, traceback
from ckl.interpreter import Interpreter
from ckl.errors import CklSyntaxError, CklRuntimeError
from ckl.values import *
def h(*a): raise TimeoutError()
signal.signal(signal.SIGALRM, h)
it = Interpreter(False, True)
it.setStandardOutput(io.StringIO())
POOL = ["NULL","TRUE","0","1","-1","2.5","''","'a'","'abc'","[]","[1, 2, 3]","[[1, 2], [3, 4]]","<<>>","<<1, 2>>","<<<>>>","<<<'a' => 1>>>","<*a = 1*>","//a//","date('20200101')","fn(x) x","str_input('ab')"]
forms2 = ["{a} + {b}","{a} - {b}","{a} * {b}","{a} / {b}","{a} % {b}","{a} < {b}","{a} >= {b}","{a} == {b}","{a} and {b}","{a} or {b}","{a} in {b}","{a} not in {b}","{a}[{b}]","{a}[{b} to *]","({a})->x","{b} !> ({a})()","for x in {a} do {b} end","for [x, y] in {a} do {b} end","for x in keys {a} do {b} end","for x in entries {a} do {b} end","[x for x in {a} if {b}]","[x for x in values {a}]","<<x for x in {a}>>","<<<x => {b} for x in {a}>>>","[x for x in {a} for y in {b}]","[x for x in {a} also for y in {b}]","[...{a}, {b}]","(fn(p...) p...)(...{a})","def [x, y] = {a}","def x = 1; def y = 2; [x, y] = {a}","if {a} then {b}","while {a} do break end","error {a}","do error {a}; catch {b} 1 end","{a} is empty","{a} is numerical","{a} is date","{a} starts with {b}","{a} matches {b}","{a} contains {b}","not {a}","-{a}","def v = {a}; v[{b}] = 1","def v = {a}; v->m = {b}","def v = {a}; v += {b}","({a})->m({b})","require {a}","{a}[{b}, 0]", "string({a}) + {b}", "s('{{{a}}}')"]
forms3 = ["{a}[{b} to {c}]","def v = {a}; v[{b}] = {c}","def v = {a}; v[{b}] += {c}","{a} < {b} < {c}","{a}[{b}, {c}]"]
buckets = collections.Counter(); ex={}
n=0
def run(src, form):
    global n; n+=1
    signal.setitimer(signal.ITIMER_REAL, 0.5)
    try:
        from ckl.functions import get_none_environment
        it.interpret(src, "t", get_none_environment())
    except CklRuntimeError as e:
        if not isinstance(e.value, Value):
            k=(form,"BADVALUE",type(e.value).__name__); buckets[k]+=1; ex.setdefault(k,src)
    except CklSyntaxError as e:
        pass
    except TimeoutError:
        k=(form,"TIMEOUT",""); buckets[k]+=1; ex.setdefault(k,src)
    except RecursionError:
        k=(form,"RecursionError",""); buckets[k]+=1; ex.setdefault(k,src)
    except Exception as e:
        tb = traceback.extract_tb(e.__traceback__)
        fr = [t for t in tb if "/ckl/" in t.filename][-1]
        k=(form,type(e).__name__, "%s:%s" % (fr.filename.split("/")[-1], fr.name)); buckets[k]+=1; ex.setdefault(k,src)
    finally:
        signal.setitimer(signal.ITIMER_REAL, 0)
for f in forms2:
    for a in POOL:
        for b in POOL:
            run(f.format(a=a,b=b), f)
for f in forms3:
    for a in POOL:
        for b in POOL:
            for c in ["NULL","0","-1","5","'a'","[1]"]:
                run(f.format(a=a,b=b,c=c), f)
print(n, "evals", len(buckets), "buckets")
for k,v in sorted(buckets.items()): print(k, v, repr(ex[k]))
