#!/usr/bin/env python
"""Reproductions for the C02 hunt (operators / exact integer arithmetic).

Run:  cd /tmp/seed3/C02 && PYTHONPATH=/tmp/seed3/C02/src /venv/bin/python hunt/repro.py
Prints one line per finding: FINDING <n>: <VIOLATES|HOLDS> <short description>
"""
import os
import signal
import sys

sys.path.insert(0, os.path.join(os.path.dirname(os.path.abspath(__file__)),
                                "..", "src"))

from ckl.interpreter import Interpreter  # noqa: E402
from ckl.errors import CklRuntimeError, CklSyntaxError  # noqa: E402


class Timeout(BaseException):
    pass


def _alarm(*_):
    raise Timeout()


signal.signal(signal.SIGALRM, _alarm)


def run(src, legacy=True, limit=10):
    """-> ('OK', text, type) | ('RT', msg) | ('SYN', msg) | ('PY', exc name)
    | ('HANG',)"""
    it = Interpreter(secure=False, legacy=legacy)
    signal.alarm(limit)
    try:
        v = it.interpret(src, "repro.ckl")
        try:
            text = repr(v)
        except ValueError:
            text = "<unprintable>"
        return ("OK", text, v.type())
    except Timeout:
        return ("HANG",)
    except CklRuntimeError as e:
        return ("RT", e.msg)
    except CklSyntaxError as e:
        return ("SYN", e.msg)
    except BaseException as e:  # host exception leaking out
        return ("PY", type(e).__name__)
    finally:
        signal.alarm(0)


def ok(r, text, typ=None):
    return r[0] == "OK" and r[1] == text and (typ is None or r[2] == typ)


def both(pred):
    """pred(legacy) must be True (= property holds) in both modes."""
    return pred(True) and pred(False)


def report(n, holds, desc):
    print(f"FINDING {n}: {'HOLDS' if holds else 'VIOLATES'} {desc}")


# 1. `is` followed by a string literal with the text not
def f1(legacy):
    a = run("'a' is 'not'", legacy)              # must be FALSE
    b = run("1 is 'not' 2", legacy)              # must be a syntax error
    c = run("'a' is 'not' + 'b'", legacy)        # 'a' == 'notb' -> FALSE
    d = run("'not' is 'not'", legacy)            # TRUE
    return (ok(a, "FALSE") and b[0] == "SYN" and ok(c, "FALSE")
            and ok(d, "TRUE"))


report(1, both(f1),
       "`x is 'not'`: a string literal 'not' after `is` is taken for the "
       "keyword (syntax error / `1 is 'not' 2` is TRUE)")


# 2. list repetition by a huge int never terminates
def f2(legacy):
    r = run("[] * 9223372036854775808", legacy, limit=5)
    return ok(r, "[]") or r[0] == "RT"


report(2, both(f2),
       "`[] * 9223372036854775808` (list * int > 2^63) hangs instead of "
       "giving [] or a runtime error")

# 3. int >= 2^1024 mixed with a decimal: host OverflowError
BIG = str(2 ** 1024)


def f3(legacy):
    res = [run(f"{BIG} {op} 0.5", legacy) for op in "+-*/%"]
    res += [run(f"0.5 {op} {BIG}", legacy) for op in "+-*/%"]
    return all(r[0] in ("OK", "RT") for r in res)


report(3, both(f3),
       "2^1024 (+ - * / %) 0.5 raises a Python OverflowError instead of a "
       "value or a runtime error (comparisons of the same operands work)")

# 4. ints with more than 4300 decimal digits
def f4(legacy):
    lit = run("9" * 4301 + " > 1", legacy)
    hexlit = run("0x" + "f" * 4000 + " > 0", legacy)
    x = "1" + "0" * 2200
    prod = run(f"def x = {x}; x * x > 0", legacy)        # works
    cmp_ = run(f"def x = {x}; x * x < 'a'", legacy)      # ValueError
    cat = run(f"def x = {x}; '' + x * x", legacy)        # ValueError
    div0 = run(f"def x = {x}; (x * x) / 0", legacy)      # ValueError
    return (ok(lit, "TRUE") and ok(hexlit, "TRUE") and ok(prod, "TRUE")
            and cmp_[0] in ("OK", "RT") and cat[0] in ("OK", "RT")
            and div0[0] == "RT")


report(4, both(f4),
       "ints beyond 4300 digits: literal, `<` against a string, `'' + n` and "
       "n / 0 raise a Python ValueError")


# 5. list - NULL is an error, not NULL
def f5(legacy):
    return (ok(run("[1, 2, 3] - NULL", legacy), "NULL")
            and ok(run("[1] + NULL", legacy), "NULL")
            and ok(run("NULL - [1]", legacy), "NULL"))


report(5, both(f5),
       "`[1, 2, 3] - NULL` is the runtime error 'Cannot convert to list' "
       "(all other arithmetic on NULL, e.g. `[1] + NULL`, gives NULL)")


# 6. redundant parentheses change -0.0
def f6(legacy):
    a = run("'' + -0.0", legacy)
    b = run("'' + -(0.0)", legacy)
    c = run("def x = 0.0; '' + -x", legacy)
    return a == b == c


report(6, both(f6),
       "`-0.0` is -0.0 but `-(0.0)` and `-x` (x = 0.0) are 0.0 "
       "(redundant parentheses change the printed value)")


# 7. type predicates None and date can never be TRUE for NULL / a date
def f7(legacy):
    return (ok(run("NULL is None", legacy), "TRUE")
            and ok(run("NULL is not None", legacy), "FALSE")
            and ok(run("date('20200101') is date", legacy), "TRUE"))


report(7, both(f7),
       "[doubtful] `NULL is None` is FALSE (`is None` is FALSE for every "
       "value) and `date('20200101') is date` is FALSE")


# 8. unary minus versus membership / predicates
def f8(legacy):
    a = run("-1 in [-1]", legacy)
    b = run("def x = 1; -x in [-1]", legacy)
    c = run("-5 is negative", legacy)
    d = run("def x = 5; -x is negative", legacy)
    e = run("1 + 1 in [2]", legacy)
    return (ok(a, "TRUE") and ok(b, "TRUE") and ok(c, "TRUE")
            and ok(d, "TRUE") and ok(e, "TRUE"))


report(8, both(f8),
       "[doubtful] `-1 in [-1]` is TRUE but `-x in [-1]` (x = 1) is "
       "'Cannot subtract boolean from int'; same for `-x is negative`; "
       "`1 + 1 in [2]` is 'Cannot add int and boolean'")


# 9. stacked prefix operators
def f9(legacy):
    return (ok(run("not not TRUE", legacy), "TRUE")
            and ok(run("- -5", legacy), "5")
            and ok(run("-+5", legacy), "-5")
            and ok(run("TRUE and not not FALSE", legacy), "FALSE"))


report(9, both(f9),
       "[doubtful] `not not TRUE`, `- -5`, `-+5` are syntax errors "
       "(`not (not TRUE)`, `-(-5)` and `2 - -5` work)")


# 10. operators depend on the names add/sub/mul/div/mod/less/equals/type/...
def f10(legacy):
    return (ok(run("def f(sub) 10 - sub; f(3)", legacy), "7")
            and ok(run("def mod = 3; 10 % mod", legacy), "1")
            and ok(run("[mul * 2 for mul in [1, 2]]", legacy), "[2, 4]")
            and ok(run("def type = 'x'; 1 is int", legacy), "TRUE")
            and ok(run("def less = 1; 1 < 2", legacy), "TRUE"))


report(10, both(f10),
       "[doubtful] a variable named sub/mod/mul/type/less/... breaks the "
       "operator: `def f(sub) 10 - sub; f(3)` is 'Expected def but got int'")


# 11. NaN / decimal modulus
H = "1" + "0" * 400 + ".0"


def f11(legacy):
    n = f"def n = {H} - {H}; "
    a = run(n + "n > 1", legacy)
    b = run(n + "1 < n", legacy)
    c = run(n + "n >= n", legacy)
    d = run(n + "n <= n", legacy)
    m = run("def r = -0.00000000000000000001 % 1.0; r < 1.0", legacy)
    return a[:2] == b[:2] and c[:2] == d[:2] and ok(m, "TRUE")


report(11, both(f11),
       "[doubtful] NaN (inf - inf from long decimal literals): `n > 1` TRUE "
       "but `1 < n` FALSE, `n >= n` TRUE but `n <= n` FALSE; "
       "`-0.00000000000000000001 % 1.0` is 1.0 (not < |b|)")
