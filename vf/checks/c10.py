"""C10  Interpreter sessions keep definitions and survive failed calls unchanged."""
import io
import itertools
import os
import shutil
import tempfile

from vf.core import Finding, time_limit, CaseTimeout
from vf.gen.chooser import TapeChooser, tapes
from vf import cklrun

PROPERTY = "C10"
RULE = (
    "Histories of session commands issued to one or two interleaved "
    "interpreter instances and to a Python session model: define, assign, "
    "read, define/call a function that mutates a global, a call that fails "
    "after a partial definition, a syntax error, a loop aborted by an error, "
    "loops (completed, left by break, aborted) whose variable has the name "
    "of a session variable, "
    "and `require` of a good module (with a load marker and mutable state), "
    "a module that depends on it, a missing module, a module that fails "
    "half-way, a syntactically broken module, a circular pair, and modules "
    "found through checkerlang_module_path where each instance has its own "
    "directory and the same module names have different contents there (one "
    "of them fails to load in one instance only). After every "
    "command the value / error value / stdout must equal the model's; every "
    "failing command is repeated immediately and must give the same error "
    "(value and message); at the end every variable is read back in both "
    "instances. Exhaustive: all histories up to length 3 (quick) / 5 "
    "(thorough) over an 8-command core alphabet on one instance; Hypothesis: "
    "random histories up to length 30 over the full alphabet on two "
    "instances; exhaustive: all interleavings up to length 3 (thorough 4) of "
    "two instances over a 5-command alphabet with the per-instance modules. "
    "Non-trivial = history with a failing command followed by a "
    "command that reads state the failure could have touched (same variable "
    "or module), or an interleaving of two instances."
)
ASSUMPTIONS = [
    "the variable of an aborted loop is never read afterwards",
    "a module whose load fails is not cached: its top-level code runs again on "
    "the next attempt (not ruled out by the statement), so load markers are "
    "asserted 'at most once' only for modules that load successfully",
    "user modules live in $HOME/.ckl/modules of a scratch HOME and in one "
    "scratch directory per instance named by checkerlang_module_path (set "
    "on the instance's environment, as ckl.run and ckl.repl do)",
]

MODULES = {
    "goodm": "println('LOAD goodm'); def _c = 0; "
             "def bump() do _c += 1; _c end; def peek() _c; def val() 42",
    "depm": "println('LOAD depm'); require goodm as _g; "
            "def viag() _g->bump(); def seen() _g->peek()",
    "brokem": "println('LOAD brokem'); def early = 1; error 'brk'; "
              "def late = 2",
    "synm": "def x = (",
    "cyca": "println('LOAD cyca'); require cycb as _b; def a() 1",
    "cycb": "require cyca as _a; def b() 2",
}

# modules found through checkerlang_module_path; every interpreter instance
# gets its own directory, and the same names have different contents there
def path_modules(who):
    return {
        "pathm": f"println('LOAD pathm{who}'); def origin() 'inst{who}'; "
                 f"def only{who}() {who}",
        "flakym": "println('LOAD flakym0'); def status() 'fine'" if who == 0
                  else "println('LOAD flakym1'); def status() 'never'; "
                       "error 'flk'",
    }


_HOME = {}


def scratch_home():
    pid = os.getpid()
    if pid not in _HOME:
        home = tempfile.mkdtemp(prefix="vf_c10_home_")
        d = os.path.join(home, ".ckl", "modules")
        os.makedirs(d)
        for name, src in MODULES.items():
            with open(os.path.join(d, name + ".ckl"), "w") as f:
                f.write(src)
        for who in (0, 1):
            pd = os.path.join(home, f"path{who}")
            os.makedirs(pd)
            for name, src in path_modules(who).items():
                with open(os.path.join(pd, name + ".ckl"), "w") as f:
                    f.write(src)
        _HOME[pid] = home
        import atexit
        atexit.register(lambda: shutil.rmtree(home, ignore_errors=True))
    os.environ["HOME"] = _HOME[pid]
    return _HOME[pid]


# ------------------------------------------------------------------ the model

class SessionModel:
    def __init__(self, who=0):
        self.who = who
        self.vars = {}          # name -> int | list
        self.funcs = set()      # inc{k} defined
        self.loaded = set()     # successfully loaded modules
        self.counter = 0        # goodm's _c

    def step(self, cmd):
        """Returns (kind, value, stdout) with kind in value/error/syntax;
        for errors value is the error value."""
        op = cmd[0]
        if op == "def":
            self.vars[f"v{cmd[1]}"] = cmd[2]
            return ("value", cmd[2], "")
        if op == "assign":
            n = f"v{cmd[1]}"
            if n not in self.vars:
                return ("error", "ERROR", "")
            self.vars[n] = cmd[2]
            return ("value", cmd[2], "")
        if op == "read":
            n = f"v{cmd[1]}"
            if n not in self.vars:
                return ("error", "ERROR", "")
            return ("value", self.vars[n], "")
        if op == "readlist":
            n = f"w{cmd[1]}"
            if n not in self.vars:
                return ("error", "ERROR", "")
            return ("value", self.vars[n], "")
        if op == "deffn":
            self.funcs.add(cmd[1])
            return ("func", None, "")
        if op == "call":
            if cmd[1] not in self.funcs:
                return ("error", "ERROR", "")
            n = f"v{cmd[1]}"
            if n not in self.vars:
                return ("error", "ERROR", "")
            self.vars[n] = self.vars[n] + 1
            return ("value", self.vars[n], "")
        if op == "partial":
            self.vars[f"v{cmd[1]}"] = cmd[2]
            return ("error", "ERROR", "")
        if op == "syntax":
            return ("syntax", None, "")
        if op == "loop":
            self.vars[f"w{cmd[1]}"] = [1, 2]
            return ("error", "stop", "")
        if op == "forvar":
            # a loop whose variable has the name of a session variable: the
            # variable is what it was before, defined or not
            return ("value", 1, "")
        if op == "forvarfail":
            return ("error", "ERROR", "")
        if op == "forvarhdr":
            # the expression a loop runs over assigns to the variable the
            # loop then borrows: the assignment is made before the loop (or
            # its failure) and stays
            n = f"v{cmd[1]}"
            if n not in self.vars:
                return ("error", "ERROR", "")
            self.vars[n] = cmd[2]
            return ("error", "ERROR", "") if cmd[3] else ("value", 2, "")
        if op in ("assignexit", "defexit"):
            # an exit statement on the right-hand side: the call fails (no
            # loop around it) and binds nothing
            return ("error", "ERROR", "")
        if op == "require":
            m = cmd[1]
            if m == "good":
                out = ""
                if "goodm" not in self.loaded:
                    out = "LOAD goodm\n"
                    self.loaded.add("goodm")
                self.counter += 1
                return ("value", self.counter, out)
            if m == "dep":
                out = ""
                if "depm" not in self.loaded:
                    out = "LOAD depm\n"
                    self.loaded.add("depm")
                    if "goodm" not in self.loaded:
                        out += "LOAD goodm\n"
                        self.loaded.add("goodm")
                self.counter += 1
                return ("value", self.counter, out)
            if m == "peek":
                out = ""
                if "goodm" not in self.loaded:
                    out = "LOAD goodm\n"
                    self.loaded.add("goodm")
                return ("value", [self.counter, 42], out)
            if m == "path":
                out = ""
                if "pathm" not in self.loaded:
                    out = f"LOAD pathm{self.who}\n"
                    self.loaded.add("pathm")
                return ("value", [f"inst{self.who}", self.who], out)
            if m == "pathother":
                out = ""
                if "pathm" not in self.loaded:
                    out = f"LOAD pathm{self.who}\n"
                    self.loaded.add("pathm")
                return ("error", "ERROR", out)
            if m == "flaky":
                if self.who == 1:
                    return ("error", "flk", "LOAD flakym1\n")
                out = ""
                if "flakym" not in self.loaded:
                    out = "LOAD flakym0\n"
                    self.loaded.add("flakym")
                return ("value", "fine", out)
            if m == "missing":
                return ("error", "ERROR", "")
            if m == "broken":
                return ("error", "brk", "LOAD brokem\n")
            if m == "syntax":
                return ("syntax", None, "")
            if m == "cycle":
                return ("error", "ERROR", "LOAD cyca\n")
        raise ValueError(cmd)


def source(cmd, who=0):
    op = cmd[0]
    if op == "def":
        return f"def v{cmd[1]} = {cmd[2]}"
    if op == "assign":
        return f"v{cmd[1]} = {cmd[2]}"
    if op == "read":
        return f"v{cmd[1]}"
    if op == "readlist":
        return f"w{cmd[1]}"
    if op == "deffn":
        k = cmd[1]
        return f"def inc{k}() do v{k} = v{k} + 1; v{k} end"
    if op == "call":
        return f"inc{cmd[1]}()"
    if op == "partial":
        return (f"def v{cmd[1]} = {cmd[2]}; undefined_zz; "
                f"def v{cmd[3]} = 99")
    if op == "syntax":
        return "def v1 = ("
    if op == "loop":
        k = cmd[1]
        return (f"def w{k} = []; for i in [1, 2, 3] do append(w{k}, i); "
                f"if i == 2 then do error 'stop' end; end")
    if op == "forvar":
        k = cmd[1]
        return f"for v{k} in [7, 8] do v{k} end; for v{k} in 'ab' do break end; 1"
    if op == "forvarfail":
        k = cmd[1]
        return f"for v{k} in [7, 8] do 1 / 0 end"
    if op == "forvarhdr":
        k = cmd[1]
        first = "1 / 0" if cmd[3] else "1"
        return (f"for v{k} in (do v{k} = {cmd[2]}; [{first}, 2] end) "
                f"do v{k} end")
    if op == "assignexit":
        k = cmd[1]
        return f"def v{k} = 3; v{k} = do {cmd[2]} end" if cmd[3] else \
            f"v{k} = if TRUE then {cmd[2]}"
    if op == "defexit":
        return f"def v{cmd[1]} = do {cmd[2]} end"
    if op == "require":
        return {
            "good": "require goodm; goodm->bump()",
            "dep": "require depm; depm->viag()",
            "peek": "require goodm; [goodm->peek(), goodm->val()]",
            "path": f"require pathm; [pathm->origin(), pathm->only{who}()]",
            "pathother": f"require pathm; pathm->only{1 - who}()",
            "flaky": "require flakym; flakym->status()",
            "missing": "require nosuchm; 1",
            "broken": "require brokem; 1",
            "syntax": "require synm; 1",
            "cycle": "require cyca; 1",
        }[cmd[1]]
    raise ValueError(cmd)


def observe(it, src, env=None):
    """(kind, value-as-model, stdout, message)"""
    from ckl.errors import CklRuntimeError, CklSyntaxError
    out = io.StringIO()
    it.setStandardOutput(out)
    try:
        with time_limit(10):
            v = it.interpret(src, "sess.ckl") if env is None else \
                it.interpret(src, "sess.ckl", env)
        if v.isFunc():
            return ("func", None, out.getvalue(), "")
        return ("value", cklrun.to_model(v), out.getvalue(), "")
    except CklRuntimeError as e:
        try:
            ev = cklrun.to_model(e.value)
        except cklrun.BadValue as b:
            ev = f"<bad value: {b}>"
        return ("error", ev, out.getvalue(), f"{e.msg} ({e.pos})")
    except CklSyntaxError as e:
        return ("syntax", None, out.getvalue(), f"{e.msg} ({e.pos})")
    except CaseTimeout:
        return ("timeout", None, out.getvalue(), "")
    except BaseException as e:
        return ("host:" + type(e).__name__, None, out.getvalue(), str(e)[:200])


def run_history(history, instances=2):
    """history: list of (who, cmd).  Returns Finding or None."""
    from ckl.interpreter import Interpreter
    home = scratch_home()
    from ckl.values import ValueList, ValueString
    its = [Interpreter(False, True) for _ in range(instances)]
    for who, it in enumerate(its):
        it.environment.put(       # as ckl.run and ckl.repl do
            "checkerlang_module_path",
            ValueList().addItem(ValueString(os.path.join(home,
                                                         f"path{who}"))))
    models = [SessionModel(who) for who in range(instances)]
    text = []
    for step_no, (who, cmd) in enumerate(history):
        src = source(cmd, who)
        text.append(f"[{who}] {src}")
        want = models[who].step(cmd)
        got = observe(its[who], src)
        label = cmd[0] + (":" + str(cmd[1]) if cmd[0] == "require" else "")
        if got[0] != want[0] or (want[0] in ("value", "error") and
                                 got[1] != want[1]):
            return Finding(f"C10|{label}|outcome",
                           "\n  ".join(text) + f"\n  -> {got[:3]}, the "
                           f"session model says {want}")
        if got[2] != want[2]:
            return Finding(f"C10|{label}|stdout",
                           "\n  ".join(text) + f"\n  printed {got[2]!r}, "
                           f"the session model says {want[2]!r}")
        if want[0] in ("error", "syntax"):
            # repeating the failed command gives the same error
            want2 = models[who].step(cmd)
            again = observe(its[who], src)
            if (again[0], again[1], again[3]) != (got[0], got[1], got[3]):
                return Finding(f"C10|{label}|repeat-differs",
                               "\n  ".join(text) + f"\n  first: {got}\n  "
                               f"repeated: {again}")
            if again[2] != want2[2]:
                return Finding(f"C10|{label}|repeat-stdout",
                               "\n  ".join(text) + f"\n  repeated printed "
                               f"{again[2]!r}, model {want2[2]!r}")
    # read everything back in every instance
    for who in range(instances):
        m = models[who]
        for k in range(1, 4):
            for n in (f"v{k}", f"w{k}"):
                got = observe(its[who], n)
                if n in m.vars:
                    ok = got[0] == "value" and got[1] == m.vars[n]
                else:
                    ok = got[0] == "error" and got[1] == "ERROR"
                if not ok:
                    return Finding("C10|final-state",
                                   "\n  ".join(text) + f"\n  finally {n} in "
                                   f"instance {who} is {got[:2]}, model "
                                   f"{m.vars.get(n, '<undefined>')}")
        for name in ("goodm", "depm", "brokem", "cyca", "cycb", "synm",
                     "pathm", "flakym"):
            have = name in its[who].base_environment.modules
            if have != (name in m.loaded):
                return Finding("C10|module-cache",
                               "\n  ".join(text) + f"\n  module {name} "
                               f"cached={have} in instance {who}, model "
                               f"loaded={name in m.loaded}")
        if its[who].base_environment.modulestack:
            return Finding("C10|module-stack-residue",
                           "\n  ".join(text) + "\n  module load stack is "
                           f"{its[who].base_environment.modulestack}")
    return None


def prop(case):
    if case.get("kind") == "hostenv":
        return hostenv_prop(case["states"], case["mode"])
    if case.get("kind") == "residue":
        return residue_prop(case["states"],
                            [tuple(x) for x in case["fails"]])
    hist = [(w, tuple(c)) for w, c in case["history"]]
    return run_history(hist, case.get("instances", 2))


# --------------------------------------------------------------------- parts

CORE = [("def", 1, 5), ("read", 1), ("partial", 1, 7, 2), ("syntax",),
        ("forvar", 1), ("defexit", 1, "break"), ("forvarhdr", 1, 8, True),
        ("require", "good"), ("require", "broken"), ("require", "cycle"),
        ("require", "missing")]
FAILING = {"partial", "syntax", "loop", "forvarfail", "assignexit",
           "defexit", "forvarhdr"}


def nontrivial(history):
    seen_fail = {}
    whos = set()
    for i, (who, cmd) in enumerate(history):
        whos.add(who)
        key = None
        if cmd[0] in ("def", "assign", "read", "call", "partial", "forvar",
                      "forvarfail", "assignexit", "defexit", "forvarhdr"):
            key = ("v", cmd[1])
        elif cmd[0] in ("loop", "readlist"):
            key = ("w", cmd[1])
        elif cmd[0] == "require":
            key = ("m", "good" if cmd[1] in ("good", "dep", "peek") else cmd[1])
        for (w2, k2) in list(seen_fail):
            if w2 == who and (k2 == key or k2 is None):
                return True
        fails = cmd[0] in FAILING or (cmd[0] == "require" and (
            cmd[1] in ("missing", "broken", "syntax", "cycle", "pathother")
            or (cmd[1] == "flaky" and who == 1)))
        if fails:
            seen_fail[(who, key)] = i
            if cmd[0] == "partial":
                seen_fail[(who, ("v", cmd[3]))] = i
    return len(whos) > 1


def part_exhaustive(part, length, shard, nshards):
    k = 0
    for n in range(1, length + 1):
        for seq in itertools.product(CORE, repeat=n):
            k += 1
            if k % nshards != shard:
                continue
            hist = [(0, c) for c in seq]
            part.count()
            if nontrivial(hist):
                part.distinct()
            f = run_history(hist, instances=1)
            part.collect(f, {"history": [[w, list(c)] for w, c in hist],
                             "instances": 1})
    part.cls(f"exhaustive<= {length}",
             "; ".join(source(c) for c in CORE[:4]))
    part.exhaustive = True


TWO = [("require", "path"), ("require", "flaky"), ("require", "good"),
       ("def", 1, 5), ("read", 1)]


def part_exhaustive_two(part, length, shard, nshards):
    """All interleavings up to `length` of two instances, each with its own
    module directory holding same-named modules with different contents."""
    k = 0
    alphabet = [(w, c) for w in (0, 1) for c in TWO]
    for n in range(2, length + 1):
        for hist in itertools.product(alphabet, repeat=n):
            k += 1
            if k % nshards != shard:
                continue
            hist = list(hist)
            part.count()
            if len({w for w, _ in hist}) > 1:
                part.distinct()
            f = run_history(hist, instances=2)
            part.collect(f, {"history": [[w, list(c)] for w, c in hist],
                             "instances": 2})
    part.cls(f"two-instances-exhaustive<= {length}",
             "; ".join(f"[{w}] {source(c, w)}" for w, c in alphabet[:4]))
    part.exhaustive = True


def gen_cmd(ch):
    k = ch.weighted([(3, "def"), (2, "assign"), (3, "read"), (1, "deffn"),
                     (2, "call"), (2, "partial"), (1, "syntax"), (2, "loop"),
                     (1, "readlist"), (6, "require"), (2, "forvar"),
                     (1, "forvarfail"), (1, "assignexit"), (1, "defexit"),
                     (2, "forvarhdr")])
    if k in ("def", "assign"):
        return (k, ch.int(1, 3), ch.int(0, 50))
    if k in ("read", "deffn", "call", "loop", "readlist", "forvar",
             "forvarfail"):
        return (k, ch.int(1, 3))
    if k == "forvarhdr":
        return (k, ch.int(1, 3), ch.int(60, 90), ch.bool())
    if k == "assignexit":
        return (k, ch.int(1, 3), ch.choice(["break", "continue"]), False)
    if k == "defexit":
        return (k, ch.int(1, 3), ch.choice(["break", "continue"]))
    if k == "partial":
        return (k, ch.int(1, 3), ch.int(0, 50), ch.int(1, 3))
    if k == "syntax":
        return (k,)
    return ("require", ch.choice(["good", "dep", "peek", "missing", "broken",
                                  "syntax", "cycle", "good", "dep", "path",
                                  "path", "flaky", "flaky", "pathother"]))


def part_random(part, n, maxlen):
    def body(tape):
        ch = TapeChooser(tape)
        two = ch.bool(0.6)
        ln = ch.int(2, maxlen)
        hist = []
        for _ in range(ln):
            who = ch.int(0, 1) if two else 0
            hist.append((who, gen_cmd(ch)))
        part.count()
        if nontrivial(hist):
            part.nontriv(repr(hist))
        part.cls("random:" + ("two-instances" if two else "one-instance"),
                 "; ".join(f"[{w}] {source(c, w)}" for w, c in hist[:6]))
        f = run_history(hist, 2)
        if f:
            return f, {"history": [[w, list(c)] for w, c in hist],
                       "instances": 2}
    part.hyp(tapes(300), body, n)


# ------------------------------------------------------ residue differential

# commands that succeed and build up a session of many kinds of definitions
RES_STATE = [
    "def q0 = 1", "'doc q1' def q1 = [1, 2]", "'doc f0' def f0(x) x + 1",
    "def f1 = f0", "def o0 = <*a = 1, _str_ = fn(self) 'O' + self->a*>",
    "def class K0 do def _init_(self, v) self->v = v; def get(self) self->v end",
    "def k0 = new(K0, 5); k0->get()", "def m0 = <<<'a' => 1>>>",
    "def s0 = <<1, 2>>", "q0 = 7", "append(q1, 3)", "require Math; Math->PI",
    "'other doc' def f0(x) x * 2", "def [d0, d1] = [1, 2]; d1",
    "'doc g0' def g0 = fn(a, b = 2) a + b", "def t0 = 'text'",
    "m0['b'] = 2", "o0->a = 3", "require List as L0; 1",
    "def n0 = NULL", "for i in [1, 2] do q0 = i end",
    "'doc n1' def n1 = NULL", "'doc b1' def b1 = TRUE", "def g1 = g0",
    "def alias_sorted = sorted; 1", "def [f2, f3] = [f0, g0]; 1",
    "'doc K1' def class K1 do def m = f0; def l = q1; def g = g0 end; 1",
    # the header of a loop changes the variable the loop then borrows
    "for q0 in (do q0 = 11; [1, 2] end) do 1 end",
    "def nb() do q0 = q0 + 1; [q0] end; for q0 in nb() do 1 end",
]
# command index -> (name, doc string) for the definitions that carry one
RES_DOCS = {1: ("q1", "doc q1"), 2: ("f0", "doc f0"), 12: ("f0", "other doc"),
            14: ("g0", "doc g0")}
# commands that fail before they have defined or changed anything
RES_FAIL = [
    "1 / 0", "undefined_zz", "def z0 = undefined_zz", "def [za, zb] = f0",
    "def [za, zb] = 5", "'doc z' def [za, zb] = NULL", "q0 = undefined_zz",
    "[q0, t0] = 5", "for zx in 5 do 1 end", "error 'e'",
    "def z1 = do break end", "require nosuch_module", "f0(1, 2, 3)",
    "def class Z0 do def v = 1 / 0 end", "'doc z' def z2 = undefined_zz",
    "q1[99] = 1", "t0->zz = 1", "append(undefined_zz, 1)",
    "q0 += undefined_zz", "eval('1 +')", "[zy for zy in q1 if zy / 0]",
    "for zx in [1, 2] do error 'x' end", "def z3 = new(K0)",
    "sorted([2, 1], cmp = fn(a, b) error 'c')", "def f0(x) (", "f0 = (",
    "'doc z' def [za, zb] = t0", "'doc z' def [za, zb] = f1",
    "'doc z' f0(1, 2, 3)", "def z4 = [1, 2][5]", "m0['zz']",
    "def [za, zb] = [1, undefined_zz]", "o0->zz()", "K0->nothing()",
    "require nosuch_module as f0",
    "(fn(a) a)()", "'doc z' def z6 = 1 / 0",
    "if undefined_zz then def z7 = 1", "while undefined_zz do def z8 = 1 end",
    "do error 'a' catch 'b' 1 end", "do 1 / 0 finally 2 end",
    "'doc z' def class Z1 do def m = f0; def l = q1; def n = 1 / 0 end",
    "def class Z2 do def m = g0; def n = undefined_zz end",
    "[q0, zz_undefined] = [21, 22]", "[t0, q0, zz_undefined] = <<1, 2, 3>>",
]


def _snapshot(it):
    """Everything a later call could observe: the session's names with kind,
    rendering and doc string, the same for the base environment, the loaded
    modules and process-level settings."""
    import sys as _sys
    def one(v):
        try:
            text = str(v)
        except Exception as e:          # noqa
            text = f"<{type(e).__name__}>"
        return (type(v).__name__, text[:200], getattr(v, "info", None) or "")
    snap = {}
    for name, v in it.environment.map.items():
        snap["session:" + name] = one(v)
    for name, v in it.base_environment.map.items():
        snap["base:" + name] = one(v)
    snap["modules"] = tuple(sorted(it.base_environment.modules))
    snap["modulestack"] = tuple(it.base_environment.modulestack)
    snap["reclimit"] = _sys.getrecursionlimit()
    snap["cwd"] = os.getcwd()
    return snap


def residue_prop(states, fails):
    """states: indices into RES_STATE; fails: [(position, index into
    RES_FAIL)].  The session with the failing commands inserted must give the
    same results for all other commands and end in the same observable state
    as the session without them; a failing command repeated at once fails
    the same way."""
    from ckl.interpreter import Interpreter
    scratch_home()

    other = Interpreter(False, False)
    other_before = _snapshot(other)

    def play(with_fails):
        it = Interpreter(False, False)
        results = []
        for pos in range(len(states) + 1):
            if with_fails:
                for fp, fi in fails:
                    if fp == pos:
                        r1 = observe(it, RES_FAIL[fi])
                        r2 = observe(it, RES_FAIL[fi])
                        if r1[0] not in ("error", "syntax"):
                            return None, ("not-failing", RES_FAIL[fi], r1)
                        if r1 != r2:
                            return None, ("repeat", RES_FAIL[fi], r1, r2)
            if pos < len(states):
                results.append(repr(observe(it, RES_STATE[states[pos]])))
        docs = {}
        for k in states:
            if k in RES_DOCS:
                docs[RES_DOCS[k][0]] = RES_DOCS[k][1]
        for name, doc in sorted(docs.items()):
            got = observe(it, f"info({name})")
            if got[:2] != ("value", doc):
                return None, ("doc", name, doc, got)
        return (results, _snapshot(it)), None

    base, _ = play(False)
    test, problem = play(True) if base is not None else (None, None)
    text = " ;; ".join(
        [x for pos in range(len(states) + 1)
         for x in ([f"<<FAILS>> {RES_FAIL[fi]}" for fp, fi in fails
                    if fp == pos]
                   + ([RES_STATE[states[pos]]] if pos < len(states) else []))])
    if base is None:
        test, problem = None, _
    if problem is None and _snapshot(other) != other_before:
        after = _snapshot(other)
        diff = [(k, other_before.get(k), after.get(k)) for k in sorted(after)
                if other_before.get(k) != after.get(k)]
        return Finding("C10|instances|another-interpreter-changed",
                       f"{text}: an interpreter that ran nothing sees "
                       f"{diff[:3]!r} (before / after)")
    if problem:
        if problem[0] == "doc":
            return Finding("C10|definition-lost|doc-string|" + problem[1],
                           f"{text}: info({problem[1]}) is {problem[3][:2]!r}, "
                           f"defined with {problem[2]!r}")
        if problem[0] == "not-failing":
            return Finding("C10|residue|command-did-not-fail|" + problem[1],
                           f"{text}: {problem[1]!r} gave {problem[2][:2]!r}")
        return Finding("C10|residue|repeated-failure-differs|" + problem[1],
                       f"{text}: first {problem[2]!r}, repeated {problem[3]!r}")
    if base[0] != test[0]:
        k = next(i for i, (a, b) in enumerate(zip(base[0], test[0])) if a != b)
        return Finding("C10|residue|later-command-differs",
                       f"{text}: {RES_STATE[states[k]]!r} gives {test[0][k]!r}, "
                       f"without the failing commands {base[0][k]!r}")
    if base[1] != test[1]:
        keys = sorted(set(base[1]) | set(test[1]))
        diff = [(k, base[1].get(k), test[1].get(k)) for k in keys
                if base[1].get(k) != test[1].get(k)]
        return Finding("C10|residue|state-differs|" + diff[0][0].split(":")[0],
                       f"{text}: {diff[:3]!r} (without / with the failing "
                       f"commands)")
    return None


HOST_ENV_MODES = ["reuse", "session", "child", "two-interpreters"]
HOST_ENV_EXTRA = ["undefined_zz", "require Math; Math->PI",
                  "require nosuch_module", "length([1, 2])",
                  "def hq(x) x + q0; hq(1)", "secret_zz"]


def hostenv_prop(states, mode):
    """The environment parameter of interpret(): a session held in an
    environment object of the host, handed in again for every call, behaves
    like the interpreter's own session."""
    from ckl.interpreter import Interpreter
    from ckl.functions import get_none_environment
    scratch_home()
    cmds = [RES_STATE[k] if k >= 0 else HOST_ENV_EXTRA[-k - 1]
            for k in states]
    ref_it = Interpreter(False, False)
    ref = [repr(observe(ref_it, c)) for c in cmds]
    it = Interpreter(False, False)
    it2 = Interpreter(False, False) if mode == "two-interpreters" else None
    env = {"reuse": get_none_environment, "two-interpreters":
           get_none_environment, "session": lambda: it.environment,
           "child": lambda: it.environment.newEnv()}[mode]()
    text = " ;; ".join(cmds)
    for k, c in enumerate(cmds):
        got = repr(observe(it, c, env))
        if got != ref[k]:
            return Finding(f"C10|host-environment|{mode}|result-differs",
                           f"{text}: call {k + 1} ({c!r}) with the same "
                           f"environment object handed in gives {got}, a "
                           f"plain session gives {ref[k]}")
        if it2 is not None:
            # another interpreter is handed the same object in between: it
            # sees the object's own names, and afterwards neither interpreter
            # may see the other's session
            observe(it2, "1", env)
    if it2 is not None:
        for probe_it, name in ((it2, "first"), (it, "second")):
            leak = observe(probe_it, "secret_zz")
            if leak[0] != "error":
                return Finding("C10|host-environment|two-interpreters|leak",
                               f"{text}: secret_zz of the {name} interpreter "
                               f"is visible in the other: {leak[:2]!r}")
        observe(it, "def secret_zz = 1")
        leak = observe(it2, "secret_zz")
        if leak[0] != "error":
            return Finding("C10|host-environment|two-interpreters|leak",
                           f"{text}: a definition made in one interpreter's "
                           f"session is visible in the other after both were "
                           f"handed the same environment object")
    return None


def part_hostenv(part, n):
    def body(tape):
        ch = TapeChooser(tape)
        mode = ch.choice(HOST_ENV_MODES)
        ln = ch.int(2, 8)
        states = [ch.int(0, len(RES_STATE) - 1) if ch.bool(0.7)
                  else -ch.int(1, len(HOST_ENV_EXTRA)) for _ in range(ln)]
        part.count()
        part.nontriv((mode, tuple(states)))
        part.cls("host-environment:" + mode, None)
        f = hostenv_prop(states, mode)
        if f:
            return f, {"kind": "hostenv", "states": states, "mode": mode}
    part.hyp(tapes(64), body, n)


def part_residue(part, n):
    def body(tape):
        ch = TapeChooser(tape)
        ln = ch.int(2, 8)
        states = [ch.int(0, len(RES_STATE) - 1) for _ in range(ln)]
        fails = sorted((ch.int(0, ln), ch.int(0, len(RES_FAIL) - 1))
                       for _ in range(ch.int(1, 3)))
        part.count()
        part.nontriv((tuple(states), tuple(fails)))
        part.cls("residue:" + str(len(fails)) + "-failing-commands",
                 RES_FAIL[fails[0][1]] if part.evaluations % 20 == 0 else None)
        f = residue_prop(states, fails)
        if f:
            return f, {"kind": "residue", "states": states,
                       "fails": [list(x) for x in fails]}
    part.hyp(tapes(64), body, n)


def part_residue_each(part):
    """Every failing command once, after the whole list of defining commands
    and between its two halves."""
    allst = list(range(len(RES_STATE)))
    for fi in range(len(RES_FAIL)):
        for pos in (len(allst), len(allst) // 2):
            part.count()
            part.nontriv((fi, pos))
            f = residue_prop(allst, [(pos, fi)])
            part.collect(f, {"kind": "residue", "states": allst,
                             "fails": [[pos, fi]]})
    part.cls("residue:each-failing-command", RES_FAIL[3])
    part.exhaustive = True


def parts(tier, seed):
    if tier == "quick":
        ps = [(f"exh3-{i}", part_exhaustive,
               {"length": 3, "shard": i, "nshards": 6}) for i in range(6)]
        ps += [(f"random-{i}", part_random, {"n": 60, "maxlen": 30})
               for i in range(8)]
        ps += [(f"two3-{i}", part_exhaustive_two,
                {"length": 3, "shard": i, "nshards": 4}) for i in range(4)]
        ps += [("residue-each", part_residue_each, {})]
        ps += [(f"residue-{i}", part_residue, {"n": 150}) for i in range(4)]
        ps += [(f"hostenv-{i}", part_hostenv, {"n": 150}) for i in range(2)]
    else:
        ps = [(f"exh5-{i}", part_exhaustive,
               {"length": 5, "shard": i, "nshards": 16}) for i in range(16)]
        ps += [(f"random-{i}", part_random, {"n": 1500, "maxlen": 30})
               for i in range(8)]
        ps += [(f"two4-{i}", part_exhaustive_two,
                {"length": 4, "shard": i, "nshards": 8}) for i in range(8)]
        ps += [("residue-each", part_residue_each, {})]
        ps += [(f"residue-{i}", part_residue, {"n": 4000}) for i in range(8)]
        ps += [(f"hostenv-{i}", part_hostenv, {"n": 3000}) for i in range(4)]
    return ps
