#!/usr/bin/env python
"""C15 hunt: inputs where indexing / slicing / sub-sequence functions leave
the sequence model.  Repo root from VERIF_REPO (default: script directory)."""
import os
import sys

ROOT = os.environ.get("VERIF_REPO") or os.path.dirname(os.path.abspath(__file__))
sys.path.insert(0, os.path.join(ROOT, "src"))

from ckl.interpreter import Interpreter  # noqa: E402

INTERP = Interpreter(False, False)


def run(src):
    """Python image of the result, or ('ERR', message)."""
    try:
        return conv(INTERP.interpret(src, "repro"))
    except Exception as e:  # runtime / syntax errors of the interpreter
        return ("ERR", str(e))


def conv(v):
    if v.isList():
        return [conv(x) for x in v.value]
    if v.isNull():
        return None
    return v.value


def is_err(r):
    return isinstance(r, tuple) and len(r) == 2 and r[0] == "ERR"


def report(n, violated, desc):
    if violated:
        print(f"FINDING {n}: VIOLATES {desc}")
    else:
        print(f"FINDING {n}: HOLDS")


# 1. find on a string with negative start wraps around (Python str.find),
#    the list variant clamps the same start to 0.
a = run('find("ab", "a", start = -1)')
b = run('find(["a", "b"], "a", start = -1)')
c = run('find("aa", "a", start = -1)')
report(1, not (a == b == 0 and c == 0),
       f"find string/list disagree for negative start: string {a}, list {b}; "
       f'find("aa","a",start=-1) = {c} (first occurrence is 0)')

# 2. find_last on a string with negative start: start + len(part) < 0 is
#    passed to rfind as a negative (wrapping) end.
r1 = run('find_last("abab", "b", start = -1)')
r2 = run('find_last("abab", "b", start = -2)')
r3 = run('find_last(["a", "b", "a", "b"], "b", start = -2)')
r4 = run('find_last("", "", start = -7)')
report(2, not (r1 == r2 == r3 == -1 and r4 == -1),
       f"find_last string wraps negative start: start=-1 -> {r1}, "
       f"start=-2 -> {r2}, list start=-2 -> {r3}, "
       f'find_last("","",start=-7) -> {r4}')

# 3. find_last with an empty part and default start: last position is len(s)
d1 = run('find_last("a", "")')
d2 = run('find_last("a", "", start = 1)')
report(3, d1 != d2,
       f'find_last("a","") = {d1} but the empty part also occurs at {d2} '
       f"(explicit start = 1)")

# 4. non-integer indices are coerced by int(): strings, decimals (truncated
#    towards zero, so -0.5 is the FIRST element), booleans
e = [run('"abc"["1"]'), run('"abc"[-0.5]'), run("[1, 2, 3][TRUE]"),
     run('"abc"[0.5 to 2.5]')]
f = run('substr("abc", 0.5, 2.5)')
report(4, not all(is_err(x) for x in e),
       f"non-integer indices accepted: {e!r}; substr with the same bounds "
       f"{'raises' if is_err(f) else f!r}")

# 5. string element assignment with a value that is not one character
g1 = run('def s = "abc"; s[1] = ""; [s, length(s)]')
g2 = run('def s = "abc"; s[-1] = "xyz"; [s, s[-1]]')
report(5, not (is_err(g1) and is_err(g2)),
       f"s[i] = v changes the length / s[i] != v afterwards: {g1!r}, {g2!r}")

# 6. substitute: idx >= length appends, list value is spliced
h1 = run('substitute("abc", 5, "x")')
h2 = run('substitute("abc", -4, "x")')
h3 = run("substitute([1, 2, 3], 1, [8, 9])")
report(6, not (is_err(h1) and h3 == [1, [8, 9], 3]),
       f'substitute("abc",5,"x") = {h1!r} (idx -4 '
       f"{'raises' if is_err(h2) else h2!r}); "
       f"substitute([1,2,3],1,[8,9]) = {h3!r}")

# 7. List->first_n with negative n
k1 = run("require List; List->first_n([1, 2, 3], -1)")
k2 = run("require List; List->last_n([1, 2, 3], -1)")
report(7, k1 != [],
       f"first_n([1,2,3], -1) = {k1!r} while last_n([1,2,3], -1) = {k2!r}")
