"""Running the interpreter under test and converting its values.

Outcome tuples returned by `run`:
    ("value", ckl_value, stdout)
    ("error", ckl_error_value, msg, pos_str, stdout, exc)
    ("syntax", msg, pos_str)
    ("host", exception class name, innermost repo frame, text)
    ("timeout",)
"""
import io
import os
import sys
import traceback

from vf.core import time_limit, CaseTimeout
from vf.repo import SRC
from vf.model import values as mv

_INTERPS = {}


def interpreter(secure=False, legacy=True, fresh=False):
    from ckl.interpreter import Interpreter
    if os.environ.get("VF_LEGACY") == "0":      # exploratory runs only
        legacy = False
    key = (secure, legacy)
    if fresh:
        return Interpreter(secure, legacy)
    if key not in _INTERPS:
        _INTERPS[key] = Interpreter(secure, legacy)
    return _INTERPS[key]


def repo_frame(tb):
    """Innermost frame inside the repository's sources, as file:qualname."""
    best = "?"
    while tb is not None:
        code = tb.tb_frame.f_code
        if code.co_filename.startswith(SRC):
            best = f"{os.path.basename(code.co_filename)}:" \
                   f"{getattr(code, 'co_qualname', code.co_name)}"
        tb = tb.tb_next
    return best


def run(src, budget=5.0, interp=None, name="t.ckl", session=False,
        legacy=True, secure=False):
    """Interpret src.  By default in a fresh scope on a shared interpreter
    (the way the test-suite does); session=True uses the interpreter's
    persistent session environment."""
    from ckl.errors import CklRuntimeError, CklSyntaxError
    from ckl.functions import get_none_environment
    from ckl.values import ValueOutput
    it = interp or interpreter(secure, legacy)
    out = io.StringIO()
    it.setStandardOutput(out)
    env = None if session else get_none_environment()
    try:
        with time_limit(budget):
            v = it.interpret(src, name, env) if env is not None \
                else it.interpret(src, name)
        return ("value", v, out.getvalue())
    except CklRuntimeError as e:
        return ("error", e.value, e.msg, str(e.pos), out.getvalue(), e)
    except CklSyntaxError as e:
        return ("syntax", e.msg, str(e.pos))
    except CaseTimeout:
        return ("timeout",)
    except BaseException as e:
        return ("host", type(e).__name__, repo_frame(e.__traceback__),
                str(e)[:300])


class BadValue(Exception):
    """An interpreter value whose host representation is inconsistent with
    its language type (e.g. an int value holding a host float)."""


def to_model(v, depth=0):
    from ckl import values as cv
    from ckl.functions import FuncLambda  # noqa
    if depth > 50:
        raise BadValue("value nesting too deep / cyclic")
    if not isinstance(v, cv.Value):
        raise BadValue(f"host object {type(v).__name__} used as a value")
    if isinstance(v, cv.ValueNull):
        return None
    if isinstance(v, cv.ValueBoolean):
        if not isinstance(v.value, bool):
            raise BadValue(f"boolean holds {type(v.value).__name__}")
        return v.value
    if isinstance(v, cv.ValueInt):
        if isinstance(v.value, bool) or not isinstance(v.value, int):
            raise BadValue(f"int holds host {type(v.value).__name__} "
                           f"{v.value!r}")
        return v.value
    if isinstance(v, cv.ValueDecimal):
        x = v.value
        if isinstance(x, bool) or not isinstance(x, (int, float)):
            raise BadValue(f"decimal holds host {type(x).__name__}")
        try:
            return float(x)
        except OverflowError:
            raise BadValue("decimal holds an int beyond the float range")
    if isinstance(v, cv.ValueString):
        if not isinstance(v.value, str):
            raise BadValue(f"string holds host {type(v.value).__name__}")
        return v.value
    if isinstance(v, cv.ValueDate):
        return v.value
    if isinstance(v, cv.ValuePattern):
        return mv.Pat(v.value)
    if isinstance(v, cv.ValueList):
        return [to_model(x, depth + 1) for x in v.value]
    if isinstance(v, cv.ValueSet):
        return mv.MSet([to_model(x, depth + 1) for x in v.value])
    if isinstance(v, cv.ValueMap):
        return mv.MMap([(to_model(k, depth + 1), to_model(x, depth + 1))
                        for k, x in v.value.items()])
    if isinstance(v, cv.ValueObject):
        return mv.MObj({k: to_model(x, depth + 1)
                        for k, x in v.value.items() if k != "_proto_"
                        or True})
    if isinstance(v, cv.ValueFunc):
        return mv.Func(v.name)
    return mv.Opaque(v.type())


def from_model(m):
    """Build an interpreter value through the ckl.values constructors."""
    from ckl import values as cv
    k = mv.kind(m)
    if k == "null":
        return cv.NULL
    if k == "boolean":
        return cv.ValueBoolean.fromval(m)
    if k == "int":
        return cv.ValueInt(m)
    if k == "decimal":
        return cv.ValueDecimal(m)
    if k == "string":
        return cv.ValueString(m)
    if k == "date":
        return cv.ValueDate(m)
    if k == "pattern":
        return cv.ValuePattern(m.text)
    if k == "list":
        r = cv.ValueList()
        for x in m:
            r.addItem(from_model(x))
        return r
    if k == "set":
        r = cv.ValueSet()
        for x in m.items:
            r.addItem(from_model(x))
        return r
    if k == "map":
        r = cv.ValueMap()
        for a, b in m.pairs:
            r.addItem(from_model(a), from_model(b))
        return r
    if k == "object":
        r = cv.ValueObject()
        for n, x in m.members.items():
            r.addItem(n, from_model(x))
        return r
    raise ValueError(f"cannot build {k}")


def short(x, n=300):
    try:
        s = repr(x)
    except BaseException as e:       # a value whose rendering runs user code
        if isinstance(x, tuple):
            s = "(" + ", ".join(short(y, n) for y in x) + ")"
        else:
            s = f"<{type(x).__name__}: rendering raises {type(e).__name__}>"
    return s if len(s) <= n else s[:n] + "..."


ERR_SENTINEL = "<<'#E#'>>"


def _is_sentinel(m):
    return isinstance(m, mv.MSet) and len(m.items) == 1 and m.items[0] == "#E#"


def run_batch(prelude, exprs, budget=20.0, **kw):
    """Evaluate many expressions in one program.  Each is wrapped so that a
    language-level runtime error becomes a sentinel.  Returns a list, one per
    expression, of ("ok", model_value) | ("err",) | ("host", cls, frame, text)
    | ("syntax", msg) | ("timeout",) | ("bad", text).  If the batch as a whole
    does not yield a value, the expressions are evaluated one by one."""
    if not exprs:
        return []
    body = ", ".join(f"do {e} catch all {ERR_SENTINEL} end" for e in exprs)
    src = f"{prelude}; [{body}]" if prelude else f"[{body}]"
    out = run(src, budget=budget, **kw)
    if out[0] == "value":
        v = out[1]
        from ckl import values as cv
        if isinstance(v, cv.ValueList) and len(v.value) == len(exprs):
            res = []
            for item in v.value:
                try:
                    m = to_model(item)
                except BadValue as e:
                    res.append(("bad", str(e)))
                    continue
                res.append(("err",) if _is_sentinel(m) else ("ok", m))
            return res
    if len(exprs) == 1:
        if out[0] == "value":
            return [("bad", "batch of one did not return a one-element list")]
        if out[0] == "error":
            return [("err",)]
        return [out[:4] if out[0] == "host" else out]
    mid = len(exprs) // 2
    return (run_batch(prelude, exprs[:mid], budget, **kw)
            + run_batch(prelude, exprs[mid:], budget, **kw))
