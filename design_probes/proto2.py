# prototype 2: scoping-focused generator + mutant models + layout re-rendering (throw-away)
import random, sys, collections
from proto import *

class Model2(Model):
    def __init__(self, dynamic=False, assign_local=False, pos_first=False, def_at_def=False):
        super().__init__(dynamic); self.assign_local = assign_local; self.pos_first = pos_first; self.def_at_def = def_at_def
    def st(self, s, env):
        if s[0] == 'assign' and self.assign_local:
            self.fuel -= 1
            v = self.ev(s[2], env); env.m[s[1]] = v; return v
        return super().st(s, env)

def gen_scoping(r):
    names = ['x', 'y', 'z']
    n = [0]
    def tag(): n[0] += 1; return 't%d' % n[0]
    def iexpr(vars, d=1):
        if d == 0 or r.random() < 0.5:
            return ('var', r.choice(vars)) if vars and r.random() < 0.7 else ('lit', r.randint(0, 4))
        return ('bin', r.choice('+-*'), iexpr(vars, d-1), iexpr(vars, d-1))
    fnames = []
    def body(depth, visible, fvisible):
        out = []
        for _ in range(r.randint(1, 4)):
            k = r.random()
            if k < 0.25:
                nm = r.choice(names); out.append(('def', nm, iexpr(visible))); visible = visible + [nm] if nm not in visible else visible
            elif k < 0.45 and visible:
                out.append(('assign', r.choice(visible), iexpr(visible)))
            elif k < 0.6:
                out.append(('logv', iexpr(visible)))
            elif k < 0.8 and depth > 0:
                fname = 'f%d' % (len(fnames) + 1); fnames.append(fname)
                params = []
                for p in r.sample(names, r.randint(0, 2)):
                    params.append((p, iexpr(visible, 0) if r.random() < 0.3 else None, False))
                inner_vis = list(set(visible + [p[0] for p in params]))
                b = body(depth - 1, inner_vis, fvisible) + [('return', iexpr(inner_vis))]
                out.append(('def', fname, ('fn', params, b)))
                fvisible = fvisible + [(fname, params)]
            elif fvisible:
                fname, params = r.choice(fvisible)
                args = []
                for p in params:
                    if p[1] is not None and r.random() < 0.5: continue
                    if r.random() < 0.25: args.append(('named', p[0], iexpr(visible, 0)))
                    else: args.append(('pos', iexpr(visible, 0)))
                # positional before named
                args = [a for a in args if a[0] == 'pos'] + [a for a in args if a[0] == 'named']
                out.append(('logv', ('call', ('var', fname), args)))
            else:
                out.append(('log', tag()))
        return out
    pre = [('def', 'x', ('lit', 1)), ('def', 'y', ('lit', 2))]
    return pre + body(3, ['x', 'y'], []) + [('logv', ('var', 'x')), ('logv', ('var', 'y'))]

# layout re-rendering from tokens
import re
def tokens(src):
    # tokenise my own canonical rendering (only the shapes my renderer emits)
    return re.findall(r"'[^']*'|\d+\.\d+|\d+|[A-Za-z_][A-Za-z_0-9]*(?:\.\.\.)?|\.\.\.|<=|>=|==|!=|[()\[\],;+\-*/<>=]", src)
SAFE_L = set('([,;'); SAFE_R = set(')],;')
def relayout(toks, r):
    out = ''
    for i, t in enumerate(toks):
        out += t
        if i + 1 < len(toks):
            nxt = toks[i+1]
            seps = [' ', '  ', '\t', '\n', '\r\n', ' # c\n', '\n\n']
            if t in SAFE_L or nxt in SAFE_R: seps.append(''); seps.append('')
            out += r.choice(seps)
    return out + r.choice(['', ' ', '\n', ' # end', ' #'])

if __name__ == '__main__':
    seed0 = int(sys.argv[1]); N = int(sys.argv[2])
    stats = collections.Counter(); shown = 0
    for i in range(N):
        r = random.Random(seed0 * 100000 + i)
        p = gen_scoping(r) if i % 2 == 0 else prog(r)
        src = rblock(p)
        m = Model2().run(p)
        if m[0] == 'skip' or (m[0] == 'err' and m[1] in ('UNSPEC', 'FUEL')): stats['skip'] += 1; continue
        x = real(src); stats['run'] += 1
        for name, mm in (('dynamic', Model2(dynamic=True)), ('assign_local', Model2(assign_local=True))):
            if not same(m, mm.run(p)): stats['kills-' + name] += 1
        if not same(m, x):
            stats['MISMATCH'] += 1
            if shown < 5: shown += 1; print('---- MISMATCH\n', src, '\n model:', m, '\n real: ', x)
        # layout
        toks = tokens(src)
        if ''.join(toks) != src.replace(' ', ''): stats['tokenizer-bad'] += 1; continue
        for k in range(3):
            v = relayout(toks, r)
            y = real(v)
            stats['layouts'] += 1
            if y != x:
                stats['LAYOUT-DIFF'] += 1
                if shown < 8: shown += 1; print('---- LAYOUT DIFF\n', repr(v), '\n base:', x, '\n var: ', y)
    print(dict(stats))
