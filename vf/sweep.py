"""Pool sweep engine shared by C13 (only language-level errors escape) and C16
part 1 (only documented mutators change their arguments).

Every function object reachable in the base environments and bundled modules,
and every syntactic form, is applied to all argument tuples (arity <= 3) from a
fixed pool of representative values.  Arguments are built fresh for every call
(and, on the diagonal, one object is shared between two positions).
"""
import io
import os
import resource
import shutil
import sys
import tempfile

from vf.core import time_limit, CaseTimeout
from vf import cklrun
from vf.repo import SRC

# name -> constructor source (interpreted once per worker for closures) or
# python builder.  Order is the pool index.
POOL_SRC = [
    "NULL", "TRUE", "FALSE", "0", "1", "-1", "3", "2.5", "0.0", "''", "'a'",
    "'abc'", "'1'", "[]", "[1, 2, 3]", "['a', 'b']", "[[1, 2], [3, 4]]",
    "<<>>", "<<1, 2>>", "<<<>>>", "<<<'a' => 1>>>", "<*a = 1*>", "//a//",
    "date('20200101')", "fn(x) x", "identity", "str_input('ab\\ncd')",
    "str_output()", "fn() 1",
]
POOL_KIND = [
    "null", "boolean", "boolean", "int", "int", "int", "int", "decimal",
    "decimal", "string", "string", "string", "string", "list", "list", "list",
    "list", "set", "set", "map", "map", "object", "pattern", "date", "func",
    "func", "input", "output", "func",
]
N = len(POOL_SRC)
# Extreme values any program can produce; they are not part of the base sweep
# (indices >= N), see c13.part_extremes.
EXT_SRC = [
    "decimal('inf')", "decimal('-inf')", "decimal('nan')", "decimal('1e300')",
    "decimal('-1e300')", "decimal('5e-324')", "9223372036854775808",
    "0 - 9223372036854775808", "1000000000000000000", "2958466",
    "0 - 693594", "date('99991231')", "date('19000101')",
    "date('20200101') + 0.5",
    "1" + "0" * 400,                 # an int beyond the range of a double
    "0 - 1" + "0" * 400,
    "1" + "0" * 5000,                # beyond the host's int <-> text limit
    # appended later (indices of the entries above are used by replay files):
    # the top of the double range and digit counts that reach it
    "decimal('1.7e308')", "decimal('-1.7e308')", "0 - 308", "308", "0 - 400",
    # inputs that fail on the host side (bound per run by _fresh_inputs)
    "badin", "noin",
]
EXT_KIND = ["decimal"] * 6 + ["int"] * 5 + ["date"] * 3 + ["int"] * 3 + \
    ["decimal"] * 2 + ["int"] * 3 + ["input"] * 2
EXT_DECIMAL = set(range(N, N + 6)) | {N + 17, N + 18}
EXT_BIGINT = set(range(N + 6, N + 11)) | {N + 14, N + 15, N + 16}
POOL_SRC = POOL_SRC + EXT_SRC
POOL_KIND = POOL_KIND + EXT_KIND
N_EXT = len(POOL_SRC)
MUTABLE = {13, 14, 15, 16, 17, 18, 19, 20, 21}
IMMUTABLE_SHARED = {24, 25, 28}       # function objects are reused


class Sweeper:
    def __init__(self, legacy=True):
        from ckl.interpreter import Interpreter
        from ckl import values as cv
        self.cv = cv
        self.legacy = legacy
        self.it = Interpreter(False, legacy)
        self.it.setStandardInput(cv.StringInput("line1\nline2\n"))
        self.out = io.StringIO()
        self.it.setStandardOutput(self.out)
        self._fn = self.it.interpret("fn(x) x", "pool")
        self._identity = self.it.interpret("identity", "pool")
        self._fn0 = self.it.interpret("fn() 1", "pool")
        self.scratch = tempfile.mkdtemp(prefix="vf_sweep_")
        self.home = os.path.join(self.scratch, "home")
        os.makedirs(self.home)
        self.cwd = os.path.join(self.scratch, "cwd")
        os.makedirs(self.cwd)
        os.environ["HOME"] = self.home
        os.chdir(self.cwd)
        try:
            resource.setrlimit(resource.RLIMIT_AS, (4 << 30, 4 << 30))
        except Exception:
            pass
        self.functions = self._functions()
        # programs may assign to names of the base environment (compare = 5):
        # the bindings are put back after every run
        self._base_map = dict(self.it.base_environment.map)
        self.pid = os.getpid()
        import atexit
        atexit.register(self.close)

    def close(self):
        if os.getpid() != self.pid:
            return
        try:
            os.chdir("/")
        finally:
            shutil.rmtree(self.scratch, ignore_errors=True)

    def reset_cwd(self):
        names = os.listdir(self.cwd)
        if not names:
            return
        for name in names:
            p = os.path.join(self.cwd, name)
            if os.path.isdir(p) and not os.path.islink(p):
                shutil.rmtree(p, ignore_errors=True)
            else:
                try:
                    os.unlink(p)
                except OSError:
                    pass

    # ---------------------------------------------------------------- domain
    def _functions(self):
        """[(label, function object, declared names)] for every distinct
        function object of the base environment and every bundled module."""
        base = self.it.base_environment
        out = {}
        for mname in sorted(base.modules):
            menv = base.modules[mname]
            for sym in sorted(menv.getLocalSymbols()):
                v = menv.map[sym]
                if isinstance(v, self.cv.Value) and v.isFunc():
                    out.setdefault(id(v), [f"{mname}->{sym}", v])
        for sym in sorted(base.map):
            v = base.map[sym]
            if isinstance(v, self.cv.Value) and v.isFunc():
                out.setdefault(id(v), [f"base:{sym}", v])
        res = []
        for label, v in sorted(out.values(), key=lambda t: t[0]):
            names = list(v.getArgNames())
            res.append((label, v, names))
        return res

    # ------------------------------------------------------------------ pool
    def make(self, i):
        cv = self.cv
        if i == 0:
            return cv.NULL
        if i == 1:
            return cv.TRUE
        if i == 2:
            return cv.FALSE
        if i in (3, 4, 5, 6):
            return cv.ValueInt([0, 1, -1, 3][i - 3])
        if i == 7:
            return cv.ValueDecimal(2.5)
        if i == 8:
            return cv.ValueDecimal(0.0)
        if i in (9, 10, 11, 12):
            return cv.ValueString(["", "a", "abc", "1"][i - 9])
        if i == 13:
            return cv.ValueList()
        if i == 14:
            r = cv.ValueList()
            for k in (1, 2, 3):
                r.addItem(cv.ValueInt(k))
            return r
        if i == 15:
            r = cv.ValueList()
            for k in ("a", "b"):
                r.addItem(cv.ValueString(k))
            return r
        if i == 16:
            r = cv.ValueList()
            for pair in ((1, 2), (3, 4)):
                p = cv.ValueList()
                for k in pair:
                    p.addItem(cv.ValueInt(k))
                r.addItem(p)
            return r
        if i == 17:
            return cv.ValueSet()
        if i == 18:
            r = cv.ValueSet()
            r.addItem(cv.ValueInt(1))
            r.addItem(cv.ValueInt(2))
            return r
        if i == 19:
            return cv.ValueMap()
        if i == 20:
            r = cv.ValueMap()
            r.addItem(cv.ValueString("a"), cv.ValueInt(1))
            return r
        if i == 21:
            r = cv.ValueObject()
            r.addItem("a", cv.ValueInt(1))
            return r
        if i == 22:
            return cv.ValuePattern("a")
        if i == 23:
            import datetime
            return cv.ValueDate(datetime.datetime(2020, 1, 1))
        if i == 24:
            return self._fn
        if i == 25:
            return self._identity
        if i == 26:
            return cv.ValueInput(cv.StringInput("ab\ncd"))
        if i == 27:
            return cv.ValueOutput(cv.StringOutput())
        if i == 28:
            return self._fn0
        if N <= i < N_EXT:
            if POOL_KIND[i] == "input":
                self._fresh_inputs()
            return self.it.interpret(POOL_SRC[i], "pool")
        raise IndexError(i)

    # ------------------------------------------------------------- execution
    def run_src(self, src, bindings, budget=2.0):
        """Interpret src with the given variable bindings.  Returns
        (outcome, values) where outcome is
          ("value", v) | ("error", v) | ("syntax",) |
          ("badvalue", text) | ("host", cls, frame, text) | ("timeout",)"""
        from ckl.errors import CklRuntimeError, CklSyntaxError
        from ckl.functions import Environment
        env = Environment()
        for k, v in bindings.items():
            env.put(k, v)
        self.reset_cwd()
        if os.getcwd() != self.cwd:
            os.chdir(self.cwd)
        self.it.setStandardInput(self.cv.StringInput("line1\nline2\n"))
        self._fresh_inputs()
        if self.out.closed:         # a generated close(stdout)
            self.out = io.StringIO()
            self.it.setStandardOutput(self.out)
        self.out.seek(0)
        self.out.truncate()
        try:
            try:
                with time_limit(budget):
                    v = self.it.interpret(src, "sweep.ckl", env)
            finally:
                self._restore_base()
            bad = self.badvalue(v)
            if bad:
                return ("badvalue", bad)
            # a value is something the host can show (print, REPL, messages)
            try:
                with time_limit(budget):
                    text = str(v)
                if not isinstance(text, str):
                    return ("badvalue", "str() of the result is a "
                            + type(text).__name__)
            except CaseTimeout:
                return ("timeout",)
            except (RecursionError, CklRuntimeError):
                pass        # a _str_ hook may raise, like string(v) would
            except Exception as e:
                return ("host", type(e).__name__ + " while rendering the "
                        "result", cklrun.repo_frame(e.__traceback__),
                        str(e)[:200])
            return ("value", v)
        except CklRuntimeError as e:
            if not isinstance(e.value, self.cv.Value):
                return ("badvalue",
                        f"runtime error whose value is a host "
                        f"{type(e.value).__name__}: {e.value!r}")
            if not isinstance(e.msg, (str, self.cv.Value)):
                return ("badvalue", f"runtime error message is a host "
                                    f"{type(e.msg).__name__}")
            return ("error", e.value)
        except CklSyntaxError:
            return ("syntax",)
        except CaseTimeout:
            return ("timeout",)
        except RecursionError as e:
            return ("host", "RecursionError",
                    cklrun.repo_frame(e.__traceback__), "")
        except MemoryError as e:
            return ("host", "MemoryError",
                    cklrun.repo_frame(e.__traceback__), "")
        except BaseException as e:
            return ("host", type(e).__name__,
                    cklrun.repo_frame(e.__traceback__), str(e)[:200])

    def _fresh_inputs(self):
        """Inputs that fail on the host side, as a program meets them when
        standard input is not text or is not there: `badin` yields bytes that
        are not UTF-8, `noin` has no stream behind it."""
        cv = self.cv
        if not hasattr(cv, "StreamInput"):
            return
        bad = io.TextIOWrapper(io.BytesIO(b"ok\n\xff\xfe\xfa bad\nmore\n"),
                               encoding="utf-8")
        for name, stream in (("badin", bad), ("noin", None)):
            v = cv.ValueInput(cv.StreamInput(stream))
            self.it.base_environment.map[name] = v
            self._base_map[name] = v

    def _restore_base(self):
        m = self.it.base_environment.map
        saved = self._base_map
        if len(m) != len(saved) or any(m.get(k) is not v
                                       for k, v in saved.items()):
            m.clear()
            m.update(saved)

    def badvalue(self, v, depth=0, seen=None):
        """Return a description if v (or something inside, to depth 4) is not
        a proper language value; cycles are fine."""
        cv = self.cv
        if not isinstance(v, cv.Value):
            return f"host object {type(v).__name__} ({v!r:.60}) as a value"
        if depth > 4:
            return None
        if seen is None:
            seen = set()
        if id(v) in seen:
            return None
        if isinstance(v, cv.ValueInt):
            if isinstance(v.value, bool) or not isinstance(v.value, int):
                return f"int value holds host {type(v.value).__name__} " \
                       f"{v.value!r}"
        elif isinstance(v, cv.ValueDecimal):
            if isinstance(v.value, bool) or \
                    not isinstance(v.value, (int, float)):
                return f"decimal value holds host {type(v.value).__name__}"
        elif isinstance(v, cv.ValueString):
            if not isinstance(v.value, str):
                return f"string value holds host {type(v.value).__name__}"
        elif isinstance(v, cv.ValueBoolean):
            if not isinstance(v.value, bool):
                return f"boolean value holds host {type(v.value).__name__}"
        elif isinstance(v, (cv.ValueList, cv.ValueSet)):
            seen.add(id(v))
            for x in list(v.value)[:50]:
                b = self.badvalue(x, depth + 1, seen)
                if b:
                    return b
        elif isinstance(v, cv.ValueMap):
            seen.add(id(v))
            for k, x in list(v.value.items())[:50]:
                b = self.badvalue(k, depth + 1, seen) or \
                    self.badvalue(x, depth + 1, seen)
                if b:
                    return b
        elif isinstance(v, cv.ValueObject):
            seen.add(id(v))
            for k, x in list(v.value.items())[:50]:
                if not isinstance(k, str):
                    return f"object member name is a host {type(k).__name__}"
                b = self.badvalue(x, depth + 1, seen)
                if b:
                    return b
        return None

    # -------------------------------------------------------------- snapshot
    def snapshot(self, v, depth=0, seen=None):
        """Deep structural snapshot of a data value (identity-free)."""
        cv = self.cv
        if seen is None:
            seen = {}
        if depth > 8:
            return "..."
        if not isinstance(v, cv.Value):
            return ("host", repr(v)[:40])
        if id(v) in seen:
            return ("cycle",)
        if isinstance(v, cv.ValueList):
            seen[id(v)] = 1
            r = ("list", tuple(self.snapshot(x, depth + 1, seen)
                               for x in v.value))
            del seen[id(v)]
            return r
        if isinstance(v, cv.ValueSet):
            seen[id(v)] = 1
            r = ("set", frozenset(self.snapshot(x, depth + 1, seen)
                                  for x in v.value))
            del seen[id(v)]
            return r
        if isinstance(v, cv.ValueMap):
            seen[id(v)] = 1
            r = ("map", frozenset((self.snapshot(k, depth + 1, seen),
                                   self.snapshot(x, depth + 1, seen))
                                  for k, x in v.value.items()))
            del seen[id(v)]
            return r
        if isinstance(v, cv.ValueObject):
            seen[id(v)] = 1
            r = ("object", tuple((k, self.snapshot(x, depth + 1, seen))
                                 for k, x in v.value.items()))
            del seen[id(v)]
            return r
        if isinstance(v, cv.ValueFunc):
            # what a program can see of a function value besides calling it
            return (v.type(), getattr(v, "name", None),
                    getattr(v, "info", "") or "")
        if isinstance(v, (cv.ValueInput, cv.ValueOutput)):
            return (v.type(),)
        if isinstance(v, cv.ValueNull):
            return ("null",)
        return (v.type(), repr(getattr(v, "value", None)))


def confirm_timeout(property_id, case, hard=60):
    """Re-run one case alone in a fresh process with a 20 s budget."""
    import json
    import subprocess
    from vf.repo import VERIF_DIR
    fd, path = tempfile.mkstemp(suffix=".json", prefix="vf_sweep_case_")
    try:
        with os.fdopen(fd, "w") as f:
            json.dump({"property": property_id, "case": case}, f)
        env = dict(os.environ)
        env["VF_CASE_BUDGET"] = "20"
        try:
            r = subprocess.run(
                [sys.executable, "-m", "vf", "replay", path], cwd=VERIF_DIR,
                env=env, capture_output=True, text=True, timeout=hard)
        except subprocess.TimeoutExpired:
            return True
        return r.returncode == 1 and "TIMEOUT" in r.stdout
    finally:
        os.unlink(path)
