#!/usr/bin/env python
"""Reproductions for the second C05 hunt.  Run with
   cd /tmp/seed4/C05 && PYTHONPATH=/tmp/seed4/C05/src /venv/bin/python hunt/repro.py
Prints one line per (sub-)finding:  FINDING <n>: <VIOLATES|HOLDS> <description>
Only the ckl package and the standard library are used."""
import os
import signal
import sys

HERE = os.path.dirname(os.path.abspath(__file__))
sys.path.insert(0, os.path.join(os.path.dirname(HERE), "src"))

from ckl.interpreter import Interpreter          # noqa: E402
from ckl.errors import CklRuntimeError, CklSyntaxError   # noqa: E402


class Timeout(Exception):
    pass


def _alarm(*_):
    raise Timeout()


signal.signal(signal.SIGALRM, _alarm)

PRE = "def LOG = []; def log(x) do append(LOG, x); x end;"


def run(src, legacy, limit=15):
    """-> (kind, text) ; kind in OK / RTE / SYN / HOST / TIMEOUT, plus the LOG list as text"""
    it = Interpreter(secure=False, legacy=legacy)
    it.interpret(PRE, "pre.ckl")
    signal.setitimer(signal.ITIMER_REAL, limit, 1)   # repeating: cannot be swallowed
    try:
        try:
            v = it.interpret(src, "t.ckl")
            try:
                r = ("OK", str(v))
            except Exception:
                r = ("OK", "<unrenderable>")
        except CklRuntimeError as e:
            try:
                val = str(e.value)
            except Exception:
                val = "<unrenderable>"
            r = ("RTE", val + " / " + str(e.msg)[:60])
        except CklSyntaxError as e:
            r = ("SYN", e.msg)
        except Timeout:
            r = ("TIMEOUT", "")
        except BaseException as e:      # noqa
            r = ("HOST", type(e).__name__)
    finally:
        signal.setitimer(signal.ITIMER_REAL, 0)
    try:
        log = str(it.interpret("LOG", "log.ckl"))
    except Exception:
        log = "?"
    return r, log


def report(name, desc, src, expect, expect_log=None):
    """expect: the value the statement requires (text of an OK result)"""
    got = []
    ok = True
    for legacy in (True, False):
        r, log = run(src, legacy)
        got.append((r, log))
        if r != ("OK", expect):
            ok = False
        if expect_log is not None and log != expect_log:
            ok = False
    print(f"FINDING {name}: {'HOLDS' if ok else 'VIOLATES'} {desc}  [got {got}]")


CYC = "def c = []; append(c, c); def c2 = []; append(c2, c2); "
DEEP = ("def l = []; for i in range(3000) do l = [l] end; "
        "def l2 = []; for i in range(3000) do l2 = [l2] end; ")

# ---- Finding 1: stack exhaustion raised outside a function call passes every catch up to the next call boundary
report("1a", "runtime error (stack exhaustion while hashing a list that contains itself, in a set literal) "
             "must be caught by the enclosing `catch all`; it leaves the interpreter uncaught, finally runs, handler does not",
       CYC + "do log(1); <<c>>; log(2) catch all log('h') finally log('f') end", "h", "[1, 'h', 'f']")
report("1b", "same with a 3000-deep (not cyclic) list as set element",
       DEEP + "do <<l>> catch all 'caught' end", "caught")
report("1c", "same error inside a function: the innermost `catch all` (in g) must handle it, the outer one does",
       CYC + "def g() do <<c>> catch all 'inner' end; do g() catch all 'outer' end", "inner")
report("1d", "two nested blocks with `catch all` at top level: neither handles it",
       CYC + "do do <<c>> catch all 'inner' end catch all 'outer' end", "inner")
report("1e", "`x in list` comparing two 3000-deep equal lists exhausts the stack: `catch all` must handle it",
       DEEP + "do l in [l2] catch all 'caught' end", "caught")
report("1f", "map lookup with a key that contains itself: `catch all` must handle it",
       CYC + "do <<<1 => 2>>>[c] catch all 'caught' end", "caught")
report("1g", "set comprehension over a list holding a self-containing list: `catch all` must handle it",
       CYC + "do <<x for x in [c]>> catch all 'caught' end", "caught")
report("1h", "[doubtful] matching `catch l2` against `error l` (equal 3000-deep lists) exhausts the stack: "
             "error l is replaced by 'ERROR' which skips the `catch all` of the enclosing block too",
       DEEP + "do do error l catch l2 'matched' end catch all 'outer' end", "matched")
report("1i", "endless recursion: the error arises inside the deepest entered block (E), whose `catch all` must "
             "handle it (H == E); the block one level further out handles it instead (H == E - 1)",
       "def E = -1; def H = -1; def f(n) do E = n; f(n + 1) catch all H = n end; f(0); E == H", "TRUE")
