# throw-away prototype: random programs (C03/C04/C05 core) vs a reference evaluator
import random, sys, io, signal, collections
from ckl.interpreter import Interpreter
from ckl.functions import get_none_environment
from ckl.errors import CklRuntimeError, CklSyntaxError
from ckl.values import *

# ---------------- model ----------------
class MErr(Exception):
    def __init__(self, value): self.value = value
class Ctl(Exception): pass
class Brk(Ctl): pass
class Cont(Ctl): pass
class Ret(Ctl):
    def __init__(self, v): self.v = v
class Env:
    def __init__(self, parent=None): self.m = {}; self.parent = parent
    def lookup(self, n):
        e = self
        while e is not None:
            if n in e.m: return e
            e = e.parent
        return None
class Closure:
    def __init__(self, params, body, env): self.params, self.body, self.env = params, body, env
ERR = 'ERROR'
def meq(a, b):
    if isinstance(a, bool) or isinstance(b, bool): return isinstance(a, bool) and isinstance(b, bool) and a == b
    if isinstance(a, (int, float)) and isinstance(b, (int, float)): return a == b
    if a is None or b is None: return a is None and b is None
    if isinstance(a, str) or isinstance(b, str): return isinstance(a, str) and isinstance(b, str) and a == b
    if isinstance(a, list) and isinstance(b, list): return len(a) == len(b) and all(meq(x, y) for x, y in zip(a, b))
    if isinstance(a, Closure) or isinstance(b, Closure): return a is b
    return False
def isnum(x): return isinstance(x, (int, float)) and not isinstance(x, bool)
class Model:
    def __init__(self, dynamic=False): self.dynamic = dynamic
    def ev(self, e, env):
        t = e[0]
        if t == 'lit': return e[1] if not isinstance(e[1], list) else list(e[1])
        if t == 'list': return [self.ev(x, env) for x in e[1]]
        if t == 'var':
            s = env.lookup(e[1])
            if s is None: raise MErr(ERR)
            return s.m[e[1]]
        if t == 'bin':
            a = self.ev(e[2], env); b = self.ev(e[3], env); op = e[1]
            if a is None or b is None: return None
            if op == '+':
                if isnum(a) and isnum(b): return a + b
                if isinstance(a, list) and isinstance(b, list): return a + b
                if isinstance(a, str) and isinstance(b, (str,)): return a + b
                if isinstance(a, str) and isnum(b) and isinstance(b, int): return a + str(b)
                raise MErr(ERR)
            if not (isnum(a) and isnum(b)): raise MErr(ERR)
            if op == '-': return a - b
            if op == '*': return a * b
            if op == '/':
                if b == 0: raise MErr(ERR)
                if isinstance(a, int) and isinstance(b, int):
                    q = abs(a) // abs(b); return -q if (a < 0) != (b < 0) else q
                return a / b
        if t == 'cmp':
            a = self.ev(e[2], env); b = self.ev(e[3], env); op = e[1]
            if op == '==': return meq(a, b)
            if op == '!=': return not meq(a, b)
            if not (isnum(a) and isnum(b)): raise MErr('UNSPEC')
            return {'<': a < b, '<=': a <= b, '>': a > b, '>=': a >= b}[op]
        if t == 'call':
            f = self.ev(e[1], env)
            pos, named = [], {}
            for a in e[2]:
                if a[0] == 'pos': pos.append(self.ev(a[1], env))
                elif a[0] == 'named': named[a[1]] = self.ev(a[2], env)
                elif a[0] == 'spread':
                    v = self.ev(a[1], env); pos.extend(v)
            if not isinstance(f, Closure): raise MErr(ERR)
            return self.call(f, pos, named, env)
        if t == 'fn': return Closure(e[1], e[2], env)
        raise Exception("bad expr " + t)
    def call(self, f, pos, named, callerenv):
        frame = Env(callerenv if self.dynamic else f.env)
        names = [p[0] for p in f.params if not p[2]]
        rest = [p[0] for p in f.params if p[2]]
        bound = {}
        for k, v in named.items():
            if k not in names: raise MErr(ERR)
            bound[k] = v
        restv = []
        for v in pos:
            nxt = next((n for n in names if n not in bound), None)
            if nxt is None:
                if not rest: raise MErr(ERR)
                restv.append(v)
            else: bound[nxt] = v
        if rest: bound[rest[0]] = restv
        for (n, d, r) in f.params:
            if n in bound: frame.m[n] = bound[n]
            elif d is not None: frame.m[n] = self.ev(d, frame)
            else: raise MErr(ERR)
        try:
            return self.block(f.body, frame)
        except Ret as r: return r.v
        except (Brk, Cont): raise MErr(ERR)
    def block(self, stmts, env):
        v = True
        for s in stmts: v = self.st(s, env)
        return v
    def st(self, s, env):
        self.fuel -= 1
        if self.fuel < 0: raise MErr('FUEL')
        t = s[0]
        if t == 'def':
            v = self.ev(s[2], env); env.m[s[1]] = v; return v
        if t == 'assign':
            sc = env.lookup(s[1])
            if sc is None: raise MErr(ERR)
            v = self.ev(s[2], env); sc.m[s[1]] = v; return v
        if t == 'expr': return self.ev(s[1], env)
        if t == 'log':
            self.log.append(s[1]); return None
        if t == 'logv':
            self.log.append(self.ev(s[1], env)); return None
        if t == 'if':
            for c, b in s[1]:
                cv = self.ev(c, env)
                if not isinstance(cv, bool): raise MErr(ERR)
                if cv: return self.block(b, env)
            if s[2] is not None: return self.block(s[2], env)
            return True
        if t == 'for':
            it = self.ev(s[2], env)
            if not isinstance(it, list): raise MErr(ERR)
            for x in list(it):
                env.m[s[1]] = x
                try: self.block(s[3], env)
                except Brk: break
                except Cont: continue
            return True
        if t == 'while':
            while True:
                c = self.ev(s[1], env)
                if not isinstance(c, bool): raise MErr(ERR)
                if not c: break
                try: self.block(s[2], env)
                except Brk: break
                except Cont: continue
            return True
        if t == 'break': raise Brk()
        if t == 'continue': raise Cont()
        if t == 'return': raise Ret(self.ev(s[1], env))
        if t == 'error': raise MErr(self.ev(s[1], env))
        if t == 'block':
            try:
                try:
                    return self.block(s[1], env)
                except MErr as e:
                    for cv, cb in s[2]:
                        if cv is None or meq(e.value, self.ev(cv, env)):
                            return self.block(cb, env)
                    raise
            finally:
                self.block(s[3], env)
        raise Exception("bad stmt " + t)
    def run(self, prog):
        self.log = []; self.fuel = 3000
        env = Env(); env.m['log'] = self.log
        try:
            v = self.block(prog, env); return ('val', v, self.log)
        except Ret as r: return ('val', r.v, self.log)
        except MErr as e: return ('err', e.value, self.log)
        except (Brk, Cont): return ('err', ERR, self.log)
        except RecursionError: return ('skip',)

# ---------------- renderer ----------------
def rlit(v):
    if v is None: return 'NULL'
    if isinstance(v, bool): return 'TRUE' if v else 'FALSE'
    if isinstance(v, int): return str(v) if v >= 0 else '(%d)' % v
    if isinstance(v, float): return repr(v)
    if isinstance(v, str): return "'" + v + "'"
    if isinstance(v, list): return '[' + ', '.join(rlit(x) if not isinstance(x, tuple) else rex(x) for x in v) + ']'
def rex(e):
    t = e[0]
    if t == 'lit': return rlit(e[1])
    if t == 'list': return '[' + ', '.join(rex(x) for x in e[1]) + ']'
    if t == 'var': return e[1]
    if t in ('bin', 'cmp'): return '(%s %s %s)' % (rex(e[2]), e[1], rex(e[3]))
    if t == 'call':
        args = []
        for a in e[2]:
            if a[0] == 'pos': args.append(rex(a[1]))
            elif a[0] == 'named': args.append('%s = %s' % (a[1], rex(a[2])))
            else: args.append('...' + rex(a[1]))
        f = rex(e[1])
        if e[1][0] != 'var': f = '(' + f + ')'
        return '%s(%s)' % (f, ', '.join(args))
    if t == 'fn':
        ps = ', '.join(n + ('...' if r else '') + ((' = ' + rex(d)) if d is not None else '') for n, d, r in e[1])
        return 'fn(%s) do %s end' % (ps, rblock(e[2]))
def rblock(stmts): return '; '.join(rst(s) for s in stmts) + ';' if stmts else 'NULL;'
def rst(s):
    t = s[0]
    if t == 'def': return 'def %s = %s' % (s[1], rex(s[2]))
    if t == 'assign': return '%s = %s' % (s[1], rex(s[2]))
    if t == 'expr': return rex(s[1])
    if t == 'log': return "(append(log, '%s'); NULL)" % s[1]
    if t == 'logv': return "(append(log, %s); NULL)" % rex(s[1])
    if t == 'if':
        out = ''
        for i, (c, b) in enumerate(s[1]):
            out += ('if ' if i == 0 else ' elif ') + rex(c) + ' then do ' + rblock(b) + ' end'
        if s[2] is not None: out += ' else do ' + rblock(s[2]) + ' end'
        return out
    if t == 'for': return 'for %s in %s do %s end' % (s[1], rex(s[2]), rblock(s[3]))
    if t == 'while': return 'while %s do %s end' % (rex(s[1]), rblock(s[2]))
    if t == 'break': return 'break'
    if t == 'continue': return 'continue'
    if t == 'return': return 'return ' + rex(s[1])
    if t == 'error': return 'error ' + rex(s[1])
    if t == 'block':
        out = 'do ' + rblock(s[1])
        for cv, cb in s[2]:
            out += ' catch ' + ('all' if cv is None else rex(cv)) + ' do ' + rblock(cb) + ' end'
        if s[3]: out += ' finally ' + rblock(s[3])
        return out + ' end'

# ---------------- generator ----------------
class Gen:
    def __init__(self, r): self.r = r; self.n = 0; self.loopv = 0
    def tag(self): self.n += 1; return 't%d' % self.n
    def errval(self):
        return self.r.choice([('lit', 'x'), ('lit', 'y'), ('lit', 1), ('lit', 1.0), ('lit', None), ('lit', [1, 2]), ('lit', True), ('lit', 'ERROR')])
    def intexpr(self, vars, d=2):
        r = self.r
        if d == 0 or r.random() < 0.4:
            if vars and r.random() < 0.6: return ('var', r.choice(vars))
            return ('lit', r.randint(-3, 5))
        return ('bin', r.choice('+-*'), self.intexpr(vars, d-1), self.intexpr(vars, d-1))
    def cond(self, vars):
        return ('cmp', self.r.choice(['<', '<=', '==', '!=', '>']), self.intexpr(vars, 1), self.intexpr(vars, 1))
    def stmts(self, vars, depth, inloop, infn, n=None):
        r = self.r; out = []
        for _ in range(n or r.randint(1, 4)):
            out.append(self.stmt(vars, depth, inloop, infn))
        return out
    def stmt(self, vars, depth, inloop, infn):
        r = self.r
        k = r.random()
        if depth <= 0 or k < 0.25:
            c = r.random()
            if c < 0.35: return ('log', self.tag())
            if c < 0.55 and vars: return ('logv', ('var', r.choice(vars)))
            if c < 0.7 and vars: return ('assign', r.choice([v for v in vars if v[0] not in 'iw'] or ['x']), self.intexpr(vars))
            if c < 0.8: return ('error', self.errval())
            if c < 0.85: return ('expr', ('var', 'undefined_zz'))
            if c < 0.9: return ('expr', ('bin', '/', ('lit', 1), ('lit', 0)))
            if c < 0.94 and inloop: return ('break',)
            if c < 0.97 and inloop: return ('continue',)
            if infn: return ('return', self.intexpr(vars))
            return ('log', self.tag())
        if k < 0.45:
            catches = []
            for _ in range(r.randint(0, 2)):
                catches.append((None if r.random() < 0.25 else self.errval(), self.stmts(vars, depth-1, inloop, infn, r.randint(1, 2))))
            fin = self.stmts(vars, depth-1, False, False, r.randint(1, 2)) if r.random() < 0.6 else []
            fin = [s for s in fin if s[0] not in ('return',)]
            return ('block', self.stmts(vars, depth-1, inloop, infn), catches, fin)
        if k < 0.6:
            return ('if', [(self.cond(vars), self.stmts(vars, depth-1, inloop, infn, r.randint(1, 2))) for _ in range(r.randint(1, 2))], self.stmts(vars, depth-1, inloop, infn, 1) if r.random() < 0.5 else None)
        if k < 0.78:
            self.loopv += 1; v = 'i%d' % self.loopv
            return ('for', v, ('lit', [r.randint(0, 3) for _ in range(r.randint(0, 3))]), self.stmts(vars + [v], depth-1, True, infn))
        if k < 0.88:
            self.loopv += 1; v = 'w%d' % self.loopv
            # bounded while: def v = 0; while v < n do v = v + 1; ... end  (emit as two statements via block)
            body = [('assign', v, ('bin', '+', ('var', v), ('lit', 1)))] + self.stmts(vars + [v], depth-1, True, infn)
            return ('block', [('def', v, ('lit', 0)), ('while', ('cmp', '<', ('var', v), ('lit', r.randint(1, 3))), body)], [], [])
        # function definition + call
        self.loopv += 1; fname = 'f%d' % self.loopv
        params = []
        pool = ['a', 'b', 'c', 'x']
        r.shuffle(pool)
        np_ = r.randint(0, 3)
        for j in range(np_):
            d = self.intexpr([p[0] for p in params] + vars, 1) if r.random() < 0.35 else None
            params.append((pool[j], d, False))
        if r.random() < 0.25: params.append(('r', None, True))
        body = self.stmts(vars + [p[0] for p in params if not p[2]], depth-1, False, True) + [('return', self.intexpr(vars + [p[0] for p in params if not p[2]], 1))]
        args = []
        used = set()
        for j in range(r.randint(0, np_ + 1)):
            if r.random() < 0.15: args.append(('spread', ('lit', [r.randint(0, 2) for _ in range(r.randint(0, 2))])))
            else: args.append(('pos', self.intexpr(vars, 1)))
        for p in params:
            if not p[2] and r.random() < 0.2 and p[0] not in used:
                args.append(('named', p[0], self.intexpr(vars, 1))); used.add(p[0])
        nm = r.choice(['x', 'y', 'a'])   # define a var with same name as something, to force shadowing
        return ('block', [('def', fname, ('fn', params, body)), ('logv', ('call', ('var', fname), args))], [], [])
def prog(r):
    g = Gen(r)
    vars = ['x', 'y', 'a']
    pre = [('def', 'x', ('lit', 1)), ('def', 'y', ('lit', 2)), ('def', 'a', ('lit', 3))]
    return pre + g.stmts(vars, 4, False, False, r.randint(2, 5)) + [('logv', ('var', 'x')), ('logv', ('var', 'a'))]

# ---------------- real ----------------
def h(*a): raise TimeoutError()
signal.signal(signal.SIGALRM, h)
it = Interpreter(False, True)
def tomodel(v):
    if v.isNull(): return None
    if v.isBoolean(): return v.value
    if v.isInt(): return int(v.value)
    if v.isDecimal(): return float(v.value)
    if v.isString(): return v.value
    if v.isList(): return [tomodel(x) for x in v.value]
    if v.isFunc(): return ('func',)
    return ('other', v.type())
def real(src):
    env = get_none_environment()
    lg = ValueList(); env.put('log', lg)
    signal.setitimer(signal.ITIMER_REAL, 2)
    try:
        v = it.interpret(src, 't', env)
        return ('val', tomodel(v), tomodel(lg))
    except CklRuntimeError as e:
        return ('err', tomodel(e.value) if isinstance(e.value, Value) else ('host', repr(e.value)), tomodel(lg))
    except CklSyntaxError as e:
        return ('syn', e.msg, None)
    except TimeoutError: return ('timeout',)
    except RecursionError: return ('recursion',)
    except Exception as e: return ('host', type(e).__name__ + ': ' + str(e), None)
    finally: signal.setitimer(signal.ITIMER_REAL, 0)

def same(a, b):
    if a[0] != b[0]: return False
    if a[0] in ('val',):
        return logeq(a[2], b[2])   # block values at top-level not compared
    if a[0] == 'err': return meq(a[1], b[1]) and logeq(a[2], b[2])
    return False
def logeq(x, y):
    if len(x) != len(y): return False
    for p, q in zip(x, y):
        if isinstance(p, Closure) or isinstance(q, tuple): continue
        if not meq(p, q): return False
    return True
if __name__ == '__main__':
    seed0 = int(sys.argv[1]) if len(sys.argv) > 1 else 1
    N = int(sys.argv[2]) if len(sys.argv) > 2 else 2000
    stats = collections.Counter(); shown = 0
    for i in range(N):
        r = random.Random(seed0 * 100000 + i)
        p = prog(r)
        src = rblock(p)
        m = Model().run(p)
        if m[0] == 'skip' or (m[0] == 'err' and m[1] in ('UNSPEC','FUEL')): stats['skip'] += 1; continue
        d = Model(dynamic=True).run(p)
        x = real(src)
        stats['run'] += 1
        stats['kind-' + m[0]] += 1
        if not same(m, d): stats['kills-dynamic'] += 1
        if len(m[2]) >= 3: stats['log>=3'] += 1
        if not same(m, x):
            stats['MISMATCH'] += 1
            if shown < 6:
                shown += 1
                print("---- MISMATCH\n", src, "\n model:", m[:1] + (m[1] if m[0]=='err' else '',) + (m[2],), "\n real: ", x)
    print(dict(stats))
