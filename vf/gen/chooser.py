"""A small choice interface so that generators are ordinary recursive Python
functions.  Backed by Hypothesis `data.draw` (all randomness stays inside the
library: shrinking and replay work) or, for non-Hypothesis drivers, by a
seeded random.Random.
"""
import random

from hypothesis import strategies as st


class Chooser:
    def __init__(self, draw):
        self._draw = draw

    def int(self, lo, hi):
        if hi <= lo:
            return lo
        return self._draw(st.integers(lo, hi))

    def bool(self, p=0.5):
        # shrinks towards False
        if p >= 1:
            return True
        if p <= 0:
            return False
        n = 1000
        return self._draw(st.integers(0, n - 1)) >= n - int(p * n)

    def choice(self, seq):
        seq = list(seq)
        return seq[self.int(0, len(seq) - 1)]

    def weighted(self, pairs):
        """pairs: [(weight, value)], shrinks towards the first."""
        total = sum(w for w, _ in pairs)
        k = self.int(0, total - 1)
        for w, v in pairs:
            if k < w:
                return v
            k -= w
        return pairs[-1][1]

    def sample(self, seq, k):
        seq = list(seq)
        out = []
        for _ in range(min(k, len(seq))):
            out.append(seq.pop(self.int(0, len(seq) - 1)))
        return out

    def shuffle(self, seq):
        return self.sample(seq, len(seq))

    def draw(self, strategy):
        return self._draw(strategy)


class RandomChooser(Chooser):
    def __init__(self, seed):
        self.r = random.Random(seed)

    def int(self, lo, hi):
        if hi <= lo:
            return lo
        return self.r.randint(lo, hi)

    def bool(self, p=0.5):
        return self.r.random() < p

    def draw(self, strategy):
        raise NotImplementedError


class TapeChooser(Chooser):
    """Choices read from a fixed-size byte string drawn by Hypothesis in one
    go (two bytes per choice; exhausted tape -> smallest choice).  About 20x
    faster than one `draw` per choice, and shrinking the tape (zeroing,
    lowering bytes) moves every choice towards its first alternative."""

    def __init__(self, tape):
        self.tape = tape
        self.i = 0

    def int(self, lo, hi):
        if hi <= lo:
            return lo
        span = hi - lo + 1
        if span > 65536:
            nb = (span.bit_length() + 7) // 8 + 1
            i = self.i
            if i + nb > len(self.tape):
                return lo
            self.i = i + nb
            return lo + int.from_bytes(self.tape[i:i + nb], "big") % span
        i = self.i
        if i + 2 > len(self.tape):
            return lo
        self.i = i + 2
        return lo + ((self.tape[i] << 8) | self.tape[i + 1]) % span

    def bool(self, p=0.5):
        if p >= 1:
            return True
        if p <= 0:
            return False
        return self.int(0, 999) >= 1000 - int(p * 1000)

    def draw(self, strategy):
        raise NotImplementedError


def tapes(size=2000):
    return st.binary(min_size=size, max_size=size)


def from_data(data):
    """Chooser over a Hypothesis `st.data()` object (slow; small cases only)."""
    return Chooser(data.draw)
