"""Reproductions for the C06 hunt.  Run with
   cd /tmp/seed3/C06 && PYTHONPATH=/tmp/seed3/C06/src /venv/bin/python hunt/repro.py
Prints one line per finding: FINDING <n>: <VIOLATES|HOLDS> <description>
(VIOLATES = the behaviour described in FINDINGS.md is still observed)."""
import signal
from ckl.interpreter import Interpreter
from ckl.errors import CklRuntimeError, CklSyntaxError


class Timeout(Exception):
    pass


def _alarm(signum, frame):
    raise Timeout()


signal.signal(signal.SIGALRM, _alarm)


def run(src, legacy=True):
    """returns ('ok', repr) / ('ckl', msg) / ('exc', text)"""
    it = Interpreter(secure=False, legacy=legacy)
    signal.alarm(10)
    try:
        return ("ok", repr(it.interpret(src, "repro.ckl")))
    except (CklRuntimeError, CklSyntaxError) as e:
        return ("ckl", str(e.msg))
    except Timeout:
        return ("exc", "timeout")
    except Exception as e:  # host exception leaking out of the interpreter
        return ("exc", type(e).__name__ + ": " + str(e))
    finally:
        signal.alarm(0)


def check(n, desc, probes):
    """probes: list of (source, expected-if-property-holds).  VIOLATES if any
    probe, in either interpreter mode, gives something else."""
    bad = []
    for src, want in probes:
        for legacy in (True, False):
            got = run(src, legacy)
            if got != ("ok", want):
                bad.append((src, got))
                break
    print(f"FINDING {n}: {'VIOLATES' if bad else 'HOLDS'} {desc}")
    for src, got in bad:
        shown = src if len(src) < 160 else src[:60] + " ... " + src[-80:]
        print(f"    {shown}\n      -> {got[0]}: {got[1]}")


# 1. an element / key changed in place after insertion
check(1, "value mutated in place after insertion: set holds two equal elements, "
         "membership/lookup/== wrong, map rendering dies with KeyError", [
    # set of lists
    ("def l = [1]; def s = <<l>>; append(l, 2); append(s, [1, 2]); length(s)", "1"),
    ("def l = [1]; def s = <<l>>; append(l, 2); l in s", "TRUE"),
    ("def l = [1]; def s = <<l>>; append(l, 2); s == <<[1, 2]>>", "TRUE"),
    ("def l = [1]; def s = <<l>>; append(l, 2); length(remove(s, l))", "0"),
    # strings are mutable through element assignment
    ("def a = 'abc'; def s = <<a>>; a[0] = 'x'; append(s, 'xbc'); length(s)", "1"),
    ("def a = 'abc'; def s = <<a>>; a[0] = 'x'; [a in s, 'xbc' in s]", "[TRUE, TRUE]"),
    # map keys
    ("def l = [1]; def m = <<<>>>; m[l] = 'x'; append(l, 2); m[[1, 2]] = 'y'; length(m)", "1"),
    ("def k = 'abc'; def m = <<<>>>; m[k] = 1; k[0] = 'x'; 'xbc' in m", "TRUE"),
    ("def k = 'abc'; def m = <<<>>>; m[k] = 1; k[0] = 'x'; string(m)", "'<<<\\'xbc\\' => 1>>>'"),
    # through a loop variable
    ("def s = <<[1], [2]>>; for e in s do e[0] = 3; end; [length(s), [3] in s]", "[1, TRUE]"),
])

# 2. NaN
check(2, "NaN decimal: == is not reflexive, and list/set/contains disagree with ==", [
    ("def n = decimal('nan'); n == n", "TRUE"),
    ("def n = decimal('nan'); [n == n, [n] == [n], <<n>> == <<n>>, n in <<n>>, n in [n], contains([n], n)]",
     "[TRUE, TRUE, TRUE, TRUE, TRUE, TRUE]"),
    ("def i = 1" + "0" * 400 + ".0; def n = i - i; def k = i - i; length(<<n, k>>)", "1"),
])

# 3. NULL written as a map literal key
check(3, "map literal <<<NULL => v>>> has the string 'NULL' as key, lookup with NULL fails", [
    ("<<<NULL => 1>>>[NULL]", "1"),
    ("<<<NULL => 1>>> == map([[NULL, 1]])", "TRUE"),
])

# 4. contains() on an object
check(4, "contains(obj, name) is FALSE for an object where 'name in obj' is TRUE", [
    ("['a' in <*a=1*>, contains(<*a=1*>, 'a')]", "[TRUE, TRUE]"),
])
