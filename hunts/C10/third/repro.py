"""C10, third investigation - reproductions.

Run:  cd /tmp/seed5/C10 && PYTHONPATH=/tmp/seed5/C10/src /venv/bin/python hunt/repro.py
Prints one line per finding: FINDING <n>: <VIOLATES|HOLDS> <description>
Uses only the ckl package and the standard library.
"""
import os
import signal
import tempfile

from ckl.interpreter import Interpreter
from ckl.errors import CklRuntimeError, CklSyntaxError
from ckl.values import ValueList, ValueString


class Timeout(Exception):
    pass


def _alarm(*_):
    raise Timeout()


signal.signal(signal.SIGALRM, _alarm)


def mk(legacy=False, moddir=None):
    it = Interpreter(secure=False, legacy=legacy)
    if moddir:
        lst = ValueList()
        lst.addItem(ValueString(moddir))
        it.base_environment.put("checkerlang_module_path", lst)
    return it


def run(it, src, name="s"):
    """('OK', text) | ('RTE', msg) | ('SYN', msg) | ('HOST', ...)"""
    signal.alarm(10)
    try:
        return ("OK", str(it.interpret(src, name)))
    except CklRuntimeError as e:
        return ("RTE", str(e.msg))
    except CklSyntaxError as e:
        return ("SYN", str(e.msg))
    except Timeout:
        return ("TIMEOUT", "")
    except BaseException as e:  # noqa
        return ("HOST", type(e).__name__ + ": " + str(e))
    finally:
        signal.alarm(0)


def report(n, violated, text):
    print(f"FINDING {n}: {'VIOLATES' if violated else 'HOLDS'} {text}")


def guarded(n, text, fn):
    try:
        report(n, fn(), text)
    except BaseException as e:  # noqa
        print(f"FINDING {n}: ERROR probe raised {type(e).__name__}: {e} ({text})")


# --------------------------------------------------------------------------
# 1. assignments / definitions made while the header of a for loop is
#    evaluated are rolled back when they concern the loop variable's name
def finding1():
    bad = []
    for legacy in (False, True):
        # (a) failing call: the assignment precedes the point of failure
        it = mk(legacy)
        run(it, "def a = 1")
        r = run(it, "for a in (do a = 5; [1/0] end) do NULL end")
        v = run(it, "a")
        if r[0] == "RTE" and v != ("OK", "5"):
            bad.append(("failing header", legacy, v))
        # (b) successful call: a function called in the header assigns the global
        it = mk(legacy)
        run(it, "def n = 0")
        run(it, "def next_batch() do n = n + 1; [n, n] end")
        run(it, "for n in next_batch() do NULL end")
        v = run(it, "n")
        if v != ("OK", "1"):
            bad.append(("function in header", legacy, v))
        # control: any other loop variable keeps the assignment
        it = mk(legacy)
        run(it, "def n = 0")
        run(it, "def next_batch() do n = n + 1; [n, n] end")
        run(it, "for k in next_batch() do NULL end")
        assert run(it, "n") == ("OK", "1")
        # control: a comprehension with the same shape keeps it
        it = mk(legacy)
        run(it, "def a = 1")
        run(it, "[a for a in (do a = 5; [1, 2] end)]")
        assert run(it, "a") == ("OK", "5")
    return bool(bad)


# 2. a failed `def class` with a doc string rewrites the doc strings of the
#    existing values its members were initialised with
def finding2():
    bad = []
    for legacy in (False, True):
        it = mk(legacy)
        run(it, "'doc f' def f(x) x")
        run(it, "'doc lst' def lst = [1, 2]")
        r = run(it, "'class doc' def class K do def m = f; def l = lst; def n = 1/0 end")
        k = run(it, "K")
        i1 = run(it, "info(f)")
        i2 = run(it, "info(lst)")
        if r[0] == "RTE" and k[0] == "RTE" and (i1 != ("OK", "'doc f'") or i2 != ("OK", "'doc lst'")):
            bad.append((legacy, i1, i2))
    return bool(bad)


# 3. (doubtful) a failing destructuring assignment is half performed
def finding3():
    it = mk()
    run(it, "def a = 0")
    r = run(it, "[a, zz] = [1, 2]")
    v = run(it, "a")
    it2 = mk()
    run(it2, "def a = 0")
    r2 = run(it2, "[zz, a] = [1, 2]")
    v2 = run(it2, "a")
    # the same failing statement leaves a changed or unchanged depending on the order of the names
    return r[0] == "RTE" and r2[0] == "RTE" and v == ("OK", "1") and v2 == ("OK", "0")


# 4. (doubtful) a module with a syntax error makes `require` raise CklSyntaxError in the middle of
#    a running call: it is the only syntax error that arrives after part of the call has run,
#    and `catch all` cannot intercept it (run() of such a file was repaired to a runtime error)
def finding4():
    d = tempfile.mkdtemp()
    with open(os.path.join(d, "synerr.ckl"), "w") as f:
        f.write("def s1 = 1; def = ;")
    with open(os.path.join(d, "synerr.txt"), "w") as f:
        f.write("def s1 = 1; def = ;")
    it = mk(False, d)
    r = run(it, "def before = 1; require synerr; def after = 2")
    b = run(it, "before")
    c = run(it, "do require synerr catch all 'caught' end")
    c2 = run(it, "do run('%s/synerr.txt') catch all 'caught' end" % d)
    return r[0] == "SYN" and b == ("OK", "1") and c[0] == "SYN" and c2 == ("OK", "'caught'")


guarded(1, "binding of the loop variable's name made while the for header is evaluated "
           "(a = 5 before the failure / n = n + 1 in a function) is rolled back after the loop", finding1)
guarded(2, "failed `'doc' def class K do def m = f; ...; def n = 1/0 end` defines nothing but "
           "replaces info(f) and info(lst) of the existing values used as members", finding2)
guarded(3, "(doubtful) failing `[a, zz] = [1, 2]` has already assigned a; `[zz, a] = [1, 2]` has not", finding3)
guarded(4, "(doubtful) `require` of a module with a syntax error raises CklSyntaxError after part of "
           "the call ran and passes `catch all` (run() raises a catchable runtime error)", finding4)
