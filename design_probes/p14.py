import re, random, io, sys
sys.path.insert(0, '/tmp/probe')
from ck import run
from ckl.lexer import Lexer
src = open('/repo/tests/test_interpreter.py').read()
progs = re.findall(r'interpreter_test\(\s*"((?:[^"\\]|\\.)*)"\s*,', src)
progs = [bytes(p, 'utf-8').decode('unicode_escape') for p in progs]
print(len(progs))
def render(tok):
    v, t = tok.value, tok.type
    if t == 'string':
        return "'" + v.replace("\\","\\\\").replace("'","\\'").replace("\n","\\n").replace("\r","\\r").replace("\t","\\t") + "'"
    return v
r = random.Random(5)
seps = [" ", "\t", "\n", "\r\n", "  ", " # c\n", "\n\n", " #\n"]
bad = 0
for p in progs:
    try:
        toks = Lexer(p, "x").scan().tokens
    except Exception: continue
    base = run(" ".join(render(t) for t in toks))
    base0 = run(p)
    if base != base0 and 'pos=' not in base: print("CANON DIFF", repr(p), base0, base)
    for k in range(6):
        s = ""
        for t in toks:
            s += render(t) + r.choice(seps)
        out = run(s)
        def strip(o): return re.sub(r"pos=\S+|st=\[.*\]|t:\d+:-?\d+", "", o)
        if strip(out) != strip(base):
            bad += 1
            print("DIFF", repr(s), "\n   ", base, "\n   ", out)
            break
print("bad", bad)
