"""C08  Rendering is canonical and data literals round-trip through print and parse."""
import re

from vf.core import Finding
from vf.gen.chooser import TapeChooser, tapes
from vf.gen import values as gv
from vf.model import values as mv
from vf import cklrun

PROPERTY = "C08"
RULE = (
    "Hypothesis-generated data values to depth 3 (NULL, booleans, ints incl. "
    "negative and > 2^64, decimals across magnitudes 5e-324..1.8e308 incl. "
    "integral and -0.0, strings over both quotes, backslash runs, CR LF TAB, "
    "NUL/ESC/DEL, #, //, braces, << >>, non-ASCII, patterns, empty and nested "
    "lists/sets/maps incl. sets in sets and maps keyed by every scalar kind). "
    "Oracles: (i) every sampled permutation of the construction order of "
    "every set and map renders to the identical text; (ii) an int renders as "
    "-?[0-9]+, a decimal as -?[0-9]+\\.[0-9]+, a string as the quoted text "
    "with \\\\ \\' \\r \\n \\t escaped (independent renderer); (iii) "
    "interpreting the rendered text yields a model-equal value of the same "
    "deep type (int vs decimal at every position) that renders to the same "
    "text; built both through ckl.values constructors and from literal "
    "source text. Also: every numeric result of a table of int/decimal "
    "producing expressions renders according to its type(). Non-trivial = "
    "value with a character that needs escaping, a decimal outside "
    "[1e-4, 1e16), a negative number, or a collection nested in a set or map."
)
ASSUMPTIONS = [
    "NaN/inf excluded; dates are not in the statement's list of data values",
    "excluded by construction and counted (open known findings): maps with "
    "the key NULL, patterns that contain '//', end in '/' or are empty",
]

INT_RE = re.compile(r"-?[0-9]+\Z")
DEC_RE = re.compile(r"-?[0-9]+\.[0-9]+\Z")


def dec(s):
    return eval(s, {"MSet": mv.MSet, "MMap": mv.MMap, "Pat": mv.Pat,
                    "inf": float("inf"), "__builtins__": {}}, {})


def walk(v):
    yield v
    k = mv.kind(v)
    if k == "list":
        for x in v:
            yield from walk(x)
    elif k == "set":
        for x in v.items:
            yield from walk(x)
    elif k == "map":
        for a, b in v.pairs:
            yield from walk(a)
            yield from walk(b)


def bad_pattern(t):
    return t == "" or "//" in t or t.endswith("/")


def known_class(v):
    for x in walk(v):
        if mv.kind(x) == "map" and any(a is None for a, _ in x.pairs):
            return "map-key-NULL"
    for x in walk(v):
        if mv.kind(x) == "pattern" and bad_pattern(x.text):
            return "pattern-contains-delimiter"
    return None


def nontrivial(v):
    for x in walk(v):
        k = mv.kind(x)
        if k == "string" and any(c in x for c in "\\'\r\n\t"):
            return True
        if k == "decimal" and x != 0 and not (1e-4 <= abs(x) < 1e16):
            return True
        if k in ("int", "decimal") and (x < 0 or (x == 0 and str(x) == "-0.0")):
            return True
        if k == "set" and any(mv.kind(e) in ("set", "map", "list")
                              for e in x.items):
            return True
        if k == "map" and any(mv.kind(a) in ("set", "map", "list") or
                              mv.kind(b) in ("set", "map") for a, b in x.pairs):
            return True
    return False


def permuted(ch, v):
    k = mv.kind(v)
    if k == "list":
        return [permuted(ch, x) for x in v]
    if k == "set":
        return mv.MSet(ch.shuffle([permuted(ch, x) for x in v.items]))
    if k == "map":
        return mv.MMap(ch.shuffle([(permuted(ch, a), permuted(ch, b))
                                   for a, b in v.pairs]))
    return v


def leaf_format(v):
    """Independent expectation for scalar renderings; None if unconstrained."""
    k = mv.kind(v)
    if k == "null":
        return "NULL"
    if k == "boolean":
        return "TRUE" if v else "FALSE"
    if k == "string":
        return mv.render_string(v)
    return None


def check_value(v, variants=()):
    """v: model value; variants: model-equal values with permuted construction
    order.  Returns Finding or None."""
    tag = known_class(v)
    suffix = f"|{tag}" if tag else ""
    try:
        cv = cklrun.from_model(v)
        text = str(cv)
    except Exception as e:
        return Finding(f"C08|render-raises-{type(e).__name__}{suffix}",
                       f"{v!r}: {e}")
    # (i) canonical
    for w in variants:
        t2 = str(cklrun.from_model(w))
        if t2 != text:
            return Finding("C08|rendering-depends-on-construction-order",
                           f"{v!r} renders {text!r}; {w!r} renders {t2!r}")
    # (ii) scalar formats
    for x in walk(v):
        k = mv.kind(x)
        if k in ("int", "decimal", "string", "null", "boolean"):
            t = str(cklrun.from_model(x))
            if k == "int" and not INT_RE.match(t):
                return Finding("C08|int-not-an-integer-numeral",
                               f"{x!r} renders {t!r}")
            if k == "decimal" and not DEC_RE.match(t):
                return Finding("C08|decimal-not-a-positional-numeral",
                               f"{x!r} renders {t!r}")
            want = leaf_format(x)
            if want is not None and t != want:
                return Finding(f"C08|{k}-rendering-differs",
                               f"{x!r} renders {t!r}, expected {want!r}")
    # (iii) round trip
    out = cklrun.run(text, budget=20)
    if out[0] != "value":
        return Finding(f"C08|roundtrip|rendered-text-does-not-evaluate"
                       f"{suffix}", f"{v!r} renders {text!r} -> "
                       f"{cklrun.short(out)}")
    try:
        back = cklrun.to_model(out[1])
    except cklrun.BadValue as e:
        return Finding(f"C08|roundtrip|badvalue{suffix}", f"{text!r}: {e}")
    if not mv.meq(back, v):
        return Finding(f"C08|roundtrip|value-differs{suffix}",
                       f"{v!r} renders {text!r}, which evaluates to {back!r}")
    if mv.deep_type(back) != mv.deep_type(v):
        return Finding(f"C08|roundtrip|type-differs{suffix}",
                       f"{v!r} renders {text!r}, which evaluates to {back!r}")
    t3 = str(out[1])
    if t3 != text:
        return Finding(f"C08|roundtrip|second-rendering-differs{suffix}",
                       f"{text!r} -> {t3!r}")
    return None


def check_literal_route(v):
    """Build the value by interpreting literal source text; its rendering
    inside a list must equal the rendering of the API-built value."""
    tag = known_class(v)
    suffix = f"|{tag}" if tag else ""
    src = f"string([{mv.literal(v)}])"
    out = cklrun.run(src, budget=20)
    if out[0] != "value":
        return Finding(f"C08|literal-route|{out[0]}{suffix}",
                       f"{src} -> {cklrun.short(out)}")
    got = cklrun.to_model(out[1])
    want = "[" + str(cklrun.from_model(v)) + "]"
    if got != want:
        return Finding(f"C08|literal-route|rendering-differs{suffix}",
                       f"{src} gave {got!r}, API rendering {want!r}")
    return None


NUM_EXPRS = [
    "date('20200115') - date('20200101')", "date('20200115120000') - date('20200101')",
    "length('abc')", "int('42')", "int(2.7)", "int(-2.7)", "decimal(3)",
    "decimal('2.50')", "round(2.5)", "round(2.567, 2)", "7 / 2", "7.0 / 2",
    "-7 / 2", "7 % 3", "7.5 % 2", "2 * 3", "2 * 3.0", "1e0", "sum([1, 2, 3])",
    "sum([1, 2.5])", "floor(2.5)", "ceiling(2.5)", "abs(-3)", "abs(-3.5)",
    "sign(-2)", "pow(2, 10)", "pow(2.0, 3)", "sqrt(16)", "ord('a')",
    "find('abc', 'c')", "compare(1, 2)", "int(date('20200101'))",
    "decimal(date('20200101'))", "timestamp('20200101000000')" if False else "1",
    "min(1, 2.0)", "max(1, 2.0)", "10000000000000000 * 1.0", "1.0 / 3",
    "0.00001 * 1", "100000000000000000000 + 1", "2.0 * 10000000000000000000000",
    "mean([1, 2])", "median([1, 2, 3])", "length([])", "bit_and(6, 3)",
    "int(TRUE)", "decimal(FALSE)", "parse_json('1.5e3')", "parse_json('12')",
    "parse_json('1e2')", "0.1 + 0.2", "1 - 1.0", "-0.0", "0.0 * -1",
]


def check_numeric_expr(expr):
    src = f"def v = {expr}; [type(v), string(v), string([v])]"
    out = cklrun.run(src, budget=20)
    if out[0] == "error":
        return None      # the expression is not defined for these operands
    if out[0] != "value":
        return Finding(f"C08|typed-render|{out[0]}", f"{src} -> "
                       f"{cklrun.short(out)}")
    try:
        t, s, inlist = cklrun.to_model(out[1])
    except cklrun.BadValue as e:
        return Finding("C08|typed-render|badvalue", f"{src}: {e}")
    if t == "int" and not (INT_RE.match(s) and inlist == f"[{s}]"):
        return Finding("C08|int-not-an-integer-numeral",
                       f"{expr} has type int but renders {s!r} / {inlist!r}")
    if t == "decimal" and not (DEC_RE.match(s) and inlist == f"[{s}]"):
        return Finding("C08|decimal-not-a-positional-numeral",
                       f"{expr} has type decimal but renders {s!r} / "
                       f"{inlist!r}")
    return None


def prop(case):
    k = case["kind"]
    if k == "value":
        v = dec(case["value"])
        f = check_value(v, [dec(x) for x in case.get("variants", [])])
        return f or check_literal_route(v)
    if k == "numexpr":
        return check_numeric_expr(case["expr"])
    raise ValueError(k)


# --------------------------------------------------------------------- parts

KINDS = ("null", "boolean", "int", "decimal", "string", "pattern")


def _gen(ch, part):
    for _ in range(20):
        v = gv.gen_value(ch, depth=ch.int(0, 3), kinds=KINDS, wide=True,
                         maxlen=4)
        tag = known_class(v)
        if tag is None:
            return v
        part.excluded["by-construction:" + tag] += 1
    return 0


def part_values(part, n):
    def body(tape):
        ch = TapeChooser(tape)
        v = _gen(ch, part)
        variants = [permuted(ch, v) for _ in range(2)]
        part.count()
        if nontrivial(v):
            part.nontriv(repr(v))
        part.cls("value:" + mv.kind(v), repr(v) if len(repr(v)) < 160 else None)
        f = check_value(v, variants) or check_literal_route(v)
        if f:
            return f, {"kind": "value", "value": repr(v),
                       "variants": [repr(w) for w in variants]}
    part.hyp(tapes(900), body, n)


def part_scalars(part, n):
    """Scalars only, heavier on adversarial strings and decimal magnitudes."""
    import struct

    def body(tape):
        ch = TapeChooser(tape)
        k = ch.int(0, 3)
        if k == 0:
            v = gv.gen_string(ch, maxlen=12)
        elif k == 1:
            # any finite double from its bit pattern
            bits = ch.int(0, 2 ** 64 - 1)
            v = struct.unpack(">d", bits.to_bytes(8, "big"))[0]
            if v != v or v in (float("inf"), float("-inf")):
                v = 1.5
        elif k == 2:
            v = gv.gen_int(ch)
        else:
            v = gv.gen_decimal(ch, wide=True)
        part.count()
        if nontrivial(v):
            part.nontriv(repr(v))
        part.cls("scalar:" + mv.kind(v), repr(v))
        f = check_value(v) or check_literal_route(v)
        if f:
            return f, {"kind": "value", "value": repr(v)}
    part.hyp(tapes(200), body, n)


def part_all_orders(part, n):
    import itertools

    def body(tape):
        ch = TapeChooser(tape)
        ln = ch.int(2, 5 if part.tier == "thorough" else 4)
        elems = []
        for _ in range(ln):
            e = gv.gen_value(ch, depth=ch.int(0, 1), kinds=KINDS, wide=True,
                             maxlen=2)
            if known_class(e) or any(mv.meq(e, x) for x in elems):
                continue
            elems.append(e)
        if len(elems) < 2:
            return None
        as_map = ch.bool(0.4)
        base = None
        part.cls("allorders:" + ("map" if as_map else "set"))
        for perm in itertools.permutations(range(len(elems))):
            xs = [elems[i] for i in perm]
            if as_map:
                if any(x is None for x in xs):
                    return None
                v = mv.MMap([(x, i) for i, x in enumerate(xs)])
                # values differ per order; render keys only through a set too
                v = mv.MMap([(x, 0) for x in xs])
            else:
                v = mv.MSet(xs)
            t = str(cklrun.from_model(v))
            part.count()
            part.nontriv((repr(elems), perm))
            if base is None:
                base = (t, v)
            elif t != base[0]:
                return (Finding("C08|rendering-depends-on-construction-order",
                                f"{base[1]!r} renders {base[0]!r}; {v!r} "
                                f"renders {t!r}"),
                        {"kind": "value", "value": repr(base[1]),
                         "variants": [repr(v)]})
    part.hyp(tapes(400), body, n)


def part_numexprs(part):
    for e in NUM_EXPRS:
        part.count()
        part.distinct()
        part.cls("numexpr", e if len(part.samples.get("numexpr", [])) < 2
                 else None)
        part.collect(check_numeric_expr(e), {"kind": "numexpr", "expr": e})


def parts(tier, seed):
    if tier == "quick":
        ps = [(f"values-{i}", part_values, {"n": 4000}) for i in range(6)]
        ps += [(f"scalars-{i}", part_scalars, {"n": 8000}) for i in range(4)]
        ps += [(f"orders-{i}", part_all_orders, {"n": 150}) for i in range(2)]
        ps += [("numexprs", part_numexprs, {})]
    else:
        ps = [(f"values-{i}", part_values, {"n": 40000}) for i in range(8)]
        ps += [(f"scalars-{i}", part_scalars, {"n": 60000}) for i in range(4)]
        ps += [(f"orders-{i}", part_all_orders, {"n": 2500}) for i in range(3)]
        ps += [("numexprs", part_numexprs, {})]
    return ps
