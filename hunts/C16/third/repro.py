#!/usr/bin/env python
"""C16 third hunt - reproductions.

Run:  cd /tmp/seed5/C16 && PYTHONPATH=/tmp/seed5/C16/src /venv/bin/python hunt/repro.py [-v]

Prints one line per reported finding:  FINDING <n>: <VIOLATES|HOLDS> <description>
and, after that, CHECK lines for the items of the earlier reports that were
repaired.  Only the ckl package and the standard library are used.
"""
import os
import signal
import sys

sys.path.insert(0, os.path.join(os.path.dirname(os.path.abspath(__file__)), "..", "src"))

from ckl.interpreter import Interpreter            # noqa: E402
from ckl.errors import CklRuntimeError, CklSyntaxError   # noqa: E402

VERBOSE = "-v" in sys.argv


class Timeout(Exception):
    pass


def _alarm(signum, frame):
    raise Timeout()


signal.signal(signal.SIGALRM, _alarm)


def run(src, legacy):
    """Evaluate src on a fresh interpreter, return the rendered result."""
    signal.alarm(5)
    try:
        it = Interpreter(secure=False, legacy=legacy)
        return str(it.interpret(src, "repro.ckl"))
    except CklRuntimeError as e:
        return "CKLERR: " + str(e.msg)
    except CklSyntaxError as e:
        return "SYNERR: " + str(e.msg)
    except Timeout:
        return "TIMEOUT"
    except BaseException as e:          # host exception leaking out
        return "PYEXC: %s: %s" % (type(e).__name__, e)
    finally:
        signal.alarm(0)


def probe(cases):
    """cases: (source, result the statement requires). True if all hold."""
    ok = True
    for src, required in cases:
        for legacy in (True, False):
            got = run(src, legacy)
            good = got == required
            ok = ok and good
            if VERBOSE:
                print("    [%s] %s  ==> %s%s" % (
                    "legacy" if legacy else "base  ", src, got,
                    "" if good else "   (required: %s)" % required))
    return ok


def report(kind, n, holds, text):
    print("%s %s: %s %s" % (kind, n, "HOLDS" if holds else "VIOLATES", text))


# ---------------------------------------------------------------- finding 1
# (doubtful as to scope) break / continue / return reached while the value of
# an element or member assignment, or an argument of a mutator, is evaluated
# do not leave the statement: the mutator runs and stores the control marker
# in the container.  Sibling of repair 0a2a0d8 (def / plain assignment).
f1 = probe([
    # the return is reached first: f() is 5 and l stays [1]
    ("def l = [1]; def f() do l[0] = (return 5); 9 end; [f(), l]", "[5, [1]]"),
    ("def l = [1]; def f() do append(l, (return 5)); 9 end; [f(), l]", "[5, [1]]"),
    ("def m = <<<1 => 2>>>; def f() do put(m, 1, (return 3)); 9 end; [f(), m]", "[3, <<<1 => 2>>>]"),
    ("def o = <*a = 1*>; def f() do o->a = (return 3); 9 end; [f(), o]", "[3, <*a=1*>]"),
    # the break is reached in the first round: one round, nothing appended
    ("def l = []; def n = 0; for i in [1, 2, 3] do n += 1; append(l, do break end) end; [n, length(l)]", "[1, 0]"),
    ("def l = []; def n = 0; for i in [1, 2, 3] do n += 1; insert_at(l, 0, do break end) end; [n, length(l)]", "[1, 0]"),
    # the stored marker acts where the element is read later: g() must be 7
    ("def l = [1]; def f() do l[0] = (return 5); 9 end; f(); def g() do def x = l[0]; 7 end; g()", "7"),
    ("def l = [1]; for i in [1] do l[0] = do break end end; def n = 0; "
     "for j in [1, 2, 3] do n += 1; l[0]; n += 10 end; n", "33"),
    # a loop that appends a 'break' to the list it runs over never ends
    ("def l = [1, 2, 3]; def n = 0; for i in l do n += 1; append(l, (break)) end; n", "1"),
    # control: def and plain assignment were repaired
    ("def f() do def a = (return 5); 9 end; f()", "5"),
])
report("FINDING", 1, f1,
       "(doubtful scope) break/continue/return inside the value of l[i] = .., o->m = .. or an "
       "argument of append/insert_at/put do not leave the statement; the marker is stored in the container")

# ---------------------------------------------------------------- finding 2
# (doubtful, same root cause as the name part of the first report's item 4)
# non-mutating library functions written in the language bind their argument
# or its elements with def, which renames function values: the caller's
# functions, the rendering of the caller's list, and the iteration order of
# any set holding them change.
f2 = probe([
    ("def f(x) x; def l = [f]; min(l); string(l)", "'[<#f>]'"),
    ("require List; def f(x) x; def l = [f]; List->filter(l, fn(v) TRUE); string(l)", "'[<#f>]'"),
    ("require List; def f(x) x; def l = [f]; List->unique(l); string(l)", "'[<#f>]'"),
    ("require List; def f(x) x; def l = [f, 1]; List->reduce(l, fn(a, b) a); string(l)", "'[<#f>, 1]'"),
    # a set that was not even passed changes its iteration order
    ("def a(x) 1; def b(x) 2; def s = <<a, b>>; def before = [k(0) for k in s]; min([a]); "
     "[before, [k(0) for k in s]]", "[[1, 2], [1, 2]]"),
    # a library function is renamed for the whole interpreter
    ("require List; List->filter([List->first], fn(v) TRUE); string(List->first)", "'<#first>'"),
    # control: passing a function as a parameter or looping over it renames nothing
    ("def f(x) x; def h(g) g; h(f); for k in [f] do k end; string(f)", "'<#f>'"),
])
report("FINDING", 2, f2,
       "(doubtful, root cause of earlier item 4/name) min, max, filter, unique, reduce, prod rename the "
       "functions in their argument (def inside the library), changing string(l) and set iteration order")

# ----------------------------------- repaired items of the earlier reports
c3 = probe([
    ("def l = [1, 2]; def c = chunks(l, 5); append(c[0], 9); l", "[1, 2]"),
    ("def l = [1, 2, 3, 4]; def c = chunks(l, 4); append(c[0], 9); l", "[1, 2, 3, 4]"),
])
report("CHECK", "first-3", c3, "chunks() never puts the caller's list into its result")

c4 = probe([
    ("def f(x) x; def s = <<f>>; def g = f; [f in s, g in s]", "[TRUE, TRUE]"),
    ("def f(x) x; def m = <<<>>>; m[f] = 1; def g = f; [m[f], m[g], f in m]", "[1, 1, TRUE]"),
    ("def f(x) x; def s = <<f>>; def [g, h] = [f, f]; remove(s, h); length(s)", "0"),
    ("\"doc\" def f(x) x; def g = f; info(f)", "'doc'"),
    ("\"hello\" def x = NULL; info(NULL)", "''"),
])
report("CHECK", "first-4", c4, "def g = f no longer damages a set / map holding f nor erases its doc string")

c5 = probe([
    ("def o = <*a=1, b=2*>; for v in values o do o->c = 5; end; o", "<*a=1, b=2, c=5*>"),
    ("def o = <*a=1, b=2, c=3*>; for k in keys o do remove(o, k) end; o", "<**>"),
])
report("CHECK", "first-5", c5, "members can be added / removed while a for loop runs over the object")

c1 = probe([
    ("def l = [1]; def m = <<<>>>; m[l] = 'v'; append(l, 2); string(m)", "'<<<[1, 2] => \\'v\\'>>>'"),
])
report("CHECK", "first-1/KeyError", c1, "rendering a map whose key was changed in place raises no host KeyError")

c6 = probe([
    ("def items = 5; def class C do def items = []; def add(self, x) x end; [items, 1 + 2]",
     "[5, 3]"),
    ("def i = 5; for i in [1, 2] do 1 end; i", "5"),
])
report("CHECK", "second-notes", c6, "class members are not bound in the enclosing scope; a for loop restores its variable")
