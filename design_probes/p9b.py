import sys, os, io, shutil, tempfile, collections, signal
def _h(*a): raise TimeoutError()
signal.signal(signal.SIGALRM, _h)
events = []
ON = [False]
def hook(ev, args):
    if ON[0] and (ev in ("open","os.listdir","os.scandir","os.mkdir","os.remove","os.rmdir","os.rename","os.system","subprocess.Popen","shutil.copyfile","shutil.copymode","shutil.copystat","shutil.move","shutil.rmtree","os.exec","os.posix_spawn","os.fork","os.chmod","os.truncate","os.symlink","os.link","os.utime","os.chdir","os.putenv","pty.spawn") or ev.startswith("os.spawn") or ev.startswith("shutil.")):
        events.append((ev, tuple(str(a)[:60] for a in args[:2])))
sys.addaudithook(hook)
from ckl.interpreter import Interpreter
import ckl.functions as F, inspect, re
from ckl.values import *
from ckl.errors import *
names = re.findall(r'native == "([^"]+)"', inspect.getsource(F.bind_native))
base = tempfile.mkdtemp()
def reset():
    shutil.rmtree(base, ignore_errors=True); os.makedirs(base + "/d/sub"); open(base + "/d/f.txt","w").write("hello\n"); open(base + "/d/s.ckl","w").write("1+1")
it = Interpreter(False, True); it.setStandardOutput(io.StringIO())
from ckl.values import StringInput
it.setStandardInput(StringInput(""))
env = it.environment
D = {}
argsets = [ [base+"/d/f.txt"], [base+"/d"], [base+"/d/f.txt", base+"/d/g.txt"], [base+"/d/new"], ["/bin/true", []], [base+"/d/s.ckl"] ]
statlog = []
import os.path
orig_stat, orig_lstat = os.stat, os.lstat
def wstat(p, *a, **k):
    if ON[0]: statlog.append(("stat", str(p)[:60]))
    return orig_stat(p, *a, **k)
def wlstat(p, *a, **k):
    if ON[0]: statlog.append(("lstat", str(p)[:60]))
    return orig_lstat(p, *a, **k)
os.stat, os.lstat = wstat, wlstat
funcs = {}
for s in env.getSymbols():
    v = env.get(s)
    if v.isFunc(): funcs[s] = v
funcs["run"] = env.get("run")
for name, fn in sorted(funcs.items()):
    if name in ("read","readln","read_all"): continue
    for a in argsets:
        reset(); del events[:]; del statlog[:]
        argv = []
        for x in a:
            if isinstance(x, list): argv.append(ValueList())
            else: argv.append(ValueString(x))
        argnames = [n for n in fn.getArgNames() if not n.endswith("...")]
        if len(argv) > len(argnames): continue
        ar = Args(None); ar.addArgs(fn.getArgNames()); 
        try:
            ar.setArgs([None]*len(argv), argv)
            ON[0] = True
            signal.setitimer(signal.ITIMER_REAL, 1.0)
            fn.execute(ar, env, None)
        except BaseException as e:
            pass
        finally:
            signal.setitimer(signal.ITIMER_REAL, 0)
            ON[0] = False
        ev = [e for e in events if not (e[0]=="open" and e[1][0].endswith(".ckl") and "modules" in e[1][0])]
        if ev or statlog:
            D.setdefault(name, set()).update([e[0] for e in ev] + [s[0] for s in statlog])
for k,v in sorted(D.items()): print(k, type(funcs[k]).__name__, getattr(funcs[k],'secure',None), sorted(v))
shutil.rmtree(base)
