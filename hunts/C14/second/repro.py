#!/usr/bin/env python
"""C14 second hunt: reproductions.  Run with
   cd /tmp/seed4/C14 && PYTHONPATH=/tmp/seed4/C14/src /venv/bin/python hunt/repro.py
Prints one line per finding: FINDING <n>: <VIOLATES|HOLDS> <description>.
Uses only the ckl package and the standard library."""
import io
import os
import signal
import subprocess
import sys

from ckl.interpreter import Interpreter
from ckl.errors import CklRuntimeError, CklSyntaxError


class Timeout(Exception):
    pass


def _alarm(*_):
    raise Timeout()


signal.signal(signal.SIGALRM, _alarm)


def run(src, legacy):
    """Observable behaviour: (kind, result-or-error-value, output)."""
    it = Interpreter(secure=False, legacy=legacy)
    out = io.StringIO()
    it.setStandardOutput(out)
    signal.alarm(10)
    try:
        v = it.interpret(src, "t.ckl")
        r = ("ok", repr(v))
    except CklRuntimeError as e:
        r = ("runtime-error", repr(e.value))
    except CklSyntaxError:
        r = ("syntax-error", "")
    except Timeout:
        r = ("timeout", "")
    except RecursionError:
        r = ("python-exception", "RecursionError")
    except Exception as e:  # an internal Python exception escaping
        r = ("python-exception", type(e).__name__)
    finally:
        signal.alarm(0)
    return r + (out.getvalue(),)


def differs(*srcs):
    """True if the renderings do not all behave identically (in any mode)."""
    for legacy in (True, False):
        rs = [run(s, legacy) for s in srcs]
        if any(r != rs[0] for r in rs):
            return True
    return False


def repl(lines):
    """Feeds lines to the ckl REPL, returns its stdout (None on timeout)."""
    env = dict(os.environ)
    src = os.path.dirname(os.path.dirname(os.path.abspath(
        sys.modules["ckl.interpreter"].__file__)))
    env["PYTHONPATH"] = src + os.pathsep + env.get("PYTHONPATH", "")
    try:
        p = subprocess.run(
            [sys.executable, "-m", "ckl.repl"],
            input="".join(line + "\n" for line in lines) + "exit\n",
            capture_output=True, text=True, timeout=20, env=env)
    except subprocess.TimeoutExpired:
        return None
    return p.stdout.replace("> ", "").replace("+ ", "").strip()


def finding1():
    groups = [
        # value-less return, with redundant parentheses around it
        ["def f(x) do if x then return; 1 end; f(TRUE)",
         "def f(x) do if x then (return); 1 end; f(TRUE)"],
        # ... around the whole if-expression that ends in it
        ["def f(x) do if x then return; 1 end; f(TRUE)",
         "def f(x) do (if x then return); 1 end; f(TRUE)"],
        # ... around a function body / a whole def statement
        ["def f() return; f()", "def f() (return); f()"],
        ["def f() return; f()", "(def f() return); f()"],
        ["return", "(return)"],
    ]
    # control: the same with a value behaves identically
    control = not differs("def f(x) do if x then return 7; 1 end; f(TRUE)",
                          "def f(x) do if x then (return 7); 1 end; f(TRUE)",
                          "def f(x) do (if x then return 7); 1 end; f(TRUE)")
    n = sum(differs(*g) for g in groups)
    return n > 0 and control, "%d/%d reproductions differ" % (n, len(groups))


def finding2():
    n = 0
    total = 2
    # 200 redundant parentheses around the literal 1
    if differs("1", "(" * 200 + "1" + ")" * 200):
        n += 1
    # a 60-deep list literal, one redundant pair of parentheses per level
    d = 60
    if differs("length(" + "[" * d + "1" + "]" * d + ")",
               "length(" + "[(" * d + "1" + ")]" * d + ")"):
        n += 1
    return n > 0, "%d/%d reproductions differ" % (n, total)


def finding3():
    n = 0
    total = 2
    a = repl(["def f() do return 5 end", "f()"])
    b = repl(["def f() do", "return 5 end", "f()"])
    if a != b:
        n += 1
    a = repl(["1 + 2 # one"])
    b = repl(["1 + # one", "2"])      # never evaluates: the comment swallows
    if a != b:                        # every continuation line
        n += 1
    return n > 0, "%d/%d reproductions differ" % (n, total)


FINDINGS = [
    (1, "redundant parentheses around a value-less 'return' (or around an "
        "expression / def ending in one) are a syntax error", finding1),
    (2, "[doubtful] deeply nested redundant parentheses exhaust the host "
        "recursion limit in the parser ('Maximum recursion depth exceeded')",
     finding2),
    (3, "[doubtful, REPL front end only] a line break between tokens typed "
        "into the REPL is dropped when continuation lines are joined",
     finding3),
]

for num, desc, fn in FINDINGS:
    try:
        bad, detail = fn()
    except Exception as e:  # keep going
        bad, detail = False, "probe failed: %r" % (e,)
    print("FINDING %d: %s %s (%s)" % (
        num, "VIOLATES" if bad else "HOLDS", desc, detail))
