#!/usr/bin/env python
"""Reproductions for the second C07 hunt (comparison is a total order, sorting
and set/map enumeration agree with it).

Run:  cd /tmp/seed4/C07 && PYTHONPATH=/tmp/seed4/C07/src /venv/bin/python hunt/repro.py
Prints one line per finding: FINDING <n>: <VIOLATES|HOLDS> <short description>
(indented lines below a finding are details).
"""
import signal


class Timeout(Exception):
    pass


def _alarm(signum, frame):
    raise Timeout()


signal.signal(signal.SIGALRM, _alarm)

from ckl.interpreter import Interpreter  # noqa: E402
from ckl.errors import CklRuntimeError, CklSyntaxError  # noqa: E402


def run(src, legacy=True, seconds=10):
    """("ok", text) | ("rte", msg) | ("syn", msg) | ("pyexc", repr) |
    ("timeout", "")"""
    signal.alarm(seconds)
    try:
        it = Interpreter(secure=False, legacy=legacy)
        return ("ok", str(it.interpret(src, "repro.ckl")))
    except CklRuntimeError as e:
        return ("rte", str(e.msg))
    except CklSyntaxError as e:
        return ("syn", str(e.msg))
    except Timeout:
        return ("timeout", "")
    except Exception as e:  # a raw Python exception escaping the interpreter
        return ("pyexc", repr(e))
    finally:
        signal.alarm(0)


def check(cases, details):
    bad = False
    for src, expected in cases:
        for legacy in (True, False):
            kind, out = run(src, legacy)
            if (kind, out) != ("ok", expected):
                bad = True
                details.append(
                    f"{src}  =>  {out if kind == 'ok' else kind + ': ' + out}"
                    f"   (required: {expected}) [legacy={legacy}]")
                break
    return bad


def report(n, violates, text, details):
    print(f"FINDING {n}: {'VIOLATES' if violates else 'HOLDS'} {text}")
    for d in details:
        print(f"    {d}")


# ---------------------------------------------------------------- finding 1
def finding1():
    # a map key that is a list and is changed after it was put into the map
    pre = ("def k = [1]; def m = <<<[2] => 'b', [0] => 'c'>>>; m[k] = 'a'; "
           "k[0] = 3; ")
    pre2 = ("def k = [1]; def m = <<<[2] => 'b', [0] => 'c'>>>; m[k] = 'a'; "
            "k[0] = 2; ")
    details = []
    cases = [
        # sanity: this form of key enumeration works and is ordered
        (pre + "[x for x in keys m]", "[[0], [2], [3]]"),
        # all of these die with a raw Python KeyError
        (pre + "def r = []; for x in keys m do append(r, x) end; r",
         "[[0], [2], [3]]"),
        (pre + "[x[0] for x in entries m]", "[[0], [2], [3]]"),
        (pre + "[x for x in values m]", "['c', 'b', 'a']"),
        (pre + "string(m)",
         "'<<<[0] => \\'c\\', [2] => \\'b\\', [3] => \\'a\\'>>>'"),
        (pre + "def f(a, b, c) [a, b, c]; f(...m)", "['c', 'b', 'a']"),
        # ... which the language cannot catch
        (pre + "do string(m); 'no error' catch all 'caught' end",
         "'caught'"),
        # key changed so that it equals another key: no crash, but the
        # enumerations disagree with each other (3 keys, 2 entries) and the
        # value 'a' is replaced by a second 'b'
        (pre2 + "[length(m), length([x for x in keys m]), "
                "length([x for x in entries m]), [x for x in values m]]",
         "[3, 3, 3, ['c', 'b', 'a']]"),
    ]
    bad = check(cases, details)
    report(1, bad,
           "(doubtful) a map with a list key that was modified after "
           "insertion cannot be enumerated: for/keys, values, entries, "
           "string(), spread and object() raise an uncatchable Python "
           "KeyError (or silently pair the key with another key's value), "
           "while '[x for x in keys m]' still works", details)


# ------------------------------------------------- repaired items re-check
def repaired():
    details = []
    cases = [
        # earlier finding 2: sorted() defaults looked up in the caller scope
        ("def f(lst) do def identity = fn(x) 0; sorted(lst) end; "
         "f([3, 1, 2])", "[1, 2, 3]"),
        ("def mysort(lst, compare) sorted(lst); "
         "mysort([3, 1, 2], fn(a, b) 0)", "[1, 2, 3]"),
        ("def f(fs) [sorted([3, 1, 2]) for compare in fs]; "
         "f([fn(a, b) 0])", "[[1, 2, 3]]"),
        ("def f(lst, identity) sorted(lst); f([3, 1, 2], 5)", "[1, 2, 3]"),
        ("def f(compare = 1) sorted([2, 1]); f()", "[1, 2]"),
        # older repairs that concern this property
        ("[FALSE < TRUE, sorted([TRUE, FALSE]), list(<<TRUE, FALSE>>)]",
         "[TRUE, [FALSE, TRUE], [FALSE, TRUE]]"),
        ("['\\'' < '(', '&' < '\\'', sorted(['(', '\\'', '&'])]",
         "[TRUE, TRUE, ['&', '\\'', '(']]"),
        ("[v for v in values <<<3 => 'c', 1 => 'z', 2 => 'a'>>>]",
         "['z', 'a', 'c']"),
        ("[...<<<3 => 'c', 1 => 'z', 2 => 'a'>>>]", "[1, 2, 3]"),
        ("def f(a, b, c) [a, b, c]; def s = <<3, 1, 2>>; f(...s)", "[1, 2, 3]"),
        ("sorted([3, 1, 2], key = fn(r...) -r...[0])", "[3, 2, 1]"),
        ("sorted([2, 1], cmp = fn(a, b) 'x')", None),
    ]
    bad = False
    for src, expected in cases:
        for legacy in (True, False):
            kind, out = run(src, legacy)
            if expected is None:
                ok = kind == "rte"
            else:
                ok = (kind, out) == ("ok", expected)
            if not ok:
                bad = True
                details.append(f"{src}  =>  {kind}: {out} "
                               f"(required: {expected}) [legacy={legacy}]")
                break
    print("    note: re-check of the items repaired after the first hunt: "
          + ("SOME STILL FAIL" if bad else "all hold"))
    for d in details:
        print(f"        {d}")


if __name__ == "__main__":
    for f in (finding1, repaired):
        try:
            f()
        except Exception as e:  # never let one probe hide the others
            print(f"    probe {f.__name__} raised {e!r}")
