#!/usr/bin/env python
"""Reproductions for the second C18 hunt (string algebra / s / sprintf).

Run:  cd /tmp/seed4/C18 && PYTHONPATH=/tmp/seed4/C18/src /venv/bin/python hunt/repro.py
Prints one line per finding: FINDING <n>: <VIOLATES|HOLDS> <description>
(VIOLATES = the reported behaviour is reproduced; both findings are classified
"doubtful" in FINDINGS.md), followed by REPAIRED-CHECK lines for the items of the
first investigation that were repaired.
"""
import signal

from ckl.interpreter import Interpreter
from ckl.errors import CklRuntimeError, CklSyntaxError


class Timeout(Exception):
    pass


def _alarm(signum, frame):
    raise Timeout()


signal.signal(signal.SIGALRM, _alarm)


def run(code, legacy=True):
    it = Interpreter(secure=False, legacy=legacy)
    signal.alarm(10)
    try:
        v = it.interpret(code, "repro.ckl")
        if v.isString() or v.isInt() or v.isBoolean():
            return v.value
        return repr(v)
    except (CklRuntimeError, CklSyntaxError) as e:
        return ("ERR", e.msg)
    except Timeout:
        return ("ERR", "timeout")
    except Exception as e:  # host exception
        return ("HOSTEXC", type(e).__name__, str(e))
    finally:
        signal.alarm(0)


def report(n, violated, text):
    print(f"FINDING {n}: {'VIOLATES' if violated else 'HOLDS'} {text}")


# 1. zero flag applied to a *string* value that starts with '-': the zeroes are
#    put inside the value, the rendered value is no longer part of the output
cases = [
    ("def x = '-abc'; s('{x#06}')", "-abc"),
    ("def x = '-'; s('{x#03}')", "-"),          # '-00'; contains '-' trivially, see below
    ("def x = '--5'; s('{x#05}')", "--5"),
    ("sprintf('{0#06}', '-a b')", "-a b"),
]
res = [(c, run(c), run(c, legacy=False), want) for c, want in cases]
viol = all(isinstance(a, str) and a == b and (want not in a or a.startswith("-0"))
           for c, a, b, want in res)
report(1, viol, "zero padding of a string value starting with '-' inserts the "
       "zeroes into the value: " + "; ".join(f"{c} -> {a!r}" for c, a, b, w in res))

# 2. replace() / string() hand back the argument object itself when there is
#    nothing to do; element assignment on the "result" then changes the argument
cases = [
    "def a = 'abc'; def b = replace(a, 'x', 'y'); b[0] = 'Z'; a",
    "def a = 'abc'; def b = replace(a, '', 'y'); b[0] = 'Z'; a",
    "def a = 'abc'; def b = string(a); b[0] = 'Z'; a",
]
res = [(c, run(c), run("require String; " + c.replace("replace(", "String->replace("),
                       legacy=False)) for c in cases]
fresh = run("def a = 'abc'; def b = trim(a); b[0] = 'Z'; a")
viol = all(a == "Zbc" and b == "Zbc" for c, a, b in res) and fresh == "abc"
report(2, viol, "result of replace()/string() aliases the argument (other string "
       "functions return fresh strings): "
       + "; ".join(f"{c} -> {a!r}" for c, a, b in res)
       + f"; with trim -> {fresh!r}")

# ---------------------------------------------------------------------------
# items of the first investigation that were repaired: do they hold now?
checks = [
    ("zero padding after the sign",
     [("def n = -12; s('{n#05}')", "-0012"),
      ("def n = -255; s('{n#06x}')", "-000ff"),
      ("sprintf('{0#08.3}', -3.14159)", "-003.142"),
      ("def n = -1.5; s('{n#07.2}')", "-0001.5")]),
    ("precision without exponent / ints exact",
     [("def n = 0.0000123; s('{n#.5}')", "0.00001"),
      ("def n = 0.00001234; s('{n#.7}')", "0.0000123"),
      ("def n = 12345678901234567890; s('{n#.2}')", "12345678901234567890.0"),
      ("def n = 9007199254740993; s('{n#.2}')", "9007199254740993.0"),
      ("sprintf('{0#.2}', 10000000000000000.0)", "10000000000000000.0")]),
    ("replace with many occurrences",
     [("length(replace('a' * 5000, 'a', 'b'))", 5000),
      ("length(esc('<' * 3000))", 12000)]),
]
for name, cs in checks:
    ok = True
    for c, want in cs:
        for legacy in (True, False):
            if run(c, legacy) != want:
                ok = False
                print(f"   {c} (legacy={legacy}) -> {run(c, legacy)!r}, want {want!r}")
    print(f"REPAIRED-CHECK: {'HOLDS' if ok else 'STILL FAILS'} {name}")
