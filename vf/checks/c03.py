"""C03  Names resolve lexically and calls bind arguments as declared."""
from vf.core import Finding
from vf.gen.chooser import TapeChooser, tapes
from vf.gen import render as R
from vf.gen import programs as G
from vf.model import eval as ME
from vf.checks.c04 import outcome_of, judge, kills

PROPERTY = "C03"
RULE = (
    "Hypothesis-generated programs composed of randomised scenario fragments, "
    "each instantiated with names from a pool of four (forcing shadowing) and "
    "wrapped in 0-3 extra function scopes: (T1) a free variable read by a "
    "function (or a closure returned from a factory) called from a scope "
    "that re-defines the name; (T2) assignment / compound assignment from a "
    "callee or a nested function to a name bound in its defining and its "
    "calling scope, assignment to an unbound name, def in a function; (T3) "
    "counters, curried and composed functions, closures over parameters, "
    "called after their frame ended, two instances side by side; (T4) "
    "recursion with re-assigned parameters; (T5) defaults referring to a "
    "global that changes between definition and call, to earlier parameters "
    "and with side effects; (T6) the argument-binding matrix {positional, "
    "named, default, rest, list spread, map spread} x {too few, exact, "
    "surplus}; (T7) pipeline calls and method calls through _proto_ chains "
    "of length 3. Every fragment logs what it observes. Oracle: the "
    "reference evaluator. Non-trivial = program whose outcome differs under "
    "at least one of 12 mutant models (dynamic scoping, assignment creates a "
    "local, def updates an outer binding, shared parameter frames, defaults "
    "at definition time / in the caller's scope, positionals bound first, "
    "rest drops an element, spread not in place, pipeline inserts last, "
    "method without receiver, no prototype walk)."
)
ASSUMPTIONS = [
    "not generated because unspecified: loop/comprehension variables "
    "captured by closures, duplicate parameter names, positional after named "
    "arguments, non-string keys in a spread map",
]
MUTANTS = ["dynamic-scope", "assign-creates-local", "def-updates-outer",
           "shared-params", "default-at-definition",
           "default-in-caller-scope", "positional-first", "rest-drops-first",
           "spread-not-in-place", "pipe-inserts-last",
           "method-without-receiver", "no-proto-walk"]


def prop(case):
    import ast as _ast
    stmts = _ast.literal_eval(case["ast"])
    m = ME.model_run(stmts)
    if m[0] in ("unspecified", "budget"):
        return None
    src = R.source(stmts)
    return judge(PROPERTY, src, m, outcome_of(src))


def part_programs(part, n):
    def body(tape):
        ch = TapeChooser(tape)
        g = G.ScopeGen(ch)
        stmts = g.program()
        m = ME.model_run(stmts)
        part.count()
        if m[0] in ("unspecified", "budget"):
            part.excluded["discarded:" + str(m[1:])[:60]] += 1
            part.cls("discarded:" + m[0])
            return None
        src = R.source(stmts)
        killed = kills(stmts, m, MUTANTS)
        for k in killed:
            part.cls("kills:" + k)
        if killed:
            part.nontriv(src)
        part.cls("program:" + m[0], src if len(src) < 500 else None)
        for f in sorted(g.features):
            part.cls("feature:" + f)
        f = judge(PROPERTY, src, m, outcome_of(src))
        if f:
            return f, {"kind": "program", "ast": repr(stmts)}
    part.hyp(tapes(1200), body, n)


def parts(tier, seed):
    if tier == "quick":
        return [(f"programs-{i}", part_programs, {"n": 1000})
                for i in range(10)]
    return [(f"programs-{i}", part_programs, {"n": 10000}) for i in range(12)]
