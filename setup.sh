#!/bin/sh
# Offline setup: make sure hypothesis (and atheris for the C01 thorough tier)
# are importable by /venv/bin/python.  Nothing is fetched from a network.
set -u
cd "$(dirname "$0")"
PY=/venv/bin/python
W=/opt/veriftools/wheels
mkdir -p .deps
if ! PYTHONPATH=.deps $PY -c "import hypothesis" 2>/dev/null; then
  $PY -m pip install -q --no-index --find-links $W --target .deps hypothesis || exit 1
fi
if ! PYTHONPATH=.deps $PY -c "import atheris" 2>/dev/null; then
  $PY -m pip install -q --no-index --find-links $W --target .deps atheris \
    || echo "setup: atheris not installable; C01 thorough runs without its fuzzing part"
fi
PYTHONPATH=.deps $PY -c "import hypothesis; print('hypothesis', hypothesis.__version__)"
exit 0
