"""C02  Operators evaluate per the language definition; integer arithmetic is exact."""
import itertools

from vf.core import Finding
from vf.gen.chooser import TapeChooser, tapes
from vf.gen import render as R
from vf.gen import programs as G
from vf.model import eval as ME
from vf.model import values as mv
from vf import cklrun

PROPERTY = "C02"
RULE = (
    "(a) Hypothesis-generated typed expression trees (depth <= 5) over ints "
    "(small, around 2^31, 2^53+-k, 2^63+-k, 10^22, 2^100), decimals, booleans, "
    "NULL, strings, int lists and pre-bound variables, with random redundant "
    "parentheses and marked non-boolean injections into and/or/not; (b) "
    "exhaustively `a op1 b op2 c` for every ordered pair of the binary "
    "operators or and == != <> < <= > >= + - * / % in, and every combination "
    "of not / unary - / unary + with a binary operator, over all operand "
    "kind assignments from {int, boolean, int list} for which the stated "
    "semantics define the outcome, rendered WITHOUT parentheses; (c) every "
    "predicate form `x is P` / `x is not P` (26 forms) x one value of every "
    "kind. Oracle: an independent reference evaluator written from the "
    "statement (exact ints, truncating division, chains as conjunctions, "
    "short-circuit and boolean-only and/or/not, NULL arithmetic, int-vs-"
    "decimal result kind); `is not P` == not `is P`. Non-trivial = tree with "
    ">= 2 operators in which an operator's operand is an unparenthesised "
    "operator expression (precedence/associativity decides the value), or an "
    "int operand/result beyond 2^53, or an injection that is reached or "
    "short-circuited."
)
ASSUMPTIONS = [
    "operand kinds the statement is silent about (1 + [2], TRUE + 1, "
    "cross-kind <) are not generated: the reference evaluator raises "
    "Unspecified and the case is discarded and counted",
    "decimals are compared with relative tolerance 1e-9; a % b only with "
    "a >= 0, b > 0 inside larger trees",
]

PRELUDE_SRC = R.source(G.ExprGen.PRELUDE)


def same_value(got, want):
    if isinstance(want, float):
        if not isinstance(got, float):
            return False
        return got == want or abs(got - want) <= 1e-9 * max(1.0, abs(got),
                                                             abs(want))
    if isinstance(want, bool) or want is None or isinstance(want, (int, str)):
        return type(got) is type(want) and got == want
    if isinstance(want, list):
        return isinstance(got, list) and len(got) == len(want) and \
            all(same_value(g, w) for g, w in zip(got, want))
    return mv.meq(got, want) and mv.deep_type(got) == mv.deep_type(want)


def model_outcome(e, prelude=G.ExprGen.PRELUDE):
    return ME.model_run(list(prelude) + [("expr", e)])


def judge(label, src, m, r):
    """m: model outcome, r: run_batch result for the expression."""
    if r[0] == "host":
        return Finding(f"C02|{label}|host-{r[1]}", f"{src} -> {r}")
    if r[0] in ("timeout", "syntax", "bad"):
        return Finding(f"C02|{label}|{r[0]}", f"{src} -> {r}; model {m}")
    if m[0] == "error":
        if r[0] != "err":
            return Finding(f"C02|{label}|no-error",
                           f"{src} gave {r[1]!r}; the model says runtime "
                           f"error")
        return None
    if r[0] == "err":
        return Finding(f"C02|{label}|unexpected-error",
                       f"{src} raised a runtime error; model says {m[1]!r}")
    if not same_value(r[1], m[1]):
        why = "value"
        if isinstance(m[1], (int, float)) and isinstance(r[1], (int, float)) \
                and type(m[1]) is not type(r[1]):
            why = "int-vs-decimal"
        return Finding(f"C02|{label}|{why}",
                       f"{src} gave {r[1]!r}; model says {m[1]!r}")
    return None


def check_exprs(exprs, label):
    """exprs: list of AST expressions.  Returns list of (Finding|None|
    'discard', src)."""
    out = []
    todo = []
    for e in exprs:
        m = model_outcome(e)
        src = R.canonical(R.expr(e, 0))
        if m[0] in ("unspecified", "budget"):
            out.append(("discard", src, m))
        else:
            out.append([None, src, m])
            todo.append(len(out) - 1)
    res = cklrun.run_batch(PRELUDE_SRC, [out[i][1] for i in todo], budget=60)
    for i, r in zip(todo, res):
        out[i][0] = judge(label, out[i][1], out[i][2], r)
    return out


def prop(case):
    if case.get("kind") == "ispair":
        return judge_is_pair(case["label"], case["pre"], case["pos"],
                             case["neg"], case.get("want"))
    src = case["src"]
    want = case["model"]
    m = (want[0], eval(want[1], {"__builtins__": {}}, {})) if want[0] in (
        "value", "error") else tuple(want)
    r = cklrun.run_batch(case.get("prelude", PRELUDE_SRC), [src], budget=60)[0]
    return judge(case["label"], src, m, r)


def _case(label, src, m, **kw):
    d = {"kind": "expr", "label": label, "src": src,
         "model": [m[0], repr(m[1])] if len(m) > 1 else list(m)}
    d.update(kw)
    return d


# ------------------------------------------------------- (b) operator pairs

BINOPS = ["or", "and", "==", "!=", "<>", "<", "<=", ">", ">=", "+", "-", "*",
          "/", "%", "in"]
CMPS = {"==", "!=", "<>", "<", "<=", ">", ">="}
OPERANDS = {
    "int": [("int", 7), ("int", 3), ("int", 2), ("int", 0)],
    "bool": [("bool", True), ("bool", False)],
    "ilist": [("list", [("int", 3), ("int", 7)]), ("list", [("int", 2)])],
}


def prec(o):
    if o == "or":
        return 1
    if o == "and":
        return 2
    if o in CMPS:
        return 4
    if o in "+-":
        return 5
    if o in "*/%":
        return 6
    return 7.5          # in


def node(o, a, b):
    if o == "or":
        return ("or", [a, b])
    if o == "and":
        return ("and", [a, b])
    if o in CMPS:
        return ("cmp", [a, b], [o])
    if o == "in":
        return ("in", a, b, False)
    return ("bin", o, a, b)


def spec_tree(a, o1, b, o2, c):
    """The tree the statement prescribes for `a o1 b o2 c`."""
    p1, p2 = prec(o1), prec(o2)
    if o1 in CMPS and o2 in CMPS:
        return ("cmp", [a, b, c], [o1, o2])
    if o1 in ("and", "or") and o1 == o2:
        return (o1, [a, b, c])
    if p2 > p1:
        return node(o1, a, node(o2, b, c))
    return node(o2, node(o1, a, b), c)      # same level: left-associative


def flat_tokens(parts_):
    return " ".join(parts_)


def lit_text(e):
    return R.canonical(R.expr(e, R.P_POSTFIX))


def part_pairs(part):
    kinds = list(OPERANDS)
    for o1, o2 in itertools.product(BINOPS, repeat=2):
        if o1 == "in" and o2 == "in":
            # `a in b in c` is not grammatical (operands of in are primaries)
            part.cls("pair-not-grammatical", "in in")
            continue
        found = 0
        for ka, kb, kc in itertools.product(kinds, repeat=3):
            for a, b, c in itertools.product(OPERANDS[ka][:3], OPERANDS[kb][:2],
                                             OPERANDS[kc][:3]):
                tree = spec_tree(a, o1, b, o2, c)
                m = model_outcome(tree, prelude=[])
                if m[0] in ("unspecified", "budget"):
                    continue
                src = flat_tokens([lit_text(a), o1, lit_text(b), o2,
                                   lit_text(c)])
                rendered = R.canonical(R.expr(tree, 0))
                if rendered != src:
                    raise RuntimeError(
                        f"renderer and flat text disagree: {rendered!r} vs "
                        f"{src!r}")
                r = cklrun.run_batch("", [src], budget=30)[0]
                part.count()
                part.distinct()
                found += 1
                part.collect(judge(f"pair:{o1}:{o2}", src, m, r),
                             _case(f"pair:{o1}:{o2}", src, m, prelude=""))
        part.cls("pair-with-specified-typing" if found else
                 "pair-without-any-specified-typing",
                 f"{o1} {o2}" if found == 0 else None)
    part.exhaustive = True


def part_unary(part):
    kinds = list(OPERANDS)
    forms = []
    for u in ("not", "-", "+"):
        for o in BINOPS:
            forms.append((u, o, "left"))     # u a o b
            forms.append((u, o, "right"))    # a o u b
    for u, o, side in forms:
        found = 0
        for ka, kb in itertools.product(kinds, repeat=2):
            for a, b in itertools.product(OPERANDS[ka][:3], OPERANDS[kb][:3]):
                un = {"not": lambda x: ("not", x), "-": lambda x: ("neg", x),
                      "+": lambda x: ("pos", x)}[u]
                if side == "left":
                    # unary binds tighter than every binary operator except
                    # that `not` is looser than comparison/arithmetic/in
                    if u == "not" and prec(o) >= 4:
                        tree = ("not", node(o, a, b))
                    else:
                        tree = node(o, un(a), b)
                    src = f"{u} {lit_text(a)} {o} {lit_text(b)}"
                else:
                    if u == "not" and prec(o) >= 4:
                        continue     # `a + not b` is not grammatical
                    if o == "in" and u in "-+":
                        continue     # operands of `in` are primaries
                    tree = node(o, a, un(b))
                    src = f"{lit_text(a)} {o} {u} {lit_text(b)}"
                if o == "in" and side == "left" and u in "-+":
                    # `- 7 in l` folds the literal, `- x in l` negates the
                    # membership test: not a question of precedence
                    continue
                m = model_outcome(tree, prelude=[])
                if m[0] in ("unspecified", "budget"):
                    continue
                rendered = R.canonical(R.expr(tree, 0))
                if rendered != src:
                    raise RuntimeError(
                        f"renderer and flat text disagree: {rendered!r} vs "
                        f"{src!r}")
                r = cklrun.run_batch("", [src], budget=30)[0]
                part.count()
                part.distinct()
                found += 1
                part.collect(judge(f"unary:{u}:{o}:{side}", src, m, r),
                             _case(f"unary:{u}:{o}:{side}", src, m,
                                   prelude=""))
        part.cls("unary-with-specified-typing" if found else
                 "unary-without-any-specified-typing",
                 f"{u} {o} {side}" if not found else None)
    part.exhaustive = True


# ------------------------------------------------------------ (c) predicates

PRED_FORMS = [
    ["empty"], ["zero"], ["negative"], ["numerical"], ["alphanumerical"],
    ["numerical", "min_len", "1"], ["numerical", "max_len", "3"],
    ["alphanumerical", "exact_len", "2"], ["date", "with", "hour"], ["date"],
    ["time"], ["string"], ["int"], ["decimal"], ["boolean"], ["pattern"],
    ["None"], ["func"], ["input"], ["output"], ["list"], ["set"], ["map"],
    ["object"], ["node"], ["in", "[1, 'a', NULL]"],
]
PRED_VALUES = [
    ("null", "NULL", None), ("true", "TRUE", True), ("int0", "0", 0),
    ("int-neg", "(0 - 5)", -5), ("int", "12", 12), ("dec", "2.5", 2.5),
    ("dec0", "0.0", 0.0), ("str-empty", "''", ""), ("str", "'ab'", "ab"),
    ("str-digits", "'12'", "12"), ("str-date", "'20200229'", "20200229"),
    ("str-time", "'2359'", "2359"), ("list-empty", "[]", []),
    ("list", "[1, 2]", [1, 2]), ("set-empty", "<<>>", mv.MSet([])),
    ("set", "<<1>>", mv.MSet([1])), ("map-empty", "<<<>>>", mv.MMap([])),
    ("map", "<<<1 => 2>>>", mv.MMap([(1, 2)])),
    ("object", "<*a = 1*>", mv.MObj({"a": 1})), ("pattern", "//a//", None),
    ("date", "date('20200101')", None), ("func", "fn(x) x", None),
    ("native", "length", None), ("input", "str_input('a')", None),
    ("output", "str_output()", None), ("node", "parse('1')", None),
]
MODEL_PREDS = {"empty", "zero", "negative", "string", "int", "decimal",
               "boolean", "list", "set", "map", "object"}


def judge_is_pair(label, pre, pos_src, neg_src, want=None):
    res = cklrun.run_batch(pre, [pos_src, neg_src], budget=30)
    p, n = res
    for r, s in ((p, pos_src), (n, neg_src)):
        if r[0] not in ("ok", "err"):
            return Finding(f"C02|{label}|{r[0]}", f"{pre}; {s} -> {r}")
    if p[0] == "err" or n[0] == "err":
        if p[0] != n[0]:
            return Finding(f"C02|{label}|is-not-is-not-the-negation",
                           f"{pre}; {pos_src} -> {p}; {neg_src} -> {n}")
        return None
    if not (isinstance(p[1], bool) and isinstance(n[1], bool)
            and p[1] == (not n[1])):
        return Finding(f"C02|{label}|is-not-is-not-the-negation",
                       f"{pre}; {pos_src} = {p[1]!r} but {neg_src} = {n[1]!r}")
    if want is not None and p[1] != want:
        return Finding(f"C02|{label}|predicate-truth",
                       f"{pre}; {pos_src} = {p[1]!r}, the model says {want!r}")
    return None


def part_predicates(part):
    ev = ME.Evaluator()
    for vname, vsrc, mval in PRED_VALUES:
        for form in PRED_FORMS:
            pre = f"def x = {vsrc}"
            words = " ".join(form)
            if form[0] == "in":
                pos_src, neg_src = f"x is {words}", f"x is not {words}"
            else:
                pos_src, neg_src = f"x is {words}", f"x is not {words}"
            want = None
            if form[0] in MODEL_PREDS and len(form) == 1 and \
                    (mval is not None or vname == "null"):
                try:
                    want = ev.predicate(mval, form)
                except ME.Unspecified:
                    want = None
            part.count()
            part.distinct()
            label = "is:" + form[0]
            part.collect(judge_is_pair(label, pre, pos_src, neg_src, want),
                         {"kind": "ispair", "label": label, "pre": pre,
                          "pos": pos_src, "neg": neg_src, "want": want})
    part.cls("predicate-forms", "26 forms x 26 values, positive and negated")
    part.exhaustive = True


# ------------------------------------------------------------ (a) random

def part_trees(part, n, batch=16):
    def body(tape):
        ch = TapeChooser(tape)
        exprs = []
        metas = []
        for _ in range(batch):
            g = G.ExprGen(ch, max_depth=ch.int(2, 5))
            kind = ch.choice(["int", "int", "dec", "bool", "bool", "str",
                              "ilist", "null"])
            e = g.gen(kind)
            exprs.append(e)
            metas.append((kind, g.injected))
        results = check_exprs(exprs, "tree")
        first = None
        for (f, src, m), e, (kind, injected) in zip(results, exprs, metas):
            part.count()
            if f == "discard":
                part.excluded["unspecified-by-model:" + str(m[1])[:40]] += 1
                part.cls("discarded")
                continue
            ops, relies, big = G.count_ops(e)
            bigres = isinstance(m[1], int) and not isinstance(m[1], bool) \
                and abs(m[1]) > 2 ** 53
            if (ops >= 2 and relies) or big or bigres or injected:
                part.nontriv(src)
            part.cls(f"tree:{kind}:{m[0]}" + (":injected" if injected else ""),
                     src if len(src) < 120 else None)
            f2 = part.judge(f, None) if f is not None else None
            if f2 is not None and first is None:
                first = (f2, _case("tree", src, m))
        return first
    part.hyp(tapes(3000), body, n)


def parts(tier, seed):
    if tier == "quick":
        ps = [(f"trees-{i}", part_trees, {"n": 600}) for i in range(12)]
    else:
        ps = [(f"trees-{i}", part_trees, {"n": 6000}) for i in range(12)]
    ps += [("pairs", part_pairs, {}), ("unary", part_unary, {}),
           ("predicates", part_predicates, {})]
    return ps
