"""Typed generators of program ASTs (see vf/gen/render.py) for C02-C05, C14."""
from vf.gen import render as R

BIG = [2 ** 31, 2 ** 53, 2 ** 63, 2 ** 64, 10 ** 22, 2 ** 100]
CMP_OPS = ["==", "!=", "<>", "<", "<=", ">", ">="]
STRS = ["", "a", "b", "ab", "abc", "x y", "it's", "A", "10", "é",
        # strings spelled like keywords and operators: a literal is a value
        # wherever it stands
        "not", "in", "is", "and", "or", "empty", "zero", "then", "do", "end",
        "NULL", "TRUE", "*", "to", "keys", "def"]


# ------------------------------------------------------------------ C02

class ExprGen:
    """Typed expression trees over pre-bound variables.

    Kinds: int, dec, num, bool, str, ilist (list of ints), null."""

    PRELUDE = [
        ("def", "i1", ("int", 7)), ("def", "i2", ("int", -3)),
        ("def", "i3", ("int", 9007199254740993)),
        ("def", "d1", ("dec", 2.5)), ("def", "d2", ("dec", -0.5)),
        ("def", "b1", ("bool", True)), ("def", "b2", ("bool", False)),
        ("def", "s1", ("str", "abc")), ("def", "s2", ("str", "")),
        ("def", "l1", ("list", [("int", 1), ("int", 2), ("int", 3)])),
        ("def", "l2", ("list", [])), ("def", "n1", ("null",)),
    ]
    VARS = {"int": ["i1", "i2", "i3"], "dec": ["d1", "d2"],
            "bool": ["b1", "b2"], "str": ["s1", "s2"],
            "ilist": ["l1", "l2"], "null": ["n1"]}

    def __init__(self, ch, max_depth=5, inject=True):
        self.ch = ch
        self.max_depth = max_depth
        self.inject = inject
        self.injected = False

    def maybe_par(self, e):
        if self.ch.bool(0.1):
            return ("par", e)
        return e

    def gen(self, kind, d=0):
        e = getattr(self, "g_" + kind)(d)
        return self.maybe_par(e) if d > 0 else e

    def leaf(self, kind):
        ch = self.ch
        if ch.bool(0.35):
            return ("var", ch.choice(self.VARS[kind]))
        if kind == "int":
            k = ch.weighted([(6, "small"), (2, "mid"), (2, "big")])
            if k == "small":
                return ("int", ch.int(-9, 9))
            if k == "mid":
                return ("int", ch.int(-100000, 100000))
            v = ch.choice(BIG) + ch.int(-2, 2)
            return ("int", -v if ch.bool(0.4) else v)
        if kind == "dec":
            return ("dec", ch.choice([0.5, 1.5, 2.0, -2.25, 10.0, 0.25, 100.5,
                                      3.0, -1.0, 0.0]))
        if kind == "bool":
            return ("bool", ch.bool())
        if kind == "str":
            return ("str", ch.choice(STRS))
        if kind == "ilist":
            return ("list", [("int", ch.int(-3, 5))
                             for _ in range(ch.int(0, 3))])
        if kind == "null":
            return ("null",)
        raise ValueError(kind)

    def g_num(self, d):
        return self.gen("int" if self.ch.bool(0.6) else "dec", d)

    def g_int(self, d):
        ch = self.ch
        if d >= self.max_depth or ch.bool(0.3):
            return self.leaf("int")
        k = ch.weighted([(4, "+"), (4, "-"), (4, "*"), (3, "/"), (2, "%"),
                         (2, "neg"), (1, "length"), (1, "pos")])
        if k in ("+", "-", "*"):
            return ("bin", k, self.gen("int", d + 1), self.gen("int", d + 1))
        if k == "/":
            if ch.bool(0.06):
                div = ("int", 0)
            elif ch.bool(0.7):
                div = ("int", ch.choice([1, 2, 3, 7, -1, -2, -5, 10,
                                         1000000007, -(2 ** 40)]))
            else:
                div = self.gen("int", d + 1)
            return ("bin", "/", self.gen("int", d + 1), div)
        if k == "%":
            a = ("int", ch.int(0, 10 ** ch.int(1, 25))) if ch.bool(0.7) \
                else ("bin", "*", self.gen("int", d + 2), ("int", 0))
            b = ("int", ch.choice([1, 2, 3, 7, 10, 97, 2 ** 40 + 1]))
            if ch.bool(0.04):
                b = ("int", 0)
            return ("bin", "%", a, b)
        if k == "neg":
            return ("neg", self.gen("int", d + 1))
        if k == "pos":
            return ("pos", self.gen("int", d + 1))
        return ("call", ("var", "length"),
                [("pos", self.gen("str" if ch.bool() else "ilist", d + 1))])

    def g_dec(self, d):
        ch = self.ch
        if d >= self.max_depth or ch.bool(0.3):
            return self.leaf("dec")
        k = ch.choice(["+", "-", "*", "/", "neg"])
        if k == "neg":
            return ("neg", self.gen("dec", d + 1))
        mix = ch.int(0, 2)
        a = self.gen("int" if mix == 0 else "dec", d + 1)
        b = self.gen("int" if mix == 1 else "dec", d + 1)
        if k == "/":
            b = ("dec", ch.choice([0.5, 2.0, -4.0, 0.25, 10.0])) if mix != 1 \
                else ("int", ch.choice([1, 2, -4, 5, 8]))
        return ("bin", k, a, b)

    def g_str(self, d):
        ch = self.ch
        if d >= self.max_depth or ch.bool(0.4):
            return self.leaf("str")
        k = ch.choice(["cat", "cat", "cat-int", "int-cat", "rep"])
        if k == "cat":
            return ("bin", "+", self.gen("str", d + 1), self.gen("str", d + 1))
        if k == "cat-int":
            return ("bin", "+", self.gen("str", d + 1), self.gen("int", d + 1))
        if k == "int-cat":
            return ("bin", "+", self.gen("int", d + 1), self.gen("str", d + 1))
        return ("bin", "*", self.gen("str", d + 1), ("int", ch.int(0, 3)))

    def g_ilist(self, d):
        ch = self.ch
        if d >= self.max_depth or ch.bool(0.4):
            return self.leaf("ilist")
        k = ch.choice(["lit", "cat", "add", "sub", "rep", "sublist"])
        if k == "lit":
            return ("list", [self.gen("int", d + 1)
                             for _ in range(ch.int(0, 3))])
        if k == "cat":
            return ("bin", "+", self.gen("ilist", d + 1),
                    self.gen("ilist", d + 1))
        if k == "add":
            return ("bin", "+", self.gen("ilist", d + 1),
                    self.gen("int", d + 1))
        if k == "sub":
            return ("bin", "-", self.gen("ilist", d + 1),
                    self.gen("int" if ch.bool() else "ilist", d + 1))
        if k == "rep":
            return ("bin", "*", self.gen("ilist", d + 1), ("int", ch.int(0, 2)))
        return ("bin", "-", self.gen("ilist", d + 1),
                ("list", [self.gen("int", d + 2)]))

    def g_null(self, d):
        ch = self.ch
        if d >= self.max_depth or ch.bool(0.4):
            return self.leaf("null")
        o = ch.choice(["+", "-", "*", "/", "%"])
        other = self.gen("num", d + 1)
        if ch.bool():
            return ("bin", o, self.gen("null", d + 1), other)
        return ("bin", o, other, self.gen("null", d + 1))

    def any_kind(self):
        return self.ch.choice(["int", "dec", "bool", "str", "ilist", "null"])

    def g_bool(self, d):
        ch = self.ch
        if d >= self.max_depth or ch.bool(0.2):
            return self.leaf("bool")
        k = ch.weighted([(4, "cmp"), (3, "chain"), (3, "eq"), (3, "and"),
                         (3, "or"), (2, "not"), (2, "in"), (1, "strin"),
                         (2, "is"), (1, "strcmp"), (1, "listcmp")])
        if k == "cmp":
            return ("cmp", [self.gen("num", d + 1), self.gen("num", d + 1)],
                    [ch.choice(CMP_OPS)])
        if k == "chain":
            n = ch.int(3, 4)
            return ("cmp", [self.gen("num", d + 1) for _ in range(n)],
                    [ch.choice(CMP_OPS) for _ in range(n - 1)])
        if k == "eq":
            ka = self.any_kind()
            kb = ka if ch.bool(0.7) else self.any_kind()
            return ("cmp", [self.gen(ka, d + 1), self.gen(kb, d + 1)],
                    [ch.choice(["==", "!=", "<>", "is", "is not"])])
        if k == "strcmp":
            return ("cmp", [self.gen("str", d + 1), self.gen("str", d + 1)],
                    [ch.choice(CMP_OPS)])
        if k == "listcmp":
            return ("cmp", [self.gen("ilist", d + 1),
                            self.gen("ilist", d + 1)],
                    [ch.choice(CMP_OPS)])
        if k in ("and", "or"):
            n = ch.int(2, 3)
            items = [self.gen("bool", d + 1) for _ in range(n)]
            if self.inject and ch.bool(0.12):
                # non-boolean operand: a runtime error iff it is reached
                pos = ch.int(0, n - 1)
                items[pos] = self.gen(ch.choice(["int", "str", "null"]),
                                      d + 1)
                self.injected = True
            return (k, items)
        if k == "not":
            if self.inject and ch.bool(0.05):
                self.injected = True
                return ("not", self.gen("int", d + 1))
            return ("not", self.gen("bool", d + 1))
        if k == "in":
            return ("in", self.gen("int" if ch.bool(0.8) else "dec", d + 1),
                    self.gen("ilist", d + 1), ch.bool(0.3))
        if k == "strin":
            return ("in", self.gen("str", d + 1), self.gen("str", d + 1),
                    ch.bool(0.3))
        pred = ch.choice(["string", "int", "decimal", "boolean", "list",
                          "empty", "zero", "negative", "func", "set", "map",
                          "object", "pattern"])
        return ("is", self.gen(self.any_kind(), d + 1), [pred], ch.bool(0.4))


def count_ops(e):
    """(number of operator nodes, relies_on_precedence, has_big_int)."""
    ops = 0
    relies = False
    big = False

    def walk(x, parent_level=None, in_par=False):
        nonlocal ops, relies, big
        if not isinstance(x, tuple):
            if isinstance(x, list):
                for y in x:
                    walk(y)
            return
        k = x[0]
        if k == "int" and abs(x[1]) > 2 ** 53:
            big = True
        lv = R.level(x) if k in ("bin", "cmp", "and", "or", "not", "neg",
                                 "in", "is") else None
        if lv is not None:
            ops += 1
            if parent_level is not None:
                relies = True
        for y in x[1:]:
            if isinstance(y, tuple):
                walk(y, lv if k != "par" else None)
            elif isinstance(y, list):
                for z in y:
                    if isinstance(z, tuple):
                        walk(z, lv)
    walk(e)
    return ops, relies, big


# ------------------------------------------------------------------ C04

def call(name, *args):
    return ("call", ("var", name), [("pos", a) for a in args])


def log(e):
    return ("expr", call("append", ("var", "trace"), e))


def tag_log(tag, *es):
    return log(("list", [("int", tag)] + list(es)))


CHK = ("deffn", "chk", [("t", None, False), ("v", None, False)],
       ("block", [("expr", call("append", ("var", "trace"), ("var", "t"))),
                  ("return", ("var", "v"))], [], None))


class FlowGen:
    """Loop nests with exits, if ladders with logging conditions, iteration
    over every iterable kind, comprehensions with their explicit-loop twins."""

    def __init__(self, ch, max_loop_depth=3):
        self.ch = ch
        self.max_loop_depth = max_loop_depth
        self.n = 0
        self.tags = 0
        self.features = set()

    def fresh(self, p="x"):
        self.n += 1
        return f"{p}{self.n}"

    def tag(self):
        self.tags += 1
        return self.tags

    # ---- iterables: returns (what, expr, loopvars, {var: kind})
    def iterable(self):
        ch = self.ch
        k = ch.weighted([(4, "list"), (3, "set"), (3, "map"), (2, "str"),
                         (1, "pairs"), (1, "strset"), (1, "range")])
        v = self.fresh()
        if k == "list":
            n = ch.int(0, 4)
            return (None, ("list", [("int", ch.int(0, 6)) for _ in range(n)]),
                    [v], {v: "int"})
        if k == "range":
            return (None, call("range", ("int", ch.int(0, 4))), [v],
                    {v: "int"})
        if k == "set":
            self.features.add("set")
            n = ch.int(1, 4)
            return (None, ("set", [("int", ch.choice([5, 3, 9, 1, 7, 2, 10]))
                                   for _ in range(n)]), [v], {v: "int"})
        if k == "strset":
            self.features.add("set")
            n = ch.int(1, 4)
            return (None, ("set", [("str", ch.choice(["b", "a", "c", "B", "ab",
                                                     "", "aa"]))
                                   for _ in range(n)]), [v], {v: "str"})
        if k == "str":
            self.features.add("string")
            return (None, ("str", ch.choice(["abc", "", "ba", "x", "cab"])),
                    [v], {v: "str"})
        if k == "pairs":
            n = ch.int(1, 3)
            v2 = self.fresh()
            return (None, ("list", [("list", [("int", ch.int(0, 5)),
                                              ("int", ch.int(0, 5))])
                                    for _ in range(n)]), [v, v2],
                    {v: "int", v2: "int"})
        self.features.add("map")
        n = ch.int(1, 4)
        strkeys = ch.bool()
        keys = ch.sample(["k2", "k1", "k3", "a", "B"] if strkeys
                         else [3, 1, 2, 10, 7], n)
        pairs = [((("str", kk) if strkeys else ("int", kk)),
                  ("int", ch.int(0, 9))) for kk in keys]
        m = ("map", pairs)
        what = ch.choice(["keys", "values", "entries", "entries-d"])
        kk = "str" if strkeys else "int"
        if what == "keys":
            return ("keys", m, [v], {v: kk})
        if what == "values":
            return ("values", m, [v], {v: "int"})
        if what == "entries":
            return ("entries", m, [v], {v: "pair"})
        v2 = self.fresh()
        return ("entries", m, [v, v2], {v: kk, v2: "int"})

    def cond(self, vars_):
        """A boolean expression over the visible loop variables."""
        ch = self.ch
        ints = [n for n, k in vars_.items() if k == "int"]
        strs = [n for n, k in vars_.items() if k == "str"]
        if ints and ch.bool(0.7):
            v = ("var", ch.choice(ints))
            k = ch.int(0, 3)
            if k == 0:
                return ("cmp", [("bin", "%", v, ("int", 2)), ("int", ch.int(0, 1))],
                        ["=="])
            if k == 1:
                return ("cmp", [v, ("int", ch.int(0, 6))],
                        [ch.choice(["<", ">", "<=", ">=", "==", "!="])])
            if k == 2 and len(ints) >= 2:
                return ("cmp", [v, ("var", ch.choice(ints))],
                        [ch.choice(["<", "==", ">="])])
            return ("in", v, ("list", [("int", ch.int(0, 5)),
                                       ("int", ch.int(0, 9))]), ch.bool(0.3))
        if strs:
            v = ("var", ch.choice(strs))
            return ("cmp", [v, ("str", ch.choice(["a", "b", "k1", "c", ""]))],
                    [ch.choice(["==", "!=", "<", ">="])])
        return ("bool", ch.bool())

    def logged_cond(self, vars_):
        ints = [n for n, k in vars_.items() if k == "int"]
        if ints and self.ch.bool(0.2):
            # a chain whose middle operand logs: every operand of a chain is
            # evaluated once, and not at all behind a pair that is FALSE
            self.features.add("chain-with-logging-operand")
            v = ("var", self.ch.choice(ints))
            mid = call("chk", ("int", self.tag()), v)
            last = call("chk", ("int", self.tag()),
                        ("int", self.ch.int(2, 9)))
            return ("cmp", [("int", self.ch.int(0, 3)), mid, last],
                    [self.ch.choice(["<", "<=", "!="]),
                     self.ch.choice(["<", "<=", "=="])])
        if self.ch.bool(0.7):
            return call("chk", ("int", self.tag()), self.cond(vars_))
        return self.cond(vars_)

    def observe(self, vars_):
        names = list(vars_)
        return tag_log(self.tag(), *[("var", n) for n in names[:3]])

    def exit_stmt(self, loop_depth, in_fn):
        ch = self.ch
        opts = []
        if loop_depth > 0:
            opts += [("break",), ("break",), ("continue",), ("continue",)]
        if in_fn:
            opts += [("return", ("int", self.tag())), ("return", None)]
        elif loop_depth > 0 and ch.bool(0.1):
            opts += [("return", ("int", self.tag()))]   # ends the script
        if not opts:
            return None
        e = ch.choice(opts)
        self.features.add(e[0])
        if loop_depth >= 2 and e[0] in ("break", "continue"):
            self.features.add("exit-at-depth>=2")
        return e

    def body(self, vars_, loop_depth, in_fn, budget):
        """Statements of a loop/if/function body."""
        ch = self.ch
        out = []
        n = ch.int(1, 4)
        for _ in range(n):
            out += self.stmt(vars_, loop_depth, in_fn, budget - 1)
        return out

    def stmt(self, vars_, loop_depth, in_fn, budget):
        ch = self.ch
        if budget <= 0:
            return [self.observe(vars_)]
        deep = loop_depth >= 1
        k = ch.weighted([(3, "log"), (3, "if"), (4 if deep else 2, "exit"),
                         (5 if loop_depth < self.max_loop_depth else 0, "for"),
                         (2 if loop_depth < self.max_loop_depth else 0,
                          "while"),
                         (4 if deep else 1, "guarded-exit"),
                         (3 if deep else 1, "exit-in-expression"),
                         (2 if deep else 1, "finally-exit"),
                         (1 if not in_fn and loop_depth < 2 else 0, "fncall")])
        if k == "log":
            return [self.observe(vars_)]
        if k == "exit":
            e = self.exit_stmt(loop_depth, in_fn)
            if e is None:
                return [self.observe(vars_)]
            # an unconditional exit ends the body: statements after it are
            # generated on purpose (they must not run)
            return [e]
        if k == "guarded-exit":
            e = self.exit_stmt(loop_depth, in_fn)
            if e is None:
                return [self.observe(vars_)]
            return [("if", [(self.logged_cond(vars_), [e])], None)]
        if k == "exit-in-expression":
            # an exit reached while an argument, an operand, a literal element
            # or the value of an element assignment is evaluated leaves the
            # loop / function at once: the enclosing operation never happens
            e = self.exit_stmt(loop_depth, in_fn)
            if e is None:
                return [self.observe(vars_)]
            self.features.add("exit-in-expression")
            ex = ("blocke", ("block", [e], [], None))
            if ch.bool(0.4):
                ex = ("ife", [(self.cond(vars_), [e])],
                      [("expr", ("int", 0))])
            ctx = ch.choice(["log-arg", "call-arg", "operand", "setindex",
                             "map-value", "set-elem", "obj-member",
                             "setmember", "named-arg", "index", "cond",
                             "callee", "catch-selector"])
            self.features.add("exit-in-" + ctx)
            if ctx == "log-arg":
                return [tag_log(self.tag(), ex)]
            if ctx == "call-arg":
                return [log(call("chk", ("int", self.tag()), ex))]
            if ctx == "named-arg":
                return [log(("call", ("var", "chk"), [("named", "v", ex),
                                             ("named", "t",
                                              ("int", self.tag()))]))]
            if ctx == "operand":
                return [tag_log(self.tag(), ("bin", "+", ("list", []), ex))]
            if ctx == "map-value":
                return [tag_log(self.tag(), ("map", [(("int", 1), ex)]))]
            if ctx == "set-elem":
                return [tag_log(self.tag(), ("set", [("int", 1), ex]))]
            if ctx == "obj-member":
                return [tag_log(self.tag(), ("obj", [("a", ex)]))]
            if ctx == "index":
                return [tag_log(self.tag(),
                                ("index", ("list", [("int", 4), ("int", 5)]),
                                 ex))]
            if ctx == "cond":
                return [("if", [(ex, [self.observe(vars_)])],
                         [self.observe(vars_)])]
            if ctx == "callee":
                return [tag_log(self.tag(), ("call", ex,
                                             [("pos", ("int", 1))]))]
            if ctx == "catch-selector":
                return [("block", [("error", ("int", 77))],
                         [(ex, [self.observe(vars_)]),
                          (None, [self.observe(vars_)])], None)]
            t = self.fresh("t")
            if ctx == "setindex":
                return [("def", t, ("list", [("int", 0)])),
                        ("setindex", ("var", t), ("int", 0), ex),
                        tag_log(self.tag(), ("var", t))]
            return [("def", t, ("obj", [("a", ("int", 0))])),
                    ("setmember", ("var", t), "a", ex),
                    tag_log(self.tag(), ("member", ("var", t), "a"))]
        if k == "finally-exit":
            e = self.exit_stmt(loop_depth, in_fn)
            if e is None:
                return [self.observe(vars_)]
            self.features.add("exit-through-finally")
            inner = [self.observe(vars_),
                     ("if", [(self.cond(vars_), [e])], None),
                     self.observe(vars_)]
            return [("block", inner, [], [tag_log(self.tag())])]
        if k == "if":
            nb = ch.int(1, 3)
            branches = []
            for _ in range(nb):
                branches.append((self.logged_cond(vars_),
                                 self.body(vars_, loop_depth, in_fn,
                                           budget - 1)))
            else_ = self.body(vars_, loop_depth, in_fn, budget - 1) \
                if ch.bool() else None
            if nb >= 2:
                self.features.add("elif")
            return [("if", branches, else_)]
        if k == "for":
            what, it, lvars, kinds = self.iterable()
            inner = dict(vars_)
            inner.update(kinds)
            body = self.body(inner, loop_depth + 1, in_fn, budget - 1)
            return [("for", lvars, what, it, body)]
        if k == "while":
            c = self.fresh("c")
            inner = dict(vars_)
            inner[c] = "int"
            body = [("opassign", c, "+", ("int", 1))] + \
                self.body(inner, loop_depth + 1, in_fn, budget - 1)
            cond = ("cmp", [("var", c), ("int", ch.int(0, 4))], ["<"])
            if ch.bool(0.5):
                cond = call("chk", ("int", self.tag()), cond)
            return [("def", c, ("int", 0)), ("while", cond, body)]
        # fncall: a function with a loop and a return inside, called here
        f = self.fresh("f")
        p = self.fresh("p")
        self.features.add("function-in-loop" if loop_depth else "function")
        fbody = self.body({p: "int"}, 0, True, budget - 1) + \
            [("expr", ("int", self.tag()))]
        arg = ("int", ch.int(0, 5))
        ints = [n for n, kk in vars_.items() if kk == "int"]
        if ints and ch.bool():
            arg = ("var", ch.choice(ints))
        return [("deffn", f, [(p, None, False)], ("block", fbody, [], None)),
                tag_log(self.tag(), call(f, arg))]

    # ---- comprehensions with explicit-loop twins
    def comprehension(self):
        ch = self.ch
        kind = ch.choice(["list", "list", "set", "map"])
        what, it, lvars, kinds = self.iterable()
        while len(lvars) != 1 or kinds[lvars[0]] == "pair":
            what, it, lvars, kinds = self.iterable()
        x = lvars[0]
        vars_ = dict(kinds)
        second = None
        if kind != "map" and ch.bool(0.5):
            mode = ch.choice(["for", "also"])
            what2, it2, lv2, k2 = self.iterable()
            tries = 0
            while len(lv2) != 1 or k2[lv2[0]] == "pair":
                what2, it2, lv2, k2 = self.iterable()
            if mode == "also":
                # equal lengths: iterate the same collection twice
                what2, it2 = what, it
                k2 = {lv2[0]: kinds[x]}
            second = (mode, lv2[0], what2, it2)
            vars_.update(k2)
            self.features.add("comprehension-" + mode)
        cond = self.cond(vars_) if ch.bool(0.6) else None
        if cond is not None:
            self.features.add("comprehension-if")
            k = ch.int(0, 3)
            if k == 1:
                # a condition whose evaluation is observable: it is tested
                # once per candidate element, as in the explicit loop, also
                # when it does not mention every loop variable
                cond = call("chk", ("int", self.tag()), cond)
                self.features.add("comprehension-if-logs")
            elif k == 2:
                # a condition that reads state the element expression and
                # the condition itself change: its outcome is not a function
                # of the loop variables
                state = ("cmp", [("bin", "%", call("length", ("var", "trace")),
                                  ("int", ch.int(2, 3))), ("int", 0)],
                         [ch.choice(["==", "!="])])
                cond = call("chk", ("int", self.tag()), state) \
                    if ch.bool() else state
                self.features.add("comprehension-if-reads-state")
        names = list(vars_)
        value = ("list", [("var", n) for n in names]) if ch.bool() else \
            ("var", names[-1])
        if ch.bool(0.5):
            # an element expression with an observable effect: it must run
            # for the accepted elements only, as in the explicit loop
            value = call("chk", ("int", 900 + self.tag()), value)
            self.features.add("comprehension-element-logs")
        r = self.fresh("r")
        r2 = self.fresh("r")
        self.features.add("comprehension-" + kind)
        if kind == "map":
            key = ("var", x)
            comp = ("mcomp", key, value, x, what, it, cond)
            add = ("setindex", ("var", r2), key, value)
            init = ("map", [])
        else:
            comp = ("lcomp", kind, value, x, what, it, second, cond)
            add = ("expr", call("append", ("var", r2), value))
            init = ("list", []) if kind == "list" else ("set", [])
        inner = [add]
        if cond is not None:
            inner = [("if", [(cond, [add])], None)]
        if second is not None and second[0] == "for":
            inner = [("for", [second[1]], second[2], second[3], inner)]
            loop = ("for", [x], what, it, inner)
            loops = [loop]
        elif second is not None:
            # parallel: explicit loop over indices of the two enumerations
            i = self.fresh("i")
            a, b = self.fresh("a"), self.fresh("b")
            en1 = ("lcomp", "list", ("var", x), x, what, it, None, None)
            en2 = ("lcomp", "list", ("var", second[1]), second[1], second[2],
                   second[3], None, None)
            body = [("def", x, ("index", ("var", a), ("var", i))),
                    ("def", second[1], ("index", ("var", b), ("var", i)))] \
                + inner
            loops = [("def", a, en1), ("def", b, en2),
                     ("for", [i], None, call("range", call("length",
                                                           ("var", a))), body)]
        else:
            loops = [("for", [x], what, it, inner)]
        return [("def", r, comp), ("def", r2, init)] + loops + [
            tag_log(self.tag(), ("var", r),
                    ("cmp", [("var", r), ("var", r2)], ["=="]))]

    def program(self):
        ch = self.ch
        stmts = [("def", "trace", ("list", [])), CHK]
        for _ in range(ch.int(1, 3)):
            if ch.bool(0.3):
                stmts += self.comprehension()
            else:
                stmts += self.stmt({}, 0, False, ch.int(3, 6))
        stmts.append(("expr", ("var", "trace")))
        return stmts


# ------------------------------------------------------------------ C05

ERR_VALUES = [
    ("null",), ("bool", True), ("bool", False), ("int", 1), ("dec", 1.0),
    ("int", 2), ("str", "a"), ("str", "ERROR"), ("str", "b"),
    ("list", [("int", 1), ("int", 2)]), ("list", [("dec", 1.0), ("int", 2)]),
    ("set", [("int", 1), ("int", 2)]), ("set", [("int", 2), ("int", 1)]),
    ("map", [(("str", "k"), ("int", 1))]), ("int", 0), ("list", []),
]


class ErrGen:
    """Nests of do/catch/finally inside functions and loops with errors
    injected at every statement position."""

    def __init__(self, ch, max_depth=4):
        self.ch = ch
        self.max_depth = max_depth
        self.tags = 0
        self.n = 0
        self.features = set()

    def tag(self):
        self.tags += 1
        return self.tags

    def fresh(self, p):
        self.n += 1
        return f"{p}{self.n}"

    def errval(self):
        return self.ch.choice(ERR_VALUES)

    def raiser(self):
        """A statement that fails."""
        ch = self.ch
        k = ch.weighted([(5, "error"), (2, "thrower"), (2, "undefined"),
                         (2, "div0"), (1, "badcall"), (1, "index")])
        if k == "error":
            return ("error", self.errval())
        if k == "thrower":
            self.features.add("raised-in-callee")
            return ("expr", call("thrower", self.errval()))
        self.features.add("runtime-ERROR")
        if k == "undefined":
            return ("expr", ("var", "undefined_zz"))
        if k == "div0":
            return ("expr", ("bin", "/", ("int", 1), ("int", 0)))
        if k == "badcall":
            return ("expr", ("call", ("int", 5), []))
        return ("expr", ("index", ("list", [("int", 1)]), ("int", 7)))

    def simple(self):
        return tag_log(self.tag())

    def exit_stmt(self, in_loop, in_fn):
        opts = []
        if in_loop:
            opts += [("break",), ("continue",)]
        if in_fn:
            opts += [("return", ("int", 100 + self.tag())), ("return", None)]
        if not opts:
            return None
        e = self.ch.choice(opts)
        self.features.add("exit:" + e[0])
        return e

    def handler_body(self, depth, in_loop, in_fn):
        ch = self.ch
        out = [self.simple()]
        k = ch.weighted([(5, "value"), (2, "reraise"), (1, "exit"),
                         (2 if depth < self.max_depth else 0, "nested")])
        if k == "reraise":
            self.features.add("handler-raises")
            out.append(self.raiser())
        elif k == "exit":
            e = self.exit_stmt(in_loop, in_fn)
            if e is not None:
                self.features.add("handler-exits")
                out.append(e)
        elif k == "nested":
            out += self.block_stmt(depth + 1, in_loop, in_fn)
        out.append(("expr", ("int", 200 + self.tag())))
        return out

    def block(self, depth, in_loop, in_fn):
        """A ("block", ...) node."""
        ch = self.ch
        body = []
        n = ch.int(1, 4)
        fail_at = ch.int(0, n) if ch.bool(0.8) else None
        for i in range(n):
            if i == fail_at:
                k = ch.weighted([(5, "raise"), (2, "exit"),
                                 (3 if depth < self.max_depth else 0,
                                  "nested")])
                if k == "raise":
                    body.append(self.raiser())
                elif k == "exit":
                    e = self.exit_stmt(in_loop, in_fn)
                    body.append(e if e is not None else self.raiser())
                    if e is not None:
                        self.features.add("exit-inside-block")
                else:
                    body += self.block_stmt(depth + 1, in_loop, in_fn)
            else:
                body.append(self.simple())
        body.append(("expr", ("int", 300 + self.tag())))
        if depth < self.max_depth and ch.bool(0.12):
            # a block whose only statement is another block (its value is
            # the inner block's value; the inner finally part runs before
            # this block's handlers see anything)
            self.features.add("only-statement-is-a-block")
            body = [("expr", ("blocke", self.block(depth + 1, in_loop,
                                                   in_fn)))]
        catches = []
        for _ in range(ch.weighted([(2, 0), (4, 1), (3, 2), (1, 3)])):
            if ch.bool(0.25):
                catches.append((None, self.handler_body(depth, in_loop,
                                                        in_fn)))
                break
            cv = self.errval()
            if ch.bool(0.2):
                cv = ("var", "cv1")
            catches.append((cv, self.handler_body(depth, in_loop, in_fn)))
        fin = None
        if ch.bool(0.6):
            fin = [self.simple()]
            self.features.add("finally")
            if ch.bool(0.12):
                fin.append(self.raiser())
                self.features.add("finally-raises")
            elif ch.bool(0.15):
                # an exit statement in the finally part: specified only
                # while an error is leaving the block (the error continues)
                e = self.exit_stmt(in_loop, in_fn)
                if e is not None:
                    fin.append(e)
                    self.features.add("finally-exits")
        return ("block", body, catches, fin)

    def block_stmt(self, depth, in_loop, in_fn):
        """Statements that run a block in some context and log its value."""
        ch = self.ch
        k = ch.weighted([(5, "plain"), (2, "loop"), (2, "fn"), (1, "value")])
        if depth > 1:
            self.features.add("nested-blocks")
        if k == "plain":
            return [("expr", ("blocke", self.block(depth, in_loop, in_fn)))]
        if k == "value":
            v = self.fresh("v")
            return [("def", v, ("blocke", self.block(depth, in_loop, in_fn))),
                    tag_log(self.tag(), ("var", v))]
        if k == "loop":
            i = self.fresh("i")
            self.features.add("block-in-loop")
            return [("for", [i], None, ("list", [("int", 1), ("int", 2)]),
                     [tag_log(self.tag(), ("var", i)),
                      ("expr", ("blocke", self.block(depth, True, in_fn))),
                      self.simple()])]
        f = self.fresh("f")
        self.features.add("block-in-function")
        return [("deffn", f, [],
                 ("block", [self.simple(),
                            ("expr", ("blocke", self.block(depth, False,
                                                           True))),
                            ("expr", ("int", 400 + self.tag()))], [], None)),
                tag_log(self.tag(), call(f))]

    def scenario(self):
        out = []
        for _ in range(self.ch.int(1, 2)):
            out += self.block_stmt(1, False, False)
        return out

    def program(self, wrapped):
        pre = [("def", "trace", ("list", [])),
               ("def", "cv1", self.ch.choice(ERR_VALUES)),
               ("deffn", "thrower", [("v", None, False)],
                ("block", [tag_log(self.tag()), ("error", ("var", "v")),
                           tag_log(self.tag())], [], None))]
        sc = self.scenario()
        return pre, sc


def wrap_scenario(pre, sc, wrapped):
    if not wrapped:
        return pre + sc + [("expr", ("var", "trace"))]
    outer = ("block", sc + [("expr", ("str", "completed"))],
             [(None, [("expr", ("str", "escaped"))])], None)
    return pre + [("def", "res", ("blocke", outer)),
                  ("expr", ("list", [("var", "res"), ("var", "trace")]))]


# ------------------------------------------------------------------ C03

def V(n):
    return ("var", n)


def I(n):
    return ("int", n)


def fnblock(stmts):
    return ("block", stmts, [], None)


def guarded(e):
    """do e catch all 'E' end  (as an expression)"""
    return ("blocke", ("block", [("expr", e)],
                       [(None, [("expr", ("str", "E"))])], None))


class ScopeGen:
    """Scenario fragments for lexical scoping and argument binding."""

    NAMES = ["a", "b", "c", "d"]

    def __init__(self, ch):
        self.ch = ch
        self.n = 0
        self.tags = 0
        self.features = set()

    def fresh(self, p="f"):
        self.n += 1
        return f"{p}{self.n}"

    def tag(self):
        self.tags += 1
        return self.tags

    def name(self):
        return self.ch.choice(self.NAMES)

    def wrap_levels(self, stmts, levels):
        """Run stmts inside `levels` nested function scopes."""
        for _ in range(levels):
            w = self.fresh("w")
            stmts = [("deffn", w, [], fnblock(stmts + [("expr", I(0))])),
                     ("expr", call(w))]
        return stmts

    # T1: free variable of a function called from a redefining scope
    def t1(self):
        ch = self.ch
        N = self.name()
        reader, caller = self.fresh("rd"), self.fresh("cl")
        depth = ch.int(0, 2)
        body = V(N)
        rd = ("deffn", reader, [], ("bin", "+", body, I(0)))
        # optionally the reader is created by a factory (closure returned)
        out = [("def", N, I(ch.int(1, 9)))]
        if depth == 0:
            out.append(rd)
        else:
            mk = self.fresh("mk")
            inner = [("def", N, I(ch.int(10, 19)))] if ch.bool() else []
            out.append(("deffn", mk, [], fnblock(
                inner + [("expr", ("fn", [], ("bin", "+", V(N), I(0))))])))
            out.append(("def", reader, call(mk)))
        shadow = I(ch.int(100, 109))
        via_param = ch.bool(0.3)
        if via_param:
            out.append(("deffn", caller, [(N, None, False)],
                        fnblock([("expr", call(reader))])))
            out.append(tag_log(self.tag(), ("call", V(caller),
                                            [("pos", shadow)]),
                               call(reader)))
        else:
            out.append(("deffn", caller, [], fnblock(
                [("def", N, shadow), ("expr", call(reader))])))
            out.append(tag_log(self.tag(), call(caller), call(reader)))
        if ch.bool():
            out.append(("assign", N, I(ch.int(50, 59))))
            out.append(tag_log(self.tag(), call(reader)))
        self.features.add("T1")
        return out

    # T2: assignment from a callee
    def t2(self):
        ch = self.ch
        N = self.name()
        setter, caller = self.fresh("st"), self.fresh("cl")
        out = [("def", N, I(ch.int(1, 9)))]
        op = ch.choice(["assign", "opassign", "nested"])
        if op == "assign":
            sbody = [("assign", N, ("bin", "+", V(N), I(10))), ("expr", V(N))]
        elif op == "opassign":
            sbody = [("opassign", N, ch.choice(["+", "*", "-"]), I(3)),
                     ("expr", V(N))]
        else:
            inner = self.fresh("in")
            sbody = [("deffn", inner, [], fnblock(
                [("assign", N, ("bin", "*", V(N), I(2))), ("expr", V(N))])),
                ("expr", call(inner))]
        out.append(("deffn", setter, [], fnblock(sbody)))
        out.append(("deffn", caller, [], fnblock(
            [("def", N, I(100)), ("expr", call(setter)), ("expr", V(N))])))
        out.append(tag_log(self.tag(), call(caller), V(N)))
        if ch.bool(0.4):
            # assignment to a name that is bound nowhere: runtime error
            out.append(tag_log(self.tag(), guarded(
                ("call", ("fn", [], fnblock([("assign", "zz_unbound", I(1)),
                                             ("expr", I(5))])), []))))
        if ch.bool(0.4):
            # def inside a function must not touch the outer binding
            loc = self.fresh("lc")
            out.append(("deffn", loc, [], fnblock(
                [("def", N, I(777)), ("expr", V(N))])))
            out.append(tag_log(self.tag(), call(loc), V(N)))
        self.features.add("T2")
        return out

    # T3: closures returned from ended frames
    def t3(self):
        ch = self.ch
        k = ch.choice(["counter", "curried", "compose", "adder-list"])
        out = []
        if k == "counter":
            mk, c = self.fresh("mk"), self.name()
            out.append(("deffn", mk, [("start", None, False)], fnblock(
                [("def", c, V("start")),
                 ("expr", ("fn", [("step", I(1), False)], fnblock(
                     [("assign", c, ("bin", "+", V(c), V("step"))),
                      ("expr", V(c))])))])))
            k1, k2 = self.fresh("k"), self.fresh("k")
            out += [("def", k1, ("call", V(mk), [("pos", I(0))])),
                    ("def", k2, ("call", V(mk), [("pos", I(10))]))]
            seq = []
            for _ in range(ch.int(3, 6)):
                kk = ch.choice([k1, k2])
                seq.append(("call", V(kk), [("pos", I(ch.int(1, 3)))]
                            if ch.bool(0.3) else []))
            out.append(tag_log(self.tag(), ("list", seq)))
        elif k == "curried":
            f = self.fresh("cur")
            a, b, c = self.NAMES[:3]
            out.append(("deffn", f, [(a, None, False)],
                        ("fn", [(b, None, False)],
                         ("fn", [(c, None, False)],
                          ("bin", "+", ("bin", "*", V(a), I(100)),
                           ("bin", "+", ("bin", "*", V(b), I(10)), V(c)))))))
            p = self.fresh("p")
            out.append(("def", p, ("call", V(f), [("pos", I(ch.int(1, 9)))])))
            out.append(tag_log(
                self.tag(),
                ("call", ("call", V(p), [("pos", I(ch.int(1, 9)))]),
                 [("pos", I(ch.int(1, 9)))]),
                ("call", ("call", ("call", V(f), [("pos", I(1))]),
                          [("pos", I(2))]), [("pos", I(3))])))
        elif k == "compose":
            comp = self.fresh("comp")
            out.append(("deffn", comp, [("f", None, False),
                                        ("g", None, False)],
                        ("fn", [("x", None, False)],
                         ("call", V("f"), [("pos", ("call", V("g"),
                                                    [("pos", V("x"))]))]))))
            inc, dbl = self.fresh("inc"), self.fresh("dbl")
            out += [("deffn", inc, [("x", None, False)],
                     ("bin", "+", V("x"), I(1))),
                    ("deffn", dbl, [("x", None, False)],
                     ("bin", "*", V("x"), I(2)))]
            h = self.fresh("h")
            out.append(("def", h, ("call", V(comp),
                                   [("pos", V(inc)), ("pos", V(dbl))])))
            out.append(tag_log(self.tag(),
                               ("call", V(h), [("pos", I(ch.int(0, 9)))]),
                               ("call", ("call", V(comp), [("pos", V(dbl)),
                                                           ("pos", V(inc))]),
                                [("pos", I(ch.int(0, 9)))])))
        else:
            fs = self.fresh("fs")
            # closures created in a loop-free way over a parameter
            mk = self.fresh("mk")
            out.append(("deffn", mk, [("n", None, False)],
                        ("fn", [], ("bin", "*", V("n"), V("n")))))
            out.append(("def", fs, ("list", [
                ("call", V(mk), [("pos", I(i))]) for i in range(1, 4)])))
            out.append(tag_log(self.tag(), ("list", [
                ("call", ("index", V(fs), I(i)), []) for i in range(3)])))
        self.features.add("T3")
        return out

    # T4: recursion, fresh parameter bindings per call
    def t4(self):
        ch = self.ch
        f = self.fresh("rec")
        n = self.name()
        k = ch.choice(["own-n", "acc", "fib"])
        if k == "own-n":
            body = [("if", [(("cmp", [V(n), I(0)], [">"]),
                             [("expr", ("call", V(f), [("pos", ("bin", "-", V(n), I(1)))]))])],
                     None),
                    tag_log(self.tag(), V(n)),
                    ("expr", V(n))]
            out = [("deffn", f, [(n, None, False)], fnblock(body)),
                   tag_log(self.tag(), ("call", V(f), [("pos", I(ch.int(1, 4)))]))]
        elif k == "acc":
            body = [("if", [(("cmp", [V(n), I(0)], ["=="]),
                             [("return", V("acc"))])], None),
                    ("assign", "acc", ("bin", "+", V("acc"), V(n))),
                    ("assign", n, ("bin", "-", V(n), I(1))),
                    ("expr", ("call", V(f), [("pos", V(n)), ("pos", V("acc"))]))]
            out = [("deffn", f, [(n, None, False), ("acc", I(0), False)],
                    fnblock(body)),
                   tag_log(self.tag(), ("call", V(f), [("pos", I(ch.int(1, 6)))]))]
        else:
            body = ("ife", [(("cmp", [V(n), I(2)], ["<"]),
                             [("expr", V(n))])],
                    [("expr", ("bin", "+",
                               ("call", V(f), [("pos", ("bin", "-", V(n), I(1)))]),
                               ("call", V(f), [("pos", ("bin", "-", V(n), I(2)))])))])
            out = [("deffn", f, [(n, None, False)], body),
                   tag_log(self.tag(), ("call", V(f), [("pos", I(ch.int(2, 7)))]))]
        self.features.add("T4")
        return out

    # T5: defaults at call time in the callee scope
    def t5(self):
        ch = self.ch
        G = self.name()
        f, caller = self.fresh("df"), self.fresh("cl")
        p = "p"
        out = [("def", G, I(ch.int(1, 9)))]
        out.append(("deffn", f, [(p, None, False),
                                 ("q", ("bin", "+", V(G), V(p)), False),
                                 ("r", ("bin", "*", V("q"), I(2)), False)],
                    ("list", [V(p), V("q"), V("r")])))
        out.append(tag_log(self.tag(), ("call", V(f), [("pos", I(1))])))
        out.append(("assign", G, I(ch.int(20, 29))))
        out.append(tag_log(self.tag(), ("call", V(f), [("pos", I(1))]),
                           ("call", V(f), [("pos", I(1)), ("named", "q", I(5))])))
        out.append(("deffn", caller, [], fnblock(
            [("def", G, I(500)), ("def", p, I(600)),
             ("expr", ("call", V(f), [("pos", I(2))]))])))
        out.append(tag_log(self.tag(), call(caller)))
        if ch.bool():
            # a default with a side effect is evaluated once per call that
            # needs it
            cnt = self.fresh("cnt")
            g = self.fresh("dg")
            out += [("def", cnt, I(0)),
                    ("deffn", g, [("x", ("blocke", ("block", [
                        ("assign", cnt, ("bin", "+", V(cnt), I(1))),
                        ("expr", V(cnt))], [], None)), False)], V("x")),
                    tag_log(self.tag(), ("list", [
                        ("call", V(g), []), ("call", V(g), [("pos", I(50))]),
                        ("call", V(g), []), V(cnt)]))]
        if ch.bool(0.6):
            # a literal collection as default: every call that omits the
            # argument gets a fresh one (defaults are evaluated at call time)
            col = self.fresh("col")
            dflt = ch.choice([("list", []), ("list", [I(0), I(0)]),
                              ("map", []), ("set", [])])
            if dflt[0] == "map":
                body = [("setindex", V("acc"), V("x"), I(1)),
                        ("expr", V("acc"))]
            elif dflt[0] == "list" and dflt[1]:
                body = [("setindex", V("acc"), I(0),
                         ("bin", "+", ("index", V("acc"), I(0)), V("x"))),
                        ("expr", V("acc"))]
            else:
                body = [("expr", call("append", V("acc"), V("x"))),
                        ("expr", V("acc"))]
            out.append(("deffn", col, [("x", None, False),
                                       ("acc", dflt, False)], fnblock(body)))
            calls_ = [("call", V(col), [("pos", I(i))])
                      for i in range(1, ch.int(3, 4))]
            first = self.fresh("fst")
            out.append(("def", first, calls_[0]))
            out.append(tag_log(self.tag(), ("list", calls_[1:]), V(first)))
            self.features.add("mutable-default")
        self.features.add("T5")
        return out

    # T6: the argument binding matrix
    def t6(self):
        ch = self.ch
        f = self.fresh("bf")
        nparams = ch.int(1, 4)
        names = ["p", "q", "r", "s"][:nparams]
        ndefaults = ch.int(0, nparams)
        params = []
        for i, n in enumerate(names):
            default = ("str", n.upper()) if i >= nparams - ndefaults else None
            params.append((n, default, False))
        has_rest = ch.bool(0.5)
        items = [V(n) for n in names]
        if has_rest:
            params.append(("rest", None, True))
            items.append(V("rest..."))
        out = [("deffn", f, params, ("list", items))]
        lst = self.fresh("ls")
        out.append(("def", lst, ("list", [I(70 + i)
                                          for i in range(ch.int(0, 3))])))
        calls = []
        for _ in range(ch.int(3, 6)):
            args = []
            npos = ch.int(0, nparams + 2)
            val = 0
            for _ in range(npos):
                val += 1
                k = ch.weighted([(6, "pos"), (2, "spread-var"),
                                 (1, "spread-lit")])
                if k == "pos":
                    args.append(("pos", I(val)))
                elif k == "spread-var":
                    args.append(("spread", V(lst)))
                    self.features.add("spread-list")
                else:
                    args.append(("spread", ("list", [I(90 + val),
                                                     I(95 + val)])))
                    self.features.add("spread-list")
            # named arguments after the positional ones
            nn = ch.int(0, 2)
            used = set()
            for _ in range(nn):
                n = ch.choice(names + (["zz"] if ch.bool(0.1) else []))
                if n in used:
                    continue
                used.add(n)
                args.append(("named", n, ("str", "n-" + n)))
                self.features.add("named")
            if ch.bool(0.25):
                mk = [n for n in names if n not in used]
                if mk:
                    picked = ch.sample(mk, ch.int(1, len(mk)))
                    args.append(("spread", ("map", [
                        (("str", n), ("str", "m-" + n)) for n in picked])))
                    self.features.add("spread-map")
            calls.append(guarded(("call", V(f), args)))
        out.append(tag_log(self.tag(), ("list", calls)))
        self.features.add("T6")
        return out

    # T7: pipeline, methods, prototype chains
    def t7(self):
        ch = self.ch
        out = []
        k = ch.choice(["pipe", "proto", "pipe", "proto"])
        if k == "pipe":
            f = self.fresh("pf")
            out.append(("deffn", f, [("x", None, False), ("y", I(0), False),
                                     ("z", I(0), False)],
                        ("list", [V("x"), V("y"), V("z")])))
            out.append(tag_log(
                self.tag(),
                ("pipe", I(ch.int(1, 9)), V(f), [("pos", I(ch.int(10, 19)))]),
                ("pipe", I(5), V(f), []),
                ("pipe", I(5), V(f), [("named", "z", I(7))]),
                ("pipe", ("list", [I(1), I(2)]),
                 ("fn", [("l", None, False), ("k", None, False)],
                  ("bin", "+", V("l"), V("k"))), [("pos", I(3))]),
                ("pipe", ("pipe", I(2), V(f), [("pos", I(3))]), V(f),
                 [("pos", I(4))])))
            self.features.add("pipeline")
        else:
            base, mid, obj = self.fresh("ob"), self.fresh("ob"), \
                self.fresh("ob")
            out.append(("def", base, ("obj", [
                ("id", I(0)),
                ("m", ("fn", [("self", None, False), ("k", I(1), False)],
                       ("list", [("member", V("self"), "id"), V("k")]))),
                ("only_base", ("fn", [("self", None, False)],
                               ("member", V("self"), "id")))])))
            out.append(("def", mid, ("obj", [("_proto_", V(base)),
                                             ("id", I(1))])))
            members = [("_proto_", V(mid)), ("id", I(2))]
            if ch.bool():
                members.append(("m", ("fn", [("self", None, False),
                                             ("k", I(1), False)],
                                      ("list", [("str", "own"), V("k")]))))
            out.append(("def", obj, ("obj", members)))
            o = ch.choice([base, mid, obj])
            out.append(tag_log(
                self.tag(),
                ("method", V(obj), "m", [("pos", I(9))]),
                ("method", V(mid), "m", []),
                ("method", V(o), "only_base", []),
                guarded(("method", V(obj), "missing", [])),
                ("method", V(obj), "m", [("named", "k", I(4))])))
            self.features.add("method")
        self.features.add("T7")
        return out

    # T8: a binding that appears later in an enclosing scope / only on some
    # activations: lookups are by scope at the time of the lookup
    def t8(self):
        ch = self.ch
        N = self.name()
        out = [("def", N, ("str", "global"))]
        k = ch.choice(["late-def", "conditional-local", "recursive-local"])
        if k == "late-def":
            outer, rd = self.fresh("lt"), self.fresh("rd")
            out.append(("deffn", outer, [], fnblock([
                ("def", rd, ("fn", [], ("bin", "+", V(N), ("str", "")))),
                ("def", "r_before", call(rd)),
                ("def", N, ("str", "local")),
                ("def", "r_after", call(rd)),
                ("expr", ("list", [V("r_before"), V("r_after"), call(rd)]))])))
            out.append(tag_log(self.tag(), call(outer), V(N)))
        elif k == "conditional-local":
            f = self.fresh("cd")
            out.append(("deffn", f, [("flag", None, False)], fnblock([
                ("if", [(V("flag"), [("def", N, ("str", "local"))])], None),
                ("expr", ("bin", "+", V(N), ("str", "")))])))
            seq = [("call", V(f), [("pos", ("bool", ch.bool()))])
                   for _ in range(ch.int(3, 5))]
            out.append(tag_log(self.tag(), ("list", seq)))
        else:
            f = self.fresh("rl")
            # the local exists only on even activations
            out.append(("deffn", f, [("n", None, False)], fnblock([
                ("if", [(("cmp", [("bin", "%", V("n"), I(2)), I(0)], ["=="]),
                         [("def", N, ("bin", "+", ("str", "L"), V("n")))])],
                 None),
                ("def", "here", ("bin", "+", V(N), ("str", ""))),
                ("if", [(("cmp", [V("n"), I(0)], [">"]),
                         [("return", ("bin", "+", ("list", [V("here")]),
                                      ("call", V(f), [("pos", ("bin", "-", V("n"), I(1)))])))])],
                 None),
                ("expr", ("list", [V("here")]))])))
            out.append(tag_log(self.tag(),
                               ("call", V(f), [("pos", I(ch.int(2, 5)))])))
        self.features.add("T8")
        return out

    def program(self):
        ch = self.ch
        stmts = [("def", "trace", ("list", []))]
        frags = [self.t1, self.t2, self.t3, self.t4, self.t5, self.t6,
                 self.t7, self.t8]
        for _ in range(ch.int(2, 4)):
            fr = ch.choice(frags)()
            levels = ch.weighted([(4, 0), (3, 1), (2, 2), (1, 3)])
            if levels:
                self.features.add(f"nested-scope-{levels}")
            stmts += self.wrap_levels(fr, levels)
        stmts.append(("expr", V("trace")))
        return stmts
