#!/usr/bin/env python
"""Reproductions for the third C04 hunt.  Run with
   cd /tmp/seed6/C04 && PYTHONPATH=/tmp/seed6/C04/src /venv/bin/python hunt/repro.py
Prints one line per finding: FINDING <n>: <VIOLATES|HOLDS> <description>."""
import os
import signal
import sys

sys.path.insert(0, os.path.join(os.path.dirname(os.path.abspath(__file__)), '..', 'src'))
from ckl.interpreter import Interpreter                     # noqa: E402
from ckl.errors import CklRuntimeError, CklSyntaxError       # noqa: E402


class Timeout(Exception):
    pass


def _alarm(signum, frame):
    raise Timeout()


signal.signal(signal.SIGALRM, _alarm)


def run(src, legacy=True):
    it = Interpreter(secure=False, legacy=legacy)
    signal.alarm(10)
    try:
        return str(it.interpret(src, 'repro.ckl'))
    except CklRuntimeError as e:
        return 'RTE: ' + str(e.msg)
    except CklSyntaxError as e:
        return 'SYN: ' + str(e.msg)
    except Timeout:
        return 'TIMEOUT'
    except BaseException as e:      # a host exception
        return 'PY: %r' % (e,)
    finally:
        signal.alarm(0)


def both(src):
    return run(src, True), run(src, False)


def report(n, violates, text):
    print('FINDING %d: %s %s' % (n, 'VIOLATES' if violates else 'HOLDS', text))


# 1 - exits reached while the callee of a call, the selector of a catch clause
#     or the value of a class member is evaluated are not passed on
a = both("def f(g) do (if g == NULL then return 'none' else g)(2) end; [f(fn(x) x * 2), f(NULL)]")
b = both("def r = []; for g in [fn(x) x, NULL, fn(x) x * 10] do "
         "append(r, (if g == NULL then continue else g)(2)) end; r")
c = both("def f(x) do do error x catch (if x == 1 then return 'one' else 2) 'two' end end; [f(2), f(1)]")
d = both("def f() do def class K do def mm = (return 7) end; 9 end; f()")
ok = (a == ("[4, 'none']",) * 2 and b == ('[2, 20]',) * 2
      and c == ("['two', 'one']",) * 2 and d == ('7',) * 2)
report(1, not ok, "return/continue in the callee of a call, in a catch selector, in a class member "
       "value is not passed on: %s | %s | %s | %s" % (a[0], b[0], c[0], d[0]))

# 2 - break in the condition of a while ends the enclosing loop, not the while
a = both("def r = []; for i in [1,2,3] do def j = 0; "
         "while (if j == 2 then break else TRUE) do j += 1; append(r, [i, j]) end; "
         "append(r, 'after') end; r")
exp = "[[1, 1], [1, 2], 'after', [2, 1], [2, 2], 'after', [3, 1], [3, 2], 'after']"
report(2, a != (exp, exp), "break inside a while condition leaves the enclosing for loop: %s" % a[0])

# 3 - the middle operand of a comparison chain used as a condition is evaluated twice
a = both("def c = 0; def f() do c += 1; c end; def r = []; "
         "if 0 < f() < 2 then append(r, 'first') elif TRUE then append(r, 'second'); [r, c]")
b = both("def c = 0; def f() do c += 1; c end; def r = []; while 0 < f() < 6 do append(r, c) end; [r, c]")
report(3, a != ("[['first'], 1]",) * 2 or b != ("[[1, 2, 3, 4, 5], 6]",) * 2,
       "`0 < f() < 2` as if/while condition calls f twice per test: %s | %s" % (a[0], b[0]))

# 4 - a one-name destructuring target of a for loop is not destructured
a = both("def r = []; for [a] in [[1], [2]] do append(r, a) end; def [b] = [1]; [r, b]")
report(4, a != ('[[1, 2], 1]',) * 2, "for [a] in [[1], [2]] binds the rows, def [b] = [1] the element: %s" % a[0])

# 5 - a for loop over an input stops at the first empty line
a = run("def r = []; for line in str_input('a\\n\\nb\\nc') do append(r, line) end; r")
report(5, a != "['a', '', 'b', 'c']", "for line in str_input('a\\n\\nb\\nc') visits %s" % a)
