#!/usr/bin/env python
"""Reproductions for the C17 hunt (dates <-> day numbers, date arithmetic).

Run:  cd /tmp/seed3/C17 && PYTHONPATH=/tmp/seed3/C17/src /venv/bin/python hunt/repro.py
Prints one line per finding:  FINDING <n>: <VIOLATES|HOLDS> <description>
"""
import signal

from ckl.interpreter import Interpreter
from ckl.errors import CklRuntimeError, CklSyntaxError


class Timeout(Exception):
    pass


def _alarm(signum, frame):
    raise Timeout()


signal.signal(signal.SIGALRM, _alarm)


def run(src, legacy=True):
    """Returns ('ok', str(value)) / ('ckl', msg) / ('host', repr(exc))."""
    signal.alarm(10)
    try:
        it = Interpreter(secure=False, legacy=legacy)
        return ("ok", str(it.interpret(src, "repro.ckl")))
    except (CklRuntimeError, CklSyntaxError) as e:
        return ("ckl", e.msg)
    except Timeout:
        return ("host", "timeout")
    except BaseException as e:  # host exception leaking out
        return ("host", repr(e))
    finally:
        signal.alarm(0)


def report(n, violates, text):
    print("FINDING %d: %s %s" % (n, "VIOLATES" if violates else "HOLDS", text))


# 1 ------------------------------------------------------------------
# (d + n) - d == n fails for dates with a time of day whenever the day
# numbers of d and d + n lie on different sides of a power of two.
progs = [
    ("(date('20240101100000') + 30000) - date('20240101100000')", "30000"),
    ("(date('19890916000007') + 1) - date('19890916000007')", "1"),
    ("(date('19441025095901') + 58) - date('19441025095901')", "58"),
    ("(date('20240101100000') + 30000) - date('20240101100000') == 30000", "TRUE"),
]
res = []
for legacy in (True, False):
    for p, want in progs:
        res.append((run(p, legacy), want))
bad = [r for r, want in res if r != ("ok", want)]
report(1, bool(bad),
       "(d + n) - d is not n for dates with a time of day when the day "
       "numbers straddle a power of two, e.g. (date('20240101100000') + 30000)"
       " - date('20240101100000') -> %s" % (res[0][0][1],))

# 2 ------------------------------------------------------------------
# int(date) truncates towards zero: wrong day for dates before 1899-12-30
# that carry a time of day; two calendar days share day number 0.
r_a = run("int(date('1899122912'))")
r_b = run("int(date('1899123012'))")
r_c = run("date(int(date('18000101120000')))")
r_d = run("int(date('18000101120000')) == int(date('18000101'))")
viol = (r_a == r_b) or r_c != ("ok", "18000101000000") or r_d != ("ok", "TRUE")
report(2, viol,
       "int(date) rounds towards zero for negative day numbers: "
       "int(1899-12-29 12:00) = %s = int(1899-12-30 12:00) = %s; "
       "date(int(1800-01-01 12:00)) -> %s" % (r_a[1], r_b[1], r_c[1]))

# 3 ------------------------------------------------------------------
# dates that carry microseconds (date(), now(), file_info) do not survive
# the round trip / arithmetic under ==, and (d + n) - d is not an int.
viol = False
last = None
for _ in range(5):  # microseconds could by chance be a multiple of 1000
    last = run("def d = date(); [(d + 1) - 1 == d, date(decimal(d)) == d, "
               "(d + 3) - d == 3]")
    if last != ("ok", "[TRUE, TRUE, TRUE]"):
        viol = True
        break
report(3, viol,
       "(doubtful) d = date() carries microseconds: [(d + 1) - 1 == d, "
       "date(decimal(d)) == d, (d + 3) - d == 3] -> %s" % (last[1],))

# 4 ------------------------------------------------------------------
# host OverflowError leaks out of date +/- huge int
r1 = run("date('20200101') + pow(10, 400)")
r2 = run("date('20200101') - pow(10, 400)")
report(4, r1[0] == "host" or r2[0] == "host",
       "(doubtful) date +/- pow(10, 400) leaks a host exception instead of a "
       "runtime error: %s" % (r1[1],))

# 5 ------------------------------------------------------------------
# string(date) is not zero padded for years < 1000, so date(string(d)) fails
r1 = run("string(date('09990101'))")
r2 = run("date(string(date('09990101'))) == date('09990101')")
report(5, r1 != ("ok", "09990101000000") or r2 != ("ok", "TRUE"),
       "(doubtful) string(date('09990101')) -> %s; date(string(d)) -> %s"
       % (r1[1], r2[1]))

# 6 ------------------------------------------------------------------
# decimal(date(x)) == x does not hold for an arbitrary decimal x
r1 = run("decimal(date(45000.123456)) == 45000.123456")
report(6, r1 != ("ok", "TRUE"),
       "(doubtful) decimal(date(45000.123456)) == 45000.123456 -> %s" % (r1[1],))
