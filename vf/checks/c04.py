"""C04  Conditionals, loops, comprehensions and early exits have structured semantics."""
from vf.core import Finding
from vf.gen.chooser import TapeChooser, tapes
from vf.gen import render as R
from vf.gen import programs as G
from vf.model import eval as ME
from vf.checks.c02 import same_value
from vf import cklrun
from vf.model import values as mv

PROPERTY = "C04"
RULE = (
    "Hypothesis-generated programs: loop nests (depth <= 3) of `for` over "
    "lists, sets, maps (keys, values, entries, destructured pairs), strings "
    "and ranges and `while` with a counter, at top level and inside functions "
    "called from loops, with break / continue / return placed unconditionally, "
    "behind (logging) conditions and inside do..finally blocks; if/elif/else "
    "ladders whose conditions log their evaluation; every comprehension form "
    "(list, set, map; single, for..for product, also-for parallel, with if - "
    "pure, logging its evaluation, or reading the trace length, i.e. state "
    "that elements and conditions change) "
    "paired with its explicit-loop twin. Every visited iteration and every "
    "evaluated condition is appended to a trace. Oracle: the reference "
    "evaluator (result + trace) and, for comprehensions, equality with the "
    "explicit loop computed by the interpreter itself. Non-trivial = program "
    "in which an exit statement exists at loop depth >= 2 / in a function "
    "called from a loop / a set, map or string is iterated, AND whose outcome "
    "differs under at least one mutant model (break leaves two loops, "
    "continue = break, while condition tested once, first branch instead of "
    "first TRUE branch, insertion-order iteration, comprehension filter "
    "ignored)."
)
ASSUMPTIONS = [
    "loop variables are fresh names never read after the loop; sets and maps "
    "hold elements of one kind; also-for only with equal lengths; the value "
    "of a loop statement is never used",
    "programs on which the reference evaluator meets something the statement "
    "leaves open are discarded and counted",
]
MUTANTS = ["break-two-loops", "continue-is-break", "while-test-once",
           "if-first-branch", "insertion-order", "filter-ignored",
           "value-before-filter"]


def outcome_of(src, budget=20):
    out = cklrun.run(src, budget=budget)
    if out[0] == "value":
        try:
            return ("value", cklrun.to_model(out[1]))
        except cklrun.BadValue as e:
            return ("bad", str(e))
    if out[0] == "error":
        try:
            return ("error", cklrun.to_model(out[1]))
        except cklrun.BadValue as e:
            return ("bad", str(e))
    if out[0] == "host":
        return ("host", out[1], out[2], out[3])
    return out


def judge(prop_id, src, m, got, label="program"):
    if got[0] == "host":
        return Finding(f"{prop_id}|{label}|host-{got[1]}",
                       f"{src}\n  -> {got}")
    if got[0] in ("timeout", "syntax", "bad"):
        return Finding(f"{prop_id}|{label}|{got[0]}", f"{src}\n  -> {got}; "
                       f"model {m}")
    if got[0] != m[0]:
        return Finding(f"{prop_id}|{label}|{got[0]}-instead-of-{m[0]}",
                       f"{src}\n  interpreter: {got}\n  model: {m}")
    if not same_value(got[1], m[1]):
        return Finding(f"{prop_id}|{label}|{m[0]}-differs",
                       f"{src}\n  interpreter: {got[1]!r}\n  model:       "
                       f"{m[1]!r}")
    return None


MAP_DEFAULT_LITERALS = [
    "<<<'a' => 1, 'b' => 2>>>", "<<<2 => 'x', 1 => 'y'>>>", "<<<>>>",
    "<<<'k' => [1, 2]>>>", "map([[1, 2], [3, 4]])",
]
MAP_DEFAULT_FORMS = [
    ("list", "[x for x in m]", "[]", "append(r, x)"),
    ("set", "<<x for x in m>>", "<<>>", "append(r, x)"),
    ("list-if", "[x for x in m if TRUE]", "[]", "append(r, x)"),
    ("list-product", "[[x, y] for x in m for y in [0]]", "[]",
     "for y in [0] do append(r, [x, y]) end"),
]


def map_default_prop(lit, form):
    """`[x for x in m]` against `for x in m do append(r, x) end` for a map m
    and no keys / values / entries selector."""
    name, comp, init, add = form
    src = (f"def m = {lit}; def r = {init}; for x in m do {add} end; "
           f"[{comp}, r]")
    out = cklrun.run(src, budget=20)
    if out[0] != "value":
        return Finding(f"C04|comprehension-vs-loop|map-without-selector|"
                       f"{out[0]}", f"{src} -> {cklrun.short(out)}")
    a, b = cklrun.to_model(out[1])
    if not mv.meq(a, b):
        return Finding("C04|comprehension-vs-loop|map-without-selector",
                       f"{src}: the comprehension gives {a!r}, the "
                       f"equivalent loop {b!r}")
    return None


def part_map_default(part):
    for lit in MAP_DEFAULT_LITERALS:
        for form in MAP_DEFAULT_FORMS:
            part.count()
            part.distinct()
            part.cls("map-without-selector:" + form[0])
            part.collect(map_default_prop(lit, form),
                         {"kind": "map-default", "lit": lit, "form": form[0]})
    part.exhaustive = True


def prop(case):
    if case.get("kind") == "map-default":
        form = [f for f in MAP_DEFAULT_FORMS if f[0] == case["form"]][0]
        return map_default_prop(case["lit"], form)
    import ast as _ast
    stmts = _ast.literal_eval(case["ast"])
    m = ME.model_run(stmts)
    if m[0] in ("unspecified", "budget"):
        return None
    return judge(PROPERTY, R.source(stmts), m, outcome_of(R.source(stmts)))


def kills(stmts, m, mutants):
    out = []
    for fl in mutants:
        mm = ME.model_run(stmts, flags=[fl])
        if mm[0] in ("unspecified", "budget"):
            out.append(fl)      # behaves differently: not even defined
            continue
        if mm[0] != m[0] or not same_value(mm[1], m[1]):
            out.append(fl)
    return out


def part_programs(part, n):
    def body(tape):
        ch = TapeChooser(tape)
        g = G.FlowGen(ch)
        stmts = g.program()
        m = ME.model_run(stmts)
        part.count()
        if m[0] in ("unspecified", "budget"):
            part.excluded["discarded:" + str(m[1:])[:50]] += 1
            part.cls("discarded:" + m[0])
            return None
        src = R.source(stmts)
        killed = kills(stmts, m, MUTANTS)
        for k in killed:
            part.cls("kills:" + k)
        feats = g.features
        interesting = bool(feats & {"exit-at-depth>=2", "function-in-loop",
                                    "set", "map", "string"})
        if interesting and killed:
            part.nontriv(src)
        part.cls("program:" + m[0], src if len(src) < 300 else None)
        for f in sorted(feats):
            part.cls("feature:" + f)
        f = judge(PROPERTY, src, m, outcome_of(src))
        if f:
            return f, {"kind": "program", "ast": repr(stmts)}
    part.hyp(tapes(1500), body, n)


def parts(tier, seed):
    md = [("map-default", part_map_default, {})]
    if tier == "quick":
        return md + [(f"programs-{i}", part_programs, {"n": 1200})
                     for i in range(10)]
    return md + [(f"programs-{i}", part_programs, {"n": 12000})
                 for i in range(12)]
