#!/usr/bin/env python
"""Reproductions for the third C12 hunt (hash seed / process / construction order).

Run:  cd /tmp/seed6/C12 && PYTHONPATH=/tmp/seed6/C12/src /venv/bin/python hunt/repro.py

Prints one line per finding:  FINDING <n>: <VIOLATES|HOLDS> <description>
(plus NOTE lines for the re-check of items of the earlier reports).  Only the
ckl package and the standard library are used.  Every program runs in a fresh
child process (with a timeout); a finding VIOLATES when the observable outcome
(value, output text, error) of one and the same program text is not the same
in all runs.
"""
import os
import subprocess
import sys
from concurrent.futures import ThreadPoolExecutor

HERE = os.path.dirname(os.path.abspath(__file__))
SRC = os.path.join(os.path.dirname(HERE), "src")

CHILD = r"""
import sys, io
from ckl.interpreter import Interpreter
from ckl.errors import CklRuntimeError, CklSyntaxError
legacy = sys.argv[1] == "1"
src = sys.stdin.read()
it = Interpreter(secure=False, legacy=legacy)
buf = io.StringIO()
it.setStandardOutput(buf)
try:
    v = it.interpret(src, "p.ckl")
    try:
        print("VALUE", v)
    except RecursionError:
        print("VALUE <not printable by the host>")
except CklRuntimeError as e:
    print("RTERR", e.value, "|", e.msg, "|", e.pos)
except CklSyntaxError as e:
    print("SYNERR", e.msg, e.pos)
except BaseException as e:
    print("PYEXC", type(e).__name__, e)
print("OUT", repr(buf.getvalue()))
"""


def run(src, seed, legacy=True):
    env = dict(os.environ, PYTHONHASHSEED=str(seed), PYTHONPATH=SRC)
    try:
        p = subprocess.run(
            [sys.executable, "-c", CHILD, "1" if legacy else "0"],
            input=src, capture_output=True, text=True, env=env, timeout=30,
        )
        return p.stdout + p.stderr[-300:]
    except subprocess.TimeoutExpired:
        return "TIMEOUT"


POOL = ThreadPoolExecutor(max_workers=4)


def outcomes(src, seeds=range(8), legacy=True):
    return sorted(set(POOL.map(lambda s: run(src, s, legacy), list(seeds))))


def first(o):
    return o.splitlines()[0] if o else o


def report(n, violates, text):
    print(f"FINDING {n}: {'VIOLATES' if violates else 'HOLDS'} {text}")
    sys.stdout.flush()


# ---------------------------------------------------------------- finding 1
# Functions of one name are told apart by their serial number only when two
# FUNCTIONS are compared (repair 82692cd).  A set / map / object that HOLDS a
# function is compared by its text, so two such holders tie and stay in the
# internal order of the outer set - and a function hashes by its address, so
# the order differs from process to process under ONE hash seed.
SAME = [0] * 10          # ten processes, all with PYTHONHASHSEED=0
f1a = outcomes("def s = << <<fn() 1>>, <<fn() 2>>, <<fn() 3>>, <<fn() 4>> >>; "
               "[[f() for f in x] for x in s]", seeds=SAME)
f1b = outcomes("def s = << <<<1 => fn() 1>>>, <<<1 => fn() 2>>>, "
               "<<<1 => fn() 3>>>, <<<1 => fn() 4>>> >>; [m[1]() for m in s]",
               seeds=SAME)
# closures of one named inner function, as a factory makes them
f1c = outcomes("def mk(n) do def g() n; g end; "
               "def s = set([<<mk(i)>> for i in range(5)]); "
               "[[f() for f in x] for x in s]", seeds=SAME)
f1d = outcomes("require List; def s = << [<<fn() 1>>], [<<fn() 2>>], "
               "[<<fn() 3>>], [<<fn() 4>>] >>; "
               "List->map_list(s, fn(x) [f() for f in x[0]])",
               seeds=SAME, legacy=False)
report(1, max(len(f1a), len(f1b), len(f1c), len(f1d)) > 1,
       "sets/maps that hold functions of one name tie inside an outer set and "
       "are enumerated in address order: distinct results over 10 processes "
       f"with the SAME hash seed: set of sets of lambdas {len(f1a)} "
       f"({' / '.join(first(o) for o in f1a[:3])}), set of maps {len(f1b)}, "
       f"closures of one named function {len(f1c)}, non-legacy "
       f"List->map_list over lists of sets {len(f1d)}")

# ---------------------------------------------------------------- finding 2
# Ordering compares only SOME pairs of members, which ones depends on the
# internal order.  When one pair cannot be compared (here: a list that was
# made to contain itself after it went into the set; c < m < L, and only
# comparing c with L recurses for ever) the same program ends with a value
# under one hash seed and with an error under another.
B = ("def L = ['b']; def m = ['b', ['b', ['a']]]; def c = ['b', ['b', 'e']]; ")
f2a = outcomes(B + "def s = <<L, m, c>>; append(L, L); length(list(s))",
               seeds=range(12))
f2b = outcomes(B + "def s = <<L, m, c>>; append(L, L); "
               "def r = 'ok'; do for x in s do 1 end; catch all r = 'failed'; "
               "end; r", seeds=range(12))
# maps: construction order, one process
f2c = run(B + "def m1 = <<<>>>; m1[L] = 1; m1[m] = 2; m1[c] = 3; "
          "def m2 = <<<>>>; m2[L] = 1; m2[c] = 3; m2[m] = 2; append(L, L); "
          "def r = []; "
          "do r !> append(length([k for k in keys m1])); "
          "catch all r !> append('ERR'); end; "
          "do r !> append(length([k for k in keys m2])); "
          "catch all r !> append('ERR'); end; r", 0)
# no self-reference needed: a finite list, deepened in place beyond the host stack
f2d = outcomes("def DEEP = ['b']; def L = ['b', ['b', DEEP]]; "
               "def m = ['b', ['b', ['a']]]; def c = ['b', ['b', 'e']]; "
               "def s = <<L, m, c>>; def cur = DEEP; "
               "for i in range(20000) do def n = ['z']; append(cur, n); "
               "cur = n; end; def r = 'ok'; "
               "do length(list(s)); catch all r = 'failed'; end; r",
               seeds=range(8))
report(2, len(f2a) > 1 or len(f2b) > 1 or len(f2d) > 1 or "[3, 'ERR']" in f2c,
       "whether putting a set in order fails depends on which pairs get "
       "compared: distinct outcomes over 12 hash seeds: list(s) "
       f"{len(f2a)} ({' / '.join(first(o) for o in f2a)}), for loop with "
       f"catch {len(f2b)} ({' / '.join(first(o) for o in f2b)}), finite deep list "
       f"{len(f2d)}; two maps with "
       f"the same three keys inserted in another order: {first(f2c)}")

# ---------------------------------------------------------------- finding 3
# (same tie-breaking weakness as item 4 of the first report, but reached with
# scalars only)  Sets and maps are compared by their text, and the text of a
# set of scalars does not determine the set:
#  - a pattern is rendered without escaping, //a//, //b// is one pattern or two
#  - a date is rendered to the second, but dates carry milliseconds
f3a = outcomes("def s = << <<//a//, //b//>>, <<pattern('a//, //b')>>, "
               "<<'x'>>, <<'y'>> >>; [length(x) for x in s]", seeds=range(12))
f3b = outcomes("def d = date('20200101'); def e = d + 0.00000002; "
               "def f = d + 0.00000004; "
               "[d == e, [x == <<d>> for x in << <<d>>, <<e>>, <<f>> >>]]",
               seeds=range(12))
report(3, len(f3a) > 1 or len(f3b) > 1,
       "sets of scalars that are unequal but have one text are enumerated in "
       "hash order inside an outer set: distinct results over 12 seeds: "
       f"pattern that reads like two patterns {len(f3a)} "
       f"({' / '.join(first(o) for o in f3a)}), dates that differ by "
       f"milliseconds {len(f3b)} ({' / '.join(first(o) for o in f3b[:3])})")

# ------------------------------------------------ re-check of earlier items
n1 = outcomes("def s = <<fn() 1, fn() 2, fn() 3, fn() 4>>; "
              "[[f() for f in s], [f() for f in [...s]], string(s)]",
              seeds=[0, 0, 0, 0, 1, 2, 3, 4])
print("NOTE repaired item 4a of the first report (flat set of unnamed "
      "functions): " + ("same outcome in 8 processes: " + first(n1[0])
                        if len(n1) == 1 else f"STILL DIFFERS ({len(n1)})"))
n2 = outcomes("def S = <<'pear', 'fig', 'apple', 'kiwi'>>; ls('S')")
print("NOTE repaired item 5 of the first report (ls('S') of a set variable): "
      + ("same outcome under 8 seeds: " + first(n2[0])
         if len(n2) == 1 else f"STILL DIFFERS ({len(n2)})"))
n3 = outcomes("def l = [fn(x) 1, fn(x) 2, fn(x) 3]; def s = set(l); "
              "def before = [f(0) for f in s]; def t = string(l); "
              "min(l, key = fn(f) 0 - f(0)); filter(l, fn(f) TRUE); unique(l); "
              "reduce(l, fn(a, b) a); def [p, q] = l; def g = l[2]; "
              "[before == [f(0) for f in s], t == string(l)]",
              seeds=[0, 0, 0, 1, 2, 3])
print("NOTE repairs d87942c/3b15ef6/6cbf72d (def no longer renames functions "
      "held in a set): " + ("same outcome in 6 processes: " + first(n3[0])
                            if len(n3) == 1 else f"DIFFERS ({len(n3)})"))
n4 = outcomes("def a = 'abc'; def b = 'abd'; def s = <<a, b, 'x', 'y'>>; "
              "b[2] = 'c'; def l = list(s); l[0][0] = 'Z'; [a, b]",
              seeds=range(12))
print("NOTE the two items of the second report were left as they are "
      "(not repaired): item 2 (equal members after an in-place change) gives "
      f"{len(n4)} distinct results over 12 seeds")
