"""Reproductions for the second C20 hunt (reported source lines).

Run with:
  cd /tmp/seed4/C20 && PYTHONPATH=/tmp/seed4/C20/src /venv/bin/python hunt/repro.py

Prints one line per finding:  FINDING <n>: <VIOLATES|HOLDS> <description>
(and, after them, RECHECK lines for the items of the first report that were
repaired).  Only the ckl package and the standard library are used.
"""
import os
import signal
import sys
import tempfile

sys.path.insert(0, os.path.join(os.path.dirname(os.path.abspath(__file__)),
                                "..", "src"))

from ckl.interpreter import Interpreter  # noqa: E402
from ckl.errors import CklRuntimeError, CklSyntaxError  # noqa: E402


class Timeout(Exception):
    pass


def _alarm(*_):
    raise Timeout()


signal.signal(signal.SIGALRM, _alarm)


def run(src, legacy=True, name="t.ckl"):
    """returns (kind, msg, pos-object-or-None, stacktrace)"""
    signal.alarm(8)
    try:
        it = Interpreter(secure=False, legacy=legacy)
        it.interpret(src, name)
        return ("OK", "", None, [])
    except CklRuntimeError as e:
        try:
            msg = str(e.msg)
        except BaseException:  # noqa
            msg = "<unprintable>"
        return ("RT", msg, e.pos, list(e.stacktrace))
    except CklSyntaxError as e:
        return ("SY", str(e.msg), e.pos, [])
    except Timeout:
        return ("TIMEOUT", "", None, [])
    except BaseException as e:  # noqa
        return ("PY", type(e).__name__ + ": " + str(e), None, [])
    finally:
        signal.alarm(0)


def line_of(r):
    return None if r[2] is None else r[2].line


def report(n, violates, desc):
    print(f"FINDING {n}: {'VIOLATES' if violates else 'HOLDS'} {desc}")


def both(fn):
    """a probe violates if it violates in legacy or in non-legacy mode"""
    return any(fn(legacy) for legacy in (True, False))


# the object used by findings 1 and 2: the fault (an undefined name) is on
# line 3 of the script, inside the _str_ method
STR_OBJ = ("def o = <*_str_ = fn(self) do\n"
           "  1;\n"
           "  'obj ' + undefined_name\n"
           "end*>;\n"
           "\n"
           "\n")


# ---------------------------------------------------------------- finding 1
def f1(legacy):
    bad = 0
    for call in ["string(o)", "println(o)", "print(o)", "string([o])"]:
        r = run(STR_OBJ + call, legacy)      # the call is on line 7
        # undefined_name is on line 3; a correct report names line 3
        if r[0] == "RT" and "undefined_name" in r[1] and line_of(r) != 3:
            bad += 1
    return bad > 0


report(1, both(f1),
       "a fault inside an object's _str_ method (line 3) is reported at the "
       "line of the string()/print()/println() call that rendered the "
       "object (line 7); line 3 appears nowhere in error or stack trace")


# ---------------------------------------------------------------- finding 2
def f2(legacy):
    bad = 0
    progs = [STR_OBJ + "string(o)",
             STR_OBJ + "s('{o}')",
             STR_OBJ + "def m = <<<1 => 2>>>;\nm[o]"]
    for p in progs:
        r = run(p, legacy)
        if r[0] == "RT" and any(s == "_str_" for s in r[3]):
            bad += 1
    return bad > 0


report(2, both(f2),
       "the stack-trace entry for a _str_ method is the bare text '_str_': "
       "no file name, no line")


# ---------------------------------------------------------------- finding 3
def f3a(legacy):
    progs = [
        "def o = <*a = 1*>;\n\no[stdout]",
        "def o = <*a = 1*>;\n\no[stdout] = 2",
        "def o = <*a = 1*>;\n\no[stdout] += 2",
        "def checkerlang_module_path = [stdout];\n\nrequire foo",
        "def o = <*_str_ = fn(self, x) 'a'*>;\n"
        "def m = <<<1 => 2>>>;\n\nm[o]",
    ]
    bad = 0
    for p in progs:
        r = run(p, legacy)
        if r[0] == "RT" and r[2] is None:
            bad += 1
    return bad > 0


report("3a", both(f3a),
       "runtime errors raised by node evaluation (not by a function call) "
       "still carry no position at all: o[stdout], o[stdout] = v, require "
       "with an output in checkerlang_module_path, message rendering an "
       "object whose _str_ lacks an argument")


def f3b(legacy):
    # the faulty dereference is on line 3, the call of f on line 7
    r1 = run("def f(o, k) do\n 1;\n o[k]\nend;\n\n\nf(<*a = 1*>, stdout)",
             legacy)
    v1 = r1[0] == "RT" and line_of(r1) == 7
    # the faulty require is on line 3, the call of f on line 7
    r2 = run("def f() do\n 1;\n require foo\nend;\n"
             "def checkerlang_module_path = [stdout];\n\nf()", legacy)
    v2 = r2[0] == "RT" and line_of(r2) == 7
    return v1 or v2


report("3b", both(f3b),
       "the same errors inside a function body (line 3) are reported at the "
       "line of the call of the ENCLOSING function (line 7)")


# ---------------------------------------------------------------- finding 4
def f4(legacy):
    r1 = run("if FALSE then 1\nelif FALSE then 2\nelif 5 then 3\nelse 4",
             legacy)
    r2 = run("TRUE and\nTRUE and\nTRUE and\n5", legacy)
    r3 = run("FALSE or\nFALSE or\nFALSE or\n5", legacy)
    r4 = run("[x + y\nfor x in [1]\nfor y in\n5]", legacy)
    return all(r[0] == "RT" and line_of(r) == 1 for r in (r1, r2, r3, r4))


report(4, both(f4),
       "(doubtful) a faulty later clause of a multi-clause construct is "
       "reported at the first token of the whole construct: elif condition "
       "-> `if`, n-th operand of and/or -> FIRST and/or, second iterable of "
       "a comprehension -> `[`")


# ---------------------------------------------------------------- finding 5
def f5(_legacy):
    d = tempfile.mkdtemp()
    path = os.path.join(d, "x.ckl")
    with open(path, "w") as f:
        f.write("1;\n\nnope_in_file")
    signal.alarm(8)
    try:
        Interpreter(secure=False, legacy=True).loadFile(path)
    except CklRuntimeError as e:
        return e.pos is not None and e.pos.filename != path
    finally:
        signal.alarm(0)
        os.remove(path)
        os.rmdir(d)
    return False


report(5, f5(True),
       "(doubtful) Interpreter.loadFile(path): positions carry only the "
       "base name of the path that was given")


# ------------------------------------------------- repaired items recheck
def recheck(n, holds, desc):
    print(f"RECHECK earlier-{n}: {'HOLDS' if holds else 'STILL FAILS'} {desc}")


def r1(legacy):
    pre = ("def inp = str_input('a\\nb');\n" if legacy
           else "require IO;\ndef inp = IO->str_input('a\\nb');\n")
    base = pre.count("\n")
    for body in ["undefined_name", "error 'boom'", "1 + [1] * 'a'"]:
        r = run(pre + "\nfor line in inp do\n  1;\n  " + body + "\nend",
                legacy)
        if not (r[0] == "RT" and line_of(r) == base + 4):
            return False
    return True


recheck(1, r1(True) and r1(False),
        "fault in the body of a for loop over an input names its own line")


def r2(legacy):
    progs = ["\n\n[x for x in 5]", "\n\n<<x for x in 5>>",
             "\n\n<<<x => x for x in 5>>>",
             "\n\n[x + y for x in [1] for y in 5]",
             "\n\nbind_native('nosuch')", "\n\nls(1)"]
    if legacy:
        progs += ["\n\npow('a', 2)", "\n\nprocess_lines(['a'], 5)",
                  "\n\nmap_list(1, 1)"]
    else:
        progs += ["require Math;\n\nMath->pow('a', 2)",
                  "require List;\n\nList->map_list(1, 1)"]
    for p in progs:
        r = run(p, legacy)
        if not (r[0] == "RT" and r[2] is not None):
            return False
    return True


recheck(2, r2(True) and r2(False),
        "comprehension over a non-iterable, pow/process_lines/ls/bind_native "
        "argument errors carry a position")


def r4(legacy):
    a = run("\n'abc\\xg\n'", legacy)
    b = run('\n"abc\n\n\\xZZ"', legacy)
    return a[0] == "SY" and line_of(a) == 2 and \
        b[0] == "SY" and line_of(b) == 2


recheck(4, r4(True) and r4(False),
        "invalid hex escape is reported at the line where the string begins")
