#!/usr/bin/env python
"""Reproductions for the C16 hunt (only mutators mutate; aliases see mutations).

Run:  cd /tmp/seed3/C16 && PYTHONPATH=/tmp/seed3/C16/src /venv/bin/python hunt/repro.py

Prints one line per finding:  FINDING <n>: <VIOLATES|HOLDS> <short description>
With -v every single probe, its result and the required result are listed too.
"""
import os
import signal
import sys

sys.path.insert(
    0, os.path.join(os.path.dirname(os.path.abspath(__file__)), "..", "src")
)

from ckl.interpreter import Interpreter  # noqa: E402
from ckl.errors import CklRuntimeError, CklSyntaxError  # noqa: E402


VERBOSE = "-v" in sys.argv[1:]  # -v: also print every probe and its result


class Timeout(Exception):
    pass


def _alarm(signum, frame):
    raise Timeout()


signal.signal(signal.SIGALRM, _alarm)


def run(src, legacy=True):
    """Returns the rendered result, or a tag describing the failure."""
    it = Interpreter(secure=False, legacy=legacy)
    signal.alarm(10)
    try:
        return repr(it.interpret(src, "repro.ckl"))
    except CklRuntimeError as e:
        return "RTERR: " + str(e.msg)
    except CklSyntaxError as e:
        return "SYNERR: " + str(e.msg)
    except Timeout:
        return "TIMEOUT"
    except BaseException as e:  # internal Python exception leaking out
        return "PYEXC: " + type(e).__name__ + ": " + str(e)
    finally:
        signal.alarm(0)


def report(n, violated, text, details):
    print(f"FINDING {n}: {'VIOLATES' if violated else 'HOLDS'} {text}")
    if VERBOSE:
        for d in details:
            print("    " + d)


def all_modes(checks):
    """checks: list of (src, expected_if_property_holds). Returns (violated,
    details) evaluated in legacy and non legacy mode."""
    violated = False
    details = []
    for src, expected in checks:
        for legacy in (True, False):
            got = run(src, legacy)
            ok = got == expected
            if not ok:
                violated = True
            details.append(
                f"[{'legacy' if legacy else 'base  '}] {src}  ==> {got}"
                + ("" if ok else f"   (required: {expected})")
            )
    return violated, details


# ---------------------------------------------------------------------------
# 1. a documented mutator applied to a value that is held by a set / used as
#    a map key corrupts the holding set/map
# ---------------------------------------------------------------------------
v, d = all_modes([
    ("def l = [1]; def st = <<l>>; append(l, 2); [st, l in st]",
     "[<<[1, 2]>>, TRUE]"),
    ("def l = [1]; def st = <<l>>; append(l, 2); remove(st, l); length(st)",
     "0"),
    ("def a = <<1>>; def b = <<a>>; append(a, 2); a in b", "TRUE"),
    ("def o = <*x=1*>; def st = <<o>>; o->x = 2; o in st", "TRUE"),
    ("def l = [1]; def m = <<<>>>; m[l] = 'v'; append(l, 2); string(m)",
     "'<<<[1, 2] => \\'v\\'>>>'"),
])
report(1, v, "mutating a value held in a set / used as map key corrupts "
       "that set/map (membership lost, remove is a no-op, KeyError on "
       "rendering)", d)

# ---------------------------------------------------------------------------
# 2. strings are changed in place by element assignment and are shared
# ---------------------------------------------------------------------------
v, d = all_modes([
    # 2a results of non mutating functions are the argument string itself
    ("def s = 'abc'; def t = string(s); t[0] = 'X'; s", "'abc'"),
    ("def s = 'abc'; def t = replace(s, 'zz', 'y'); t[0] = 'X'; s", "'abc'"),
    ("def s = 'abc'; def t = if_empty(s, 'q'); t[0] = 'X'; s", "'abc'"),
    ("def s = 'abc'; def t = chunks(s, 5); t[0][0] = 'X'; s", "'abc'"),
    # 2b the key of a map is changed from outside, map is corrupted
    ("def m = <<<'abc' => 1>>>; for k in keys m do k[0] = 'X'; end; "
     "['abc' in m, 'Xbc' in m]", "[TRUE, FALSE]"),
    ("def m = <<<'abc' => 1>>>; def ks = [k for k in keys m]; "
     "ks[0][0] = 'X'; string(m)", "'<<<\\'abc\\' => 1>>>'"),
    ("def st = <<'abc'>>; for k in st do k[0] = 'X'; end; "
     "['abc' in st, 'Xbc' in st]", "[TRUE, FALSE]"),
    # 2c plain variable aliasing of a string (statement lists only lists,
    #    sets, maps and objects as shared by reference) - doubtful
    ("def s = 'abc'; def t = s; t[0] = 'X'; s", "'abc'"),
    # 2d the module constant PS is changed through a variable holding it
    ("require OS; def p = OS->PS; def orig = '' + p; p[0] = 'X'; "
     "OS->path('a', 'b') == 'a' + orig + 'b'", "TRUE"),
])
report(2, v, "string element assignment changes the shared string object: "
       "inputs of non-mutating functions, map keys, set elements and "
       "module constants change", d)

# ---------------------------------------------------------------------------
# 3. chunks() returns its argument list as (last) chunk
# ---------------------------------------------------------------------------
v, d = all_modes([
    ("def l = [1, 2]; def c = chunks(l, 5); append(c[0], 9); l", "[1, 2]"),
    ("def l = [1, 2, 3, 4]; def c = chunks(l, 4); append(c[0], 9); l",
     "[1, 2, 3, 4]"),
    # control: longer lists give independent chunks
    ("def l = [1, 2, 3, 4]; def c = chunks(l, 2); append(c[1], 9); l",
     "[1, 2, 3, 4]"),
])
report(3, v, "chunks(lst, n) with length(lst) <= n puts lst itself into the "
       "result, so the result is not independent of the input", d)

# ---------------------------------------------------------------------------
# 4. def of an alias renames the function value (and wipes info) and thereby
#    corrupts sets / maps containing the function
# ---------------------------------------------------------------------------
v, d = all_modes([
    ("def f(x) x; def s = <<f>>; def g = f; f in s", "TRUE"),
    ("def f(x) x; def m = <<<>>>; m[f] = 1; def g = f; string(m)",
     "'<<<<#f> => 1>>>'"),
    ("def f(x) x; def g = f; string(f)", "'<#f>'"),
    ("\"doc\" def f(x) x; def g = f; info(f)", "'doc'"),
    ("\"doc\" def a = [1]; def b = a; info(a)", "'doc'"),
])
report(4, v, "'def g = f' modifies the function value f (name, info); a set "
       "or map holding f is corrupted (membership lost / KeyError)", d)

# ---------------------------------------------------------------------------
# 5. member assignment to an object while a for loop iterates over it
# ---------------------------------------------------------------------------
v, d = all_modes([
    ("def o = <*a=1, b=2*>; def n = 0; for v in values o do "
     "if n == 0 then o->c = 5; n += 1; end; o", "<*a=1, b=2, c=5*>"),
    # control: the same with a map works
    ("def o = <<<'a' => 1, 'b' => 2>>>; def n = 0; for v in values o do "
     "if n == 0 then o->c = 5; n += 1; end; o",
     "<<<'a' => 1, 'b' => 2, 'c' => 5>>>"),
])
report(5, v, "adding a member to an object inside a for loop over that "
       "object leaks a Python RuntimeError", d)

# ---------------------------------------------------------------------------
# 6. (doubtful) sub expressions are evaluated twice
# ---------------------------------------------------------------------------
v, d = all_modes([
    ("def q = [0, 1]; def l = [10, 20, 30]; l[delete_at(q, 0)] += 5; [q, l]",
     "[[1], [15, 20, 30]]"),
    ("def q = [5, 6]; 1 < delete_at(q, 0) < 10; q", "[6]"),
])
report(6, v, "(doubtful) compound element assignment and chained "
       "comparisons evaluate a mutating sub-expression twice", d)
