"""Typed generators of program ASTs (see vf/gen/render.py) for C02-C05, C14."""
from vf.gen import render as R

BIG = [2 ** 31, 2 ** 53, 2 ** 63, 2 ** 64, 10 ** 22, 2 ** 100]
CMP_OPS = ["==", "!=", "<>", "<", "<=", ">", ">="]
STRS = ["", "a", "b", "ab", "abc", "x y", "it's", "A", "10", "é"]


# ------------------------------------------------------------------ C02

class ExprGen:
    """Typed expression trees over pre-bound variables.

    Kinds: int, dec, num, bool, str, ilist (list of ints), null."""

    PRELUDE = [
        ("def", "i1", ("int", 7)), ("def", "i2", ("int", -3)),
        ("def", "i3", ("int", 9007199254740993)),
        ("def", "d1", ("dec", 2.5)), ("def", "d2", ("dec", -0.5)),
        ("def", "b1", ("bool", True)), ("def", "b2", ("bool", False)),
        ("def", "s1", ("str", "abc")), ("def", "s2", ("str", "")),
        ("def", "l1", ("list", [("int", 1), ("int", 2), ("int", 3)])),
        ("def", "l2", ("list", [])), ("def", "n1", ("null",)),
    ]
    VARS = {"int": ["i1", "i2", "i3"], "dec": ["d1", "d2"],
            "bool": ["b1", "b2"], "str": ["s1", "s2"],
            "ilist": ["l1", "l2"], "null": ["n1"]}

    def __init__(self, ch, max_depth=5, inject=True):
        self.ch = ch
        self.max_depth = max_depth
        self.inject = inject
        self.injected = False

    def maybe_par(self, e):
        if self.ch.bool(0.1):
            return ("par", e)
        return e

    def gen(self, kind, d=0):
        e = getattr(self, "g_" + kind)(d)
        return self.maybe_par(e) if d > 0 else e

    def leaf(self, kind):
        ch = self.ch
        if ch.bool(0.35):
            return ("var", ch.choice(self.VARS[kind]))
        if kind == "int":
            k = ch.weighted([(6, "small"), (2, "mid"), (2, "big")])
            if k == "small":
                return ("int", ch.int(-9, 9))
            if k == "mid":
                return ("int", ch.int(-100000, 100000))
            v = ch.choice(BIG) + ch.int(-2, 2)
            return ("int", -v if ch.bool(0.4) else v)
        if kind == "dec":
            return ("dec", ch.choice([0.5, 1.5, 2.0, -2.25, 10.0, 0.25, 100.5,
                                      3.0, -1.0, 0.0]))
        if kind == "bool":
            return ("bool", ch.bool())
        if kind == "str":
            return ("str", ch.choice(STRS))
        if kind == "ilist":
            return ("list", [("int", ch.int(-3, 5))
                             for _ in range(ch.int(0, 3))])
        if kind == "null":
            return ("null",)
        raise ValueError(kind)

    def g_num(self, d):
        return self.gen("int" if self.ch.bool(0.6) else "dec", d)

    def g_int(self, d):
        ch = self.ch
        if d >= self.max_depth or ch.bool(0.3):
            return self.leaf("int")
        k = ch.weighted([(4, "+"), (4, "-"), (4, "*"), (3, "/"), (2, "%"),
                         (2, "neg"), (1, "length"), (1, "pos")])
        if k in ("+", "-", "*"):
            return ("bin", k, self.gen("int", d + 1), self.gen("int", d + 1))
        if k == "/":
            if ch.bool(0.06):
                div = ("int", 0)
            elif ch.bool(0.7):
                div = ("int", ch.choice([1, 2, 3, 7, -1, -2, -5, 10,
                                         1000000007, -(2 ** 40)]))
            else:
                div = self.gen("int", d + 1)
            return ("bin", "/", self.gen("int", d + 1), div)
        if k == "%":
            a = ("int", ch.int(0, 10 ** ch.int(1, 25))) if ch.bool(0.7) \
                else ("bin", "*", self.gen("int", d + 2), ("int", 0))
            b = ("int", ch.choice([1, 2, 3, 7, 10, 97, 2 ** 40 + 1]))
            if ch.bool(0.04):
                b = ("int", 0)
            return ("bin", "%", a, b)
        if k == "neg":
            return ("neg", self.gen("int", d + 1))
        if k == "pos":
            return ("pos", self.gen("int", d + 1))
        return ("call", ("var", "length"),
                [("pos", self.gen("str" if ch.bool() else "ilist", d + 1))])

    def g_dec(self, d):
        ch = self.ch
        if d >= self.max_depth or ch.bool(0.3):
            return self.leaf("dec")
        k = ch.choice(["+", "-", "*", "/", "neg"])
        if k == "neg":
            return ("neg", self.gen("dec", d + 1))
        mix = ch.int(0, 2)
        a = self.gen("int" if mix == 0 else "dec", d + 1)
        b = self.gen("int" if mix == 1 else "dec", d + 1)
        if k == "/":
            b = ("dec", ch.choice([0.5, 2.0, -4.0, 0.25, 10.0])) if mix != 1 \
                else ("int", ch.choice([1, 2, -4, 5, 8]))
        return ("bin", k, a, b)

    def g_str(self, d):
        ch = self.ch
        if d >= self.max_depth or ch.bool(0.4):
            return self.leaf("str")
        k = ch.choice(["cat", "cat", "cat-int", "int-cat", "rep"])
        if k == "cat":
            return ("bin", "+", self.gen("str", d + 1), self.gen("str", d + 1))
        if k == "cat-int":
            return ("bin", "+", self.gen("str", d + 1), self.gen("int", d + 1))
        if k == "int-cat":
            return ("bin", "+", self.gen("int", d + 1), self.gen("str", d + 1))
        return ("bin", "*", self.gen("str", d + 1), ("int", ch.int(0, 3)))

    def g_ilist(self, d):
        ch = self.ch
        if d >= self.max_depth or ch.bool(0.4):
            return self.leaf("ilist")
        k = ch.choice(["lit", "cat", "add", "sub", "rep", "sublist"])
        if k == "lit":
            return ("list", [self.gen("int", d + 1)
                             for _ in range(ch.int(0, 3))])
        if k == "cat":
            return ("bin", "+", self.gen("ilist", d + 1),
                    self.gen("ilist", d + 1))
        if k == "add":
            return ("bin", "+", self.gen("ilist", d + 1),
                    self.gen("int", d + 1))
        if k == "sub":
            return ("bin", "-", self.gen("ilist", d + 1),
                    self.gen("int" if ch.bool() else "ilist", d + 1))
        if k == "rep":
            return ("bin", "*", self.gen("ilist", d + 1), ("int", ch.int(0, 2)))
        return ("bin", "-", self.gen("ilist", d + 1),
                ("list", [self.gen("int", d + 2)]))

    def g_null(self, d):
        ch = self.ch
        if d >= self.max_depth or ch.bool(0.4):
            return self.leaf("null")
        o = ch.choice(["+", "-", "*", "/", "%"])
        other = self.gen("num", d + 1)
        if ch.bool():
            return ("bin", o, self.gen("null", d + 1), other)
        return ("bin", o, other, self.gen("null", d + 1))

    def any_kind(self):
        return self.ch.choice(["int", "dec", "bool", "str", "ilist", "null"])

    def g_bool(self, d):
        ch = self.ch
        if d >= self.max_depth or ch.bool(0.2):
            return self.leaf("bool")
        k = ch.weighted([(4, "cmp"), (3, "chain"), (3, "eq"), (3, "and"),
                         (3, "or"), (2, "not"), (2, "in"), (1, "strin"),
                         (2, "is"), (1, "strcmp"), (1, "listcmp")])
        if k == "cmp":
            return ("cmp", [self.gen("num", d + 1), self.gen("num", d + 1)],
                    [ch.choice(CMP_OPS)])
        if k == "chain":
            n = ch.int(3, 4)
            # chain operands are pure (they may be evaluated more than once)
            return ("cmp", [self.gen("num", d + 1) for _ in range(n)],
                    [ch.choice(CMP_OPS) for _ in range(n - 1)])
        if k == "eq":
            ka = self.any_kind()
            kb = ka if ch.bool(0.7) else self.any_kind()
            return ("cmp", [self.gen(ka, d + 1), self.gen(kb, d + 1)],
                    [ch.choice(["==", "!=", "<>"])])
        if k == "strcmp":
            return ("cmp", [self.gen("str", d + 1), self.gen("str", d + 1)],
                    [ch.choice(CMP_OPS)])
        if k == "listcmp":
            return ("cmp", [self.gen("ilist", d + 1),
                            self.gen("ilist", d + 1)],
                    [ch.choice(CMP_OPS)])
        if k in ("and", "or"):
            n = ch.int(2, 3)
            items = [self.gen("bool", d + 1) for _ in range(n)]
            if self.inject and ch.bool(0.12):
                # non-boolean operand: a runtime error iff it is reached
                pos = ch.int(0, n - 1)
                items[pos] = self.gen(ch.choice(["int", "str", "null"]),
                                      d + 1)
                self.injected = True
            return (k, items)
        if k == "not":
            if self.inject and ch.bool(0.05):
                self.injected = True
                return ("not", self.gen("int", d + 1))
            return ("not", self.gen("bool", d + 1))
        if k == "in":
            return ("in", self.gen("int" if ch.bool(0.8) else "dec", d + 1),
                    self.gen("ilist", d + 1), ch.bool(0.3))
        if k == "strin":
            return ("in", self.gen("str", d + 1), self.gen("str", d + 1),
                    ch.bool(0.3))
        pred = ch.choice(["string", "int", "decimal", "boolean", "list",
                          "empty", "zero", "negative", "func", "set", "map",
                          "object", "pattern"])
        return ("is", self.gen(self.any_kind(), d + 1), [pred], ch.bool(0.4))


def count_ops(e):
    """(number of operator nodes, relies_on_precedence, has_big_int)."""
    ops = 0
    relies = False
    big = False

    def walk(x, parent_level=None, in_par=False):
        nonlocal ops, relies, big
        if not isinstance(x, tuple):
            if isinstance(x, list):
                for y in x:
                    walk(y)
            return
        k = x[0]
        if k == "int" and abs(x[1]) > 2 ** 53:
            big = True
        lv = R.level(x) if k in ("bin", "cmp", "and", "or", "not", "neg",
                                 "in", "is") else None
        if lv is not None:
            ops += 1
            if parent_level is not None:
                relies = True
        for y in x[1:]:
            if isinstance(y, tuple):
                walk(y, lv if k != "par" else None)
            elif isinstance(y, list):
                for z in y:
                    if isinstance(z, tuple):
                        walk(z, lv)
    walk(e)
    return ops, relies, big
