"""Generators of model data values (see vf/model/values.py) driven by a Chooser."""
import datetime

from vf.model import values as mv

BIG = [2 ** 31, 2 ** 32, 2 ** 53, 2 ** 63, 2 ** 64, 2 ** 80, 2 ** 100, 10 ** 22]
ADV_CHARS = list("ab z!\"#&'()\\\t\n\ré{}<>/|.*+?[]$^A0") + \
    ["\x00", "\x1b", "\x7f", "//", "<<", ">>", "\\\\", "''", "ß", "€", "{0}"]
ORDER_CHARS = list(" !\"#&'(aZ\\\t\né")   # below and above the quote char
DATES = [
    datetime.datetime(2020, 1, 1), datetime.datetime(2020, 1, 2),
    datetime.datetime(1999, 12, 31, 23, 59, 59),
    datetime.datetime(2024, 2, 29, 12, 0, 0), datetime.datetime(1970, 1, 1),
    datetime.datetime(2100, 3, 1), datetime.datetime(2020, 1, 1, 0, 0, 1),
]
PATTERNS = ["a", "a+", "[a-z]*", "^x$", "(a|b)c", "\\d+", ".", "a/b", "",
            "a//b", "x{2,3}", "\\."]


def gen_int(ch, big=True):
    k = ch.weighted([(5, "small"), (2, "mid"), (3 if big else 0, "big")])
    if k == "small":
        return ch.int(-5, 5)
    if k == "mid":
        return ch.int(-100000, 100000)
    b = ch.choice(BIG)
    v = b + ch.int(-3, 3)
    return -v if ch.bool(0.4) else v


def gen_decimal(ch, wide=False):
    k = ch.weighted([(3, "integral"), (3, "simple"), (2, "nearint"),
                     (3 if wide else 0, "wide"), (1, "zero")])
    if k == "integral":
        return float(ch.int(-5, 5))
    if k == "simple":
        return ch.choice([0.5, 2.5, -1.5, 0.25, 3.75, 0.1, 1.1, -0.75, 100.5])
    if k == "nearint":
        b = ch.choice([2 ** 31, 2 ** 53, 2 ** 63, 2 ** 64, 10 ** 15, 10 ** 16])
        v = float(b + ch.int(-2, 2) * (1 if b < 2 ** 53 else 1024))
        return -v if ch.bool(0.3) else v
    if k == "zero":
        return ch.choice([0.0, -0.0])
    v = ch.choice([1e-5, 1e-4, 1.5e-7, 1e-320, 5e-324, 1e16, 1.2e17, 1e22,
                   1e100, 1.7976931348623157e308, 123456789.125, 1e15,
                   9999999999999998.0, 0.00001234, 2.5e-10, 1e21, 1e-7])
    return -v if ch.bool(0.3) else v


def gen_string(ch, chars=ADV_CHARS, maxlen=8):
    n = ch.weighted([(2, 0), (3, 1), (3, 2), (4, None)])
    if n is None:
        n = ch.int(0, maxlen)
    return "".join(ch.choice(chars) for _ in range(n))


def gen_scalar(ch, kinds=("null", "boolean", "int", "decimal", "string",
                          "date", "pattern"), wide=False, chars=ADV_CHARS):
    k = ch.choice(kinds)
    if k == "null":
        return None
    if k == "boolean":
        return ch.bool()
    if k == "int":
        return gen_int(ch)
    if k == "decimal":
        return gen_decimal(ch, wide)
    if k == "string":
        return gen_string(ch, chars)
    if k == "date":
        return ch.choice(DATES)
    if k == "pattern":
        return mv.Pat(ch.choice(PATTERNS))
    raise ValueError(k)


def gen_value(ch, depth=3, kinds=None, wide=False, chars=ADV_CHARS,
              hashable_only=False, maxlen=4):
    """A data value to the given depth.  Lists may appear as set elements
    and map keys only if hashable_only is False (the interpreter hashes lists
    structurally, so they are usable; mutation is never involved here)."""
    scal = kinds or ("null", "boolean", "int", "decimal", "string", "date",
                     "pattern")
    if depth <= 0 or ch.bool(0.45):
        return gen_scalar(ch, scal, wide, chars)
    k = ch.choice(["list", "set", "map"])
    n = ch.int(0, maxlen)
    if k == "list":
        return [gen_value(ch, depth - 1, kinds, wide, chars, hashable_only,
                          maxlen) for _ in range(n)]
    if k == "set":
        return mv.MSet([gen_value(ch, depth - 1, kinds, wide, chars,
                                  hashable_only, maxlen) for _ in range(n)])
    return mv.MMap([(gen_value(ch, depth - 1, kinds, wide, chars,
                               hashable_only, maxlen),
                     gen_value(ch, depth - 1, kinds, wide, chars,
                               hashable_only, maxlen)) for _ in range(n)])


def exact_float(i):
    try:
        return float(i) == i
    except OverflowError:
        return False


def variant(ch, v):
    """A model-equal value with (where possible) another representation:
    int <-> integral decimal, permuted set/map construction order, variants
    of the elements."""
    k = mv.kind(v)
    if k == "int" and exact_float(v) and ch.bool(0.7):
        return float(v)
    if k == "decimal" and v == v and abs(v) < 1e300 and v == int(v) \
            and ch.bool(0.7):
        return int(v)
    if k == "list":
        return [variant(ch, x) for x in v]
    if k == "set":
        return mv.MSet(ch.shuffle([variant(ch, x) for x in v.items]))
    if k == "map":
        return mv.MMap(ch.shuffle([(variant(ch, a), variant(ch, b))
                                   for a, b in v.pairs]))
    return v


def mutate(ch, v):
    """A value close to v but (usually) not equal: useful for near-miss
    pairs."""
    k = mv.kind(v)
    if k == "int":
        return v + ch.choice([1, -1])
    if k == "decimal":
        return v + ch.choice([0.5, -0.5, 1.0]) if abs(v) < 1e15 else -v
    if k == "string":
        if v and ch.bool():
            return v[:-1]
        return v + ch.choice(ADV_CHARS)
    if k == "boolean":
        return not v
    if k == "list":
        if v and ch.bool(0.6):
            i = ch.int(0, len(v) - 1)
            return v[:i] + [mutate(ch, v[i])] + v[i + 1:]
        return v + [gen_scalar(ch)]
    if k == "set":
        items = list(v.items)
        if items and ch.bool(0.6):
            i = ch.int(0, len(items) - 1)
            items[i] = mutate(ch, items[i])
            return mv.MSet(items)
        return mv.MSet(items + [gen_scalar(ch)])
    if k == "map":
        pairs = list(v.pairs)
        if pairs and ch.bool(0.6):
            i = ch.int(0, len(pairs) - 1)
            a, b = pairs[i]
            pairs[i] = (a, mutate(ch, b)) if ch.bool() else (mutate(ch, a), b)
            return mv.MMap(pairs)
        return mv.MMap(pairs + [(gen_scalar(ch), gen_scalar(ch))])
    return gen_scalar(ch)


# ---------------------------------------------------------- same-kind values

def gen_shape(ch, depth=1):
    """Order-class shape: 'num' | 'string' | 'boolean' | 'date' |
    ('list', shape)."""
    k = ch.choice(["num", "num", "string", "string", "boolean", "date",
                   "list"])
    if k == "list":
        if depth <= 0:
            return ("list", ch.choice(["num", "string", "boolean", "date"]))
        return ("list", gen_shape(ch, depth - 1))
    return k


def gen_of_shape(ch, shape):
    if shape == "num":
        return gen_int(ch) if ch.bool() else gen_decimal(ch)
    if shape == "string":
        return gen_string(ch, ORDER_CHARS, 5)
    if shape == "boolean":
        return ch.bool()
    if shape == "date":
        return ch.choice(DATES)
    return [gen_of_shape(ch, shape[1]) for _ in range(ch.int(0, 3))]


def near(ch, v, shape):
    """A value of the same shape that is related to v: equal, a variant, a
    prefix / extension, or a neighbour."""
    k = ch.int(0, 5)
    if k == 0:
        return v
    if k == 1:
        return variant(ch, v)
    if shape == "string":
        if k == 2:
            return v + ch.choice(ORDER_CHARS)
        if k == 3 and v:
            return v[:-1]
        if k == 4 and v:
            i = ch.int(0, len(v) - 1)
            return v[:i] + ch.choice(ORDER_CHARS) + v[i + 1:]
    if shape == "num":
        if k == 2:
            return v + 1 if isinstance(v, int) else v + 0.5
        if k == 3:
            return -v
    if isinstance(shape, tuple):
        if k == 2:
            return v + [gen_of_shape(ch, shape[1])]
        if k == 3 and v:
            return v[:-1]
        if k == 4 and v:
            i = ch.int(0, len(v) - 1)
            return v[:i] + [near(ch, v[i], shape[1])] + v[i + 1:]
    return gen_of_shape(ch, shape)
