import sys, math, itertools, collections, re, statistics, functools
from hypothesis import given, settings, strategies as st, seed, HealthCheck
from ckl.interpreter import Interpreter
from ckl.functions import get_none_environment
from ckl.errors import *
from ckl.values import *
it = Interpreter(False, True)
def ev(src): return it.interpret(src, "t", get_none_environment())
def lit(x):
    if isinstance(x, bool): return 'TRUE' if x else 'FALSE'
    if isinstance(x, int): return str(x)
    if isinstance(x, float):
        r = repr(x); 
        return r if '.' in r else r + '.0'
    if isinstance(x, str): return "'" + x + "'"
    if isinstance(x, list): return '[' + ', '.join(lit(y) for y in x) + ']'
    if isinstance(x, (set, frozenset)): return '<< ' + ', '.join(lit(y) for y in x) + ' >>'
def py(v):
    if v.isString(): return v.value
    if v.isInt() : return v.value
    if v.isDecimal(): return float(v.value)
    if v.isBoolean(): return v.value
    if v.isNull(): return None
    if v.isList(): return [py(x) for x in v.value]
    if v.isSet(): return set(py(x) for x in v.value)
    raise Exception("conv " + v.type())
buckets = collections.Counter(); ex = {}
def note(k, e):
    buckets[k]+=1
    if k not in ex or len(e) < len(ex[k]): ex[k]=e
def chk(name, src, expect, approx=False):
    try:
        got = py(ev(src))
    except Exception as e:
        note((name, "raises", type(e).__name__, str(getattr(e,'msg',e))[:40]), src); return
    ok = got == expect
    if approx and not ok:
        try: ok = math.isclose(got, expect, rel_tol=1e-9, abs_tol=1e-12)
        except Exception: ok = False
    if not ok: note((name, "mismatch"), "%s -> %r expected %r" % (src, got, expect))
elem = st.one_of(st.integers(-3, 6), st.sampled_from([1.0, 2.0, 2.5, -1.5]), st.sampled_from(['a','b','ab']))
nums = st.one_of(st.integers(-9, 9), st.sampled_from([1.0, 2.0, 2.5, -1.5, 0.5]))
N=[0]
def uniq(l):
    out=[]
    for x in l:
        if not any(x == y and type(x) is not bool for y in out): out.append(x)
    return out
@seed(3)
@settings(max_examples=1500, deadline=None, database=None, suppress_health_check=list(HealthCheck))
@given(st.lists(elem, max_size=7), st.lists(elem, max_size=7), st.lists(nums, min_size=1, max_size=7), st.integers(0, 2**80), st.integers(1, 2**80), st.integers(1,4))
def t(a, b, ns, big1, big2, k):
    N[0]+=1
    A, B, NS = lit(a), lit(b), lit(ns)
    chk("union", "require Set; Set->union(%s, %s)" % (A,B), set(a)|set(b))
    chk("intersection", "require Set; Set->intersection(%s, %s)" % (A,B), set(a)&set(b))
    chk("diff", "require Set; Set->diff(%s, %s)" % (A,B), set(a)-set(b))
    chk("symdiff", "require Set; Set->symmetric_diff(%s, %s)" % (A,B), set(a)^set(b))
    chk("unique", "require List; List->unique(%s)" % A, uniq(a))
    chk("reverse", "require List; List->reverse(%s)" % A, a[::-1])
    chk("flatten", "require List; List->flatten(%s)" % lit([a, 1, b]), a + [1] + b)
    chk("zip", "zip(%s, %s)" % (A,B), [list(p) for p in zip(a,b)])
    chk("enumerate", "enumerate(%s)" % A, [[i,x] for i,x in enumerate(a)])
    chk("chunks", "chunks(%s, %d)" % (A,k), [a[i:i+k] for i in range(0,len(a),k)] if a else [[]])
    chk("pairs", "pairs(%s)" % A, [[a[i],a[i+1]] for i in range(len(a)-1)])
    chk("filter", "require List; List->filter(%s, fn(x) x > 0)" % NS, [x for x in ns if x > 0])
    chk("map_list", "require List; List->map_list(%s, fn(x) x * 2)" % NS, [x*2 for x in ns])
    chk("reduce", "require List; List->reduce(%s, add)" % NS, functools.reduce(lambda x,y:x+y, ns), approx=True)
    chk("sum", "sum(%s)" % NS, sum(ns), approx=True)
    chk("prod", "require List; List->prod(%s)" % NS, functools.reduce(lambda x,y:x*y, ns), approx=True)
    chk("mean", "require Stat; Stat->mean(%s)" % NS, sum(ns)/len(ns), approx=True)
    srt = sorted(ns)
    chk("median_low", "require Stat; Stat->median_low(%s)" % NS, srt[(len(ns)-1)//2])
    chk("median_high", "require Stat; Stat->median_high(%s)" % NS, srt[len(ns)//2])
    chk("median", "require Stat; Stat->median(%s)" % NS, srt[len(ns)//2] if len(ns)%2 else (srt[len(ns)//2-1]+srt[len(ns)//2])/2.0, approx=True)
    chk("min", "min(%s)" % NS, min(ns)); chk("max", "max(%s)" % NS, max(ns))
    chk("sorted", "sorted(%s)" % NS, sorted(ns))
    chk("gcd", "require Math; Math->gcd(%d, %d)" % (big1,big2), math.gcd(big1,big2))
    chk("lcm", "require Math; Math->lcm(%d, %d)" % (big1,big2), big1*big2//math.gcd(big1,big2))
    chk("abs", "require Math; Math->abs(%d)" % (-big1), big1)
    chk("sign", "require Math; Math->sign(%d)" % (-big2), -1)
    chk("pow", "require Math; Math->pow(%d, %d)" % (big1 % 1000, k*7), (big1%1000)**(k*7))
    chk("range", "range(%d, %d, %d)" % (a and isinstance(a[0],int) and a[0] or 0, len(b), k), list(range(a and isinstance(a[0],int) and a[0] or 0, len(b), k)))
    chk("interval", "interval(%d, %d)" % (k, len(b)), list(range(k, len(b)+1)))
    chk("grouped", "require List; List->grouped(%s)" % NS, [list(g) for _,g in itertools.groupby(ns)])
t()
print(N[0], "cases")
for k,c in sorted(buckets.items(), key=lambda x:-x[1]): print(c, k, repr(ex[k])[:240])
