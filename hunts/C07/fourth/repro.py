#!/usr/bin/env python
"""C07 third hunt - reproductions.

Run:  cd /tmp/seed6/C07 && PYTHONPATH=/tmp/seed6/C07/src /venv/bin/python hunt/repro.py
Prints one line per finding: FINDING <n>: <VIOLATES|HOLDS> <short description>
(both findings are classified "doubtful" in FINDINGS.md), followed by indented
detail lines, and one RECHECK line for the item repaired after the second hunt.
"""
import signal

from ckl.interpreter import Interpreter
from ckl.errors import CklRuntimeError, CklSyntaxError


class Timeout(Exception):
    pass


def _alarm(signum, frame):
    raise Timeout()


signal.signal(signal.SIGALRM, _alarm)


def run(src, legacy=True):
    it = Interpreter(secure=False, legacy=legacy)
    signal.alarm(10)
    try:
        return str(it.interpret(src, "repro.ckl"))
    except CklRuntimeError as e:
        return "RuntimeError: " + str(e.msg)
    except CklSyntaxError as e:
        return "SyntaxError: " + str(e.msg)
    except Timeout:
        return "TIMEOUT"
    except BaseException as e:  # host exception
        return "HOST " + type(e).__name__ + ": " + str(e)
    finally:
        signal.alarm(0)


def finding(n, description, probes):
    """probes: list of (program, required result)"""
    details = []
    violated = False
    for legacy in (True, False):
        for src, required in probes:
            got = run(src, legacy)
            if got != required:
                violated = True
                details.append(
                    f"    {src}  =>  {got}   (required: {required}) "
                    f"[legacy={legacy}]"
                )
    print(f"FINDING {n}: {'VIOLATES' if violated else 'HOLDS'} {description}")
    for line in details:
        print(line)


D = "def d = date('20200101'); "

finding(
    1,
    "(doubtful) lists whose elements differ in kind at the deciding position "
    "(number vs date) are ordered by the elements' text: '<' on lists is "
    "cyclic, sorted/min/max depend on the input order",
    [
        # a cycle: exactly one of the three may be TRUE the "wrong" way
        (D + "[[3] < [10], [10] < [d], [d] < [3]]",
         "[TRUE, TRUE, FALSE]"),
        (D + "[compare([3], [10]), compare([10], [d]), compare([3], [d])]",
         "[-1, -1, -1]"),
        # sorted must not depend on the order of its input
        (D + "sorted([[3], [10], [d]]) == sorted([[d], [3], [10]])", "TRUE"),
        (D + "sorted([[3], [10], [d]]) == sorted([[10], [d], [3]])", "TRUE"),
        # min of a list must not depend on the order of the list
        (D + "min([[3], [10], [d]]) == min([[d], [3], [10]])", "TRUE"),
        (D + "max([[3], [10], [d]]) == max([[d], [3], [10]])", "TRUE"),
    ],
)

finding(
    2,
    "(doubtful) sets, maps and objects: '==' is structural (1 equals 1.0) "
    "but '<' compares the text, so a == b and a < b hold together and "
    "compare(a, b) is -1 for equal values",
    [
        ("[<<1.0>> == <<1>>, <<1.0>> < <<1>>, compare(<<1.0>>, <<1>>)]",
         "[TRUE, FALSE, 0]"),
        ("[<<<1 => 1>>> == <<<1.0 => 1>>>, <<<1 => 1>>> < <<<1.0 => 1>>>, "
         "compare(<<<1 => 1>>>, <<<1.0 => 1>>>)]",
         "[TRUE, FALSE, 0]"),
        ("[<*a = 1*> == <*a = 1.0*>, <*a = 1*> < <*a = 1.0*>, "
         "compare(<*a = 1*>, <*a = 1.0*>)]",
         "[TRUE, FALSE, 0]"),
        # the list order built on top of it disagrees with the element order
        ("[<<1.0>> < <<1>>, [<<1.0>>] < [<<1>>]]", "[FALSE, FALSE]"),
    ],
)

# re-check of the item repaired after the second hunt (map whose list key
# was changed in place): every enumeration works and is in key order
pre = ("def k = [1]; def m = <<<[2] => 'b', [0] => 'c'>>>; m[k] = 'a'; "
       "k[0] = 3; ")
checks = [
    ("[x for x in keys m]", "[[0], [2], [3]]"),
    ("def r = []; for x in keys m do append(r, x) end; r", "[[0], [2], [3]]"),
    ("[x for x in values m]", "['c', 'b', 'a']"),
    ("[x for x in entries m]", "[[[0], 'c'], [[2], 'b'], [[3], 'a']]"),
    ("string(m)", "'<<<[0] => \\'c\\', [2] => \\'b\\', [3] => \\'a\\'>>>'"),
    ("def f(a...) a...; f(...m)", "['c', 'b', 'a']"),
    ("object(m)", "<*[0]='c', [2]='b', [3]='a'*>"),
]
bad = []
for legacy in (True, False):
    for src, required in checks:
        got = run(pre + src, legacy)
        if got != required:
            bad.append(f"    {src}  =>  {got}   (required: {required}) "
                       f"[legacy={legacy}]")
print("RECHECK second hunt finding 1 (map with a list key changed in place "
      "can be enumerated): " + ("STILL FAILS" if bad else "repaired, holds"))
for line in bad:
    print(line)
