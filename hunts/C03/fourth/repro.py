#!/usr/bin/env python
"""Reproductions for the third C03 hunt (lexical names / argument binding).

Run:  cd /tmp/seed6/C03 && PYTHONPATH=/tmp/seed6/C03/src /venv/bin/python hunt/repro.py
Prints one line per finding: FINDING <n>: <VIOLATES|HOLDS> <description>
(and CHECK lines for the items of the earlier reports that were repaired).
Uses only the ckl package and the standard library; every probe runs under
signal.alarm so that a hang is reported as TIMEOUT.
"""
import signal

from ckl.interpreter import Interpreter
from ckl.errors import CklRuntimeError, CklSyntaxError


class Timeout(Exception):
    pass


def _on_alarm(*_):
    raise Timeout()


signal.signal(signal.SIGALRM, _on_alarm)


def run(src, legacy=True, limit=5):
    """Returns the printed value, or 'RTE: msg', 'SYN: msg', 'EXC: Type', 'TIMEOUT'."""
    signal.alarm(limit)
    try:
        it = Interpreter(secure=False, legacy=legacy)
        return str(it.interpret(src, "repro.ckl"))
    except CklRuntimeError as e:
        return "RTE: " + str(e.msg)
    except CklSyntaxError as e:
        return "SYN: " + str(e.msg)
    except Timeout:
        return "TIMEOUT"
    except Exception as e:  # host-level exception leaking out of the interpreter
        return "EXC: " + type(e).__name__
    finally:
        signal.alarm(0)


def both(src):
    return [run(src, legacy=True), run(src, legacy=False)]


def report(n, violates, text):
    print(f"FINDING {n}: {'VIOLATES' if violates else 'HOLDS'} {text}")


# 1 -- a library function written in the language names a symbol that exists
#      only in the legacy base environment: outside legacy mode the name does
#      not resolve (Core->map_get_pattern uses str_matches, an alias that only
#      modules/legacy.ckl creates; Core itself imports the function as `matches`)
src = "map_get_pattern(<<<//[ab]// => 1, //[cd]// => 2>>>, 'c')"
r_l = run(src, legacy=True)
r_n = run(src, legacy=False)
r_q = run("require Core; Core->map_get_pattern(<<<//[ab]// => 1>>>, 'a', 9)", legacy=False)
report(1, r_l == "2" and (r_n != "2" or r_q != "1"),
       f"Core->map_get_pattern outside legacy mode: legacy -> {r_l}, non-legacy -> {r_n}; "
       f"qualified call -> {r_q} (want 2 / 2 / 1)")

# 2 -- (doubtful) an entry of a spread map whose key is the empty string is
#      bound as a positional argument, any other string that is no parameter
#      name is rejected
r_a = both("def f(a, b) [a, b]; f(...<<<'' => 1>>>, 2)")
r_b = both("def f(a, b) [a, b]; f(...<<<'zz' => 1>>>, 2)")
report(2, any(not x.startswith("RTE") for x in r_a) and all(x.startswith("RTE") for x in r_b),
       f"(doubtful) f(...<<<'' => 1>>>, 2) -> {r_a[0]} while f(...<<<'zz' => 1>>>, 2) -> {r_b[0]}")


# ---- items of the earlier reports that were repaired: do they hold now?
def check(text, ok):
    print(f"CHECK {'ok  ' if ok else 'FAIL'} {text}")


r = both("def k = fn(r...) r...; find([1, 2, 3], [2], key = k)")
check(f"rest parameter of a callback of a built-in is a list: {r}", r == ["1", "1"])
r = both("def o = <* _proto_ = NULL *>; o->m") + both("def o = <* a = 1 *>; o->_proto_ = o; o->nosuch")
check(f"_proto_ that is no object / cyclic _proto_: {r}", r == ["NULL"] * 4)
r = both("def f(i) do for i in [1, 2] do i end; i end; f(7)")
check(f"for loop restores a same-named parameter: {r}", r == ["7", "7"])
r = both("def f() do def compare(a, b) b - a; sorted([3, 1, 2]) end; f()")
check(f"sorted ignores a caller-local compare: {r}", r == ["[1, 2, 3]"] * 2)
r = both("def f(x) do def class A do def x = 3 end; x end; f('param')") + \
    both("def v = 'mine'; def class A do def v = 3; def m(self) 1 end; v")
check(f"class members stay out of the enclosing scope: {r}", r == ["'param'", "'param'", "'mine'", "'mine'"])
