import sys, math, itertools, collections, datetime
from hypothesis import given, settings, strategies as st, seed, HealthCheck
from ckl.values import *
buckets = collections.Counter(); ex = {}
def note(k, e):
    buckets[k]+=1
    if k not in ex or len(e) < len(ex[k]): ex[k]=e
ALPHA = list(" !\"#&'(aZ\\\t\né")
strs = st.lists(st.sampled_from(ALPHA), max_size=4).map("".join)
ints = st.one_of(st.integers(-3,3), st.sampled_from([2**53, 2**53+1, 2**53-1, 2**63, 2**64+1, -2**53-1]))
decs = st.one_of(st.sampled_from([0.0, -0.0, 1.0, 2.0, 2.5, -1.5, 2.0**53, 2.0**53+2, 1e300, 0.1]), st.floats(allow_nan=False, allow_infinity=False, width=32))
dates = st.integers(0, 5).map(lambda d: datetime.datetime(2020,1,1) + datetime.timedelta(days=d))
def scal():
    return st.one_of(st.just(None), st.booleans(), ints, decs, strs.map(lambda s:('s',s)), dates, st.sampled_from(['a','b.']).map(lambda p:('p',p)))
def ext(ch):
    return st.one_of(st.lists(ch, max_size=3).map(lambda l:('L',tuple(l))), st.lists(ch, max_size=3).map(lambda l:('S',tuple(l))), st.lists(st.tuples(ch, ch), max_size=2).map(lambda l:('M',tuple(l))))
vals = st.recursive(scal(), ext, max_leaves=6)
def mk(v):
    if v is None: return NULL
    if isinstance(v, bool): return ValueBoolean.fromval(v)
    if isinstance(v, int): return ValueInt(v)
    if isinstance(v, float): return ValueDecimal(v)
    if isinstance(v, datetime.datetime): return ValueDate(v)
    t = v[0]
    if t=='s': return ValueString(v[1])
    if t=='p': return ValuePattern(v[1])
    if t=='L':
        r=ValueList()
        for x in v[1]: r.addItem(mk(x))
        return r
    if t=='S':
        r=ValueSet()
        for x in v[1]: r.addItem(mk(x))
        return r
    if t=='M':
        r=ValueMap()
        for k,x in v[1]: r.addItem(mk(k), mk(x))
        return r
def kind(v):
    if v is None: return 'null'
    if isinstance(v,bool): return 'bool'
    if isinstance(v,(int,float)): return 'num'
    if isinstance(v, datetime.datetime): return 'date'
    return v[0]
def meq(a,b):
    ka,kb = kind(a),kind(b)
    if ka!=kb: return False
    if ka in ('null',): return True
    if ka in ('bool','num','date'): return a==b
    if ka in ('s','p'): return a[1]==b[1]
    if ka=='L': return len(a[1])==len(b[1]) and all(meq(x,y) for x,y in zip(a[1],b[1]))
    if ka=='S':
        return all(any(meq(x,y) for y in b[1]) for x in a[1]) and all(any(meq(x,y) for y in a[1]) for x in b[1])
    if ka=='M':
        def norm(m):
            out=[]
            for k,v in m:
                out=[(k2,v2) for (k2,v2) in out if not meq(k,k2)]+[(k,v)]
            return out
        na, nb = norm(a[1]), norm(b[1])
        return len(na)==len(nb) and all(any(meq(k,k2) and meq(v,v2) for k2,v2 in nb) for k,v in na)
N=[0]
@seed(4)
@settings(max_examples=20000, deadline=None, database=None, suppress_health_check=list(HealthCheck))
@given(vals, vals, vals)
def t(a,b,c):
    N[0]+=1
    A,B,C = mk(a),mk(b),mk(c)
    try:
        if not (A==A): note(("refl",), repr(A))
        ab, ba = (A==B), (B==A)
        if ab != ba: note(("sym",), "%r %r" % (A,B))
        if ab != meq(a,b): note(("model-eq", kind(a)), "%r %r real=%s" % (A,B,ab))
        if ab and (B==C) and not (A==C): note(("trans",), "%r %r %r" % (A,B,C))
        if ab and hash(A)!=hash(B): note(("hash",), "%r %r" % (A,B))
        if (A!=B) == ab: note(("ne",), "%r %r" % (A,B))
    except Exception as e:
        note(("raises", type(e).__name__), "%r %r" % (A,B))
t()
print(N[0])
for k,c in sorted(buckets.items(), key=lambda x:-x[1]): print(c, k, repr(ex[k])[:240])
