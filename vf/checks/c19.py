"""C19  Collection and numeric library functions satisfy their defining laws."""
import itertools
import math
from fractions import Fraction

from vf.core import Finding
from vf.gen.chooser import TapeChooser, tapes
from vf.model import values as mv
from vf import cklrun

PROPERTY = "C19"
RULE = (
    "Hypothesis-generated lists and sets of length <= 8 over small ints, "
    "decimals and strings with duplicates and 1 versus 1.0, compared with "
    "host-language definitions: union/intersection/diff/symmetric_diff as set "
    "algebra; unique keeps the first of each class in order; reverse, "
    "flatten, zip, enumerate, range/interval, chunks (validity predicate), "
    "pairs, grouped, filter, map_list, reduce (non-commutative f), sum, prod; "
    "mean/median/median_low/median_high/min/max equal on every permutation "
    "(all permutations for length <= 5) and equal to the textbook value. "
    "Ints up to 2^80 for pow (exponent >= 0), gcd, lcm, abs, sign, sum, prod "
    "against Python integers. Exhaustive: 13 boundary 32-bit words x shift "
    "counts 0..40 (x word pairs for and/or/xor) against 32-bit arithmetic. "
    "Non-trivial = list with a duplicate or a 1/1.0 pair, a permutation other "
    "than identity, an int operand beyond 2^53, or a boundary word / count "
    ">= 31."
)
ASSUMPTIONS = [
    "functions are called module-qualified, in the legacy and in the default "
    "environment; the unqualified legacy names are checked as well",
    "gcd and lcm are the mathematical ones (never negative, lcm(0, x) = "
    "gcd(0, 0) = 0); pow only with exponent >= 0",
    "for shift counts >= 32 both the mathematical and the count-mod-32 "
    "convention are accepted; operands of bitwise functions are 32-bit words",
    "decimal results are compared with relative tolerance 1e-9",
]

REQ = ("require List; require Set; require Stat; require Math; "
       "require Core; require Bitwise")
WORDS = [0, 1, 2, 3, 0x7FFFFFFF, 0x80000000, 0x80000001, 0xFFFFFFFE,
         0xFFFFFFFF, 0x55555555, 0xAAAAAAAA, 0x0000FFFF, 0xFFFF0000]
MASK = 0xFFFFFFFF


def close(a, b):
    if isinstance(a, bool) or isinstance(b, bool):
        return a is b
    if isinstance(a, (int, float)) and isinstance(b, (int, float)):
        if isinstance(a, int) and isinstance(b, int):
            return a == b
        return abs(a - b) <= 1e-9 * max(1.0, abs(a), abs(b))
    return mv.meq(a, b)


def same(got, want, typed=True):
    """Structural equality with tolerance for decimals; int/decimal type is
    compared when typed."""
    if isinstance(want, list):
        return isinstance(got, list) and len(got) == len(want) and \
            all(same(g, w, typed) for g, w in zip(got, want))
    if isinstance(want, mv.MSet):
        return isinstance(got, mv.MSet) and mv.meq(got, want)
    if isinstance(want, (int, float)) and not isinstance(want, bool):
        if isinstance(got, bool) or not isinstance(got, (int, float)):
            return False
        if typed and (type(got) is not type(want)):
            return False
        return close(got, want)
    return type(got) is type(want) and mv.meq(got, want)


def run_items(label_ns, pre, items):
    # in the legacy environment (everything also bound unqualified) and in
    # the default one, where only what a module requires itself is visible
    all_items = items
    for legacy in (True, False):
        mode = "" if legacy else "|non-legacy"
        items = [it for it in all_items
                 if legacy or not it[0].startswith("legacy-")]
        res = cklrun.run_batch(pre, [e for _, e, _ in items], budget=60,
                               legacy=legacy)
        for (label, e, want), r in zip(items, res):
            if r[0] != "ok":
                return Finding(f"C19|{label}|{r[0]}" +
                               (f"-{r[1]}" if r[0] == "host" else "") + mode,
                               f"{pre}; {e} -> {r}" + mode)
            got = r[1]
            if callable(want):
                ok, why = want(got)
                if not ok:
                    return Finding(f"C19|{label}" + mode,
                                   f"{pre}; {e} = {got!r}: {why}" + mode)
            elif not same(got, want):
                return Finding(f"C19|{label}" + mode,
                               f"{pre}; {e} = {got!r}, expected {want!r}"
                               + mode)
    return None


# ------------------------------------------------------------- collection laws

def classes(xs):
    out = []
    for x in xs:
        if not any(mv.meq(x, y) for y in out):
            out.append(x)
    return out


def member(x, ys):
    return any(mv.meq(x, y) for y in ys)


def check_collections(a, b, as_sets):
    A = mv.literal(mv.MSet(a)) if False else None
    la, lb = mv.literal(a), mv.literal(b)
    if as_sets:
        la = "<< " + ", ".join(mv.literal(x) for x in a) + " >>" if a else "<<>>"
        lb = "<< " + ", ".join(mv.literal(x) for x in b) + " >>" if b else "<<>>"
    pre = f"{REQ}; def a = {la}; def b = {lb}"
    items = [
        ("union", "Set->union(a, b)", mv.MSet(a + b)),
        ("intersection", "Set->intersection(a, b)",
         mv.MSet([x for x in a if member(x, b)])),
        ("diff", "Set->diff(a, b)",
         mv.MSet([x for x in a if not member(x, b)])),
        ("symmetric_diff", "Set->symmetric_diff(a, b)",
         mv.MSet([x for x in a if not member(x, b)] +
                 [x for x in b if not member(x, a)])),
        ("union-commutes", "Set->union(a, b) == Set->union(b, a)", True),
        ("intersection-commutes",
         "Set->intersection(a, b) == Set->intersection(b, a)", True),
        ("diff-disjoint",
         "length(Set->intersection(Set->diff(a, b), b))", 0),
        ("union-size", "length(Set->union(a, b))", len(classes(a + b))),
    ]
    return run_items("coll", pre, items)


def chunks_ok(obj, k):
    def pred(got):
        if not isinstance(got, list):
            return False, "not a list"
        flat = []
        for c in got:
            if not isinstance(c, list):
                return False, "chunk is not a list"
            flat += c
        if not same(flat, obj):
            return False, "concatenation differs from the input"
        for c in got[:-1]:
            if len(c) != k:
                return False, f"inner chunk of size {len(c)}"
        if got and len(got[-1]) > k:
            return False, "last chunk too large"
        if any(len(c) == 0 for c in got):
            return False, "empty chunk"
        return True, ""
    return pred


def grouped_model(xs):
    out = []
    for x in xs:
        if out and mv.meq(out[-1][-1], x):
            out[-1].append(x)
        else:
            out.append([x])
    return out


def check_list(xs, ys, k):
    pre = f"{REQ}; def xs = {mv.literal(xs)}; def ys = {mv.literal(ys)}"
    uniq = classes(xs)
    flat_in = [xs[:2], 7, ys[:2], [xs[:1]]]
    flat_want = xs[:2] + [7] + ys[:2] + [xs[:1]]
    items = [
        ("unique", "List->unique(xs)", uniq),
        ("unique-idempotent",
         "List->unique(List->unique(xs)) == List->unique(xs)", True),
        ("reverse", "List->reverse(xs)", xs[::-1]),
        ("reverse_list", "List->reverse_list(xs)", xs[::-1]),
        ("legacy-reverse", "reverse(xs)", xs[::-1]),
        ("legacy-reverse-pipeline", "xs !> reverse()", xs[::-1]),
        ("reverse-involution",
         "List->reverse(List->reverse(xs)) == xs", True),
        ("flatten", f"List->flatten({mv.literal(flat_in)})", flat_want),
        ("zip", "zip(xs, ys)", [[p, q] for p, q in zip(xs, ys)]),
        ("enumerate", "enumerate(xs)", [[i, x] for i, x in enumerate(xs)]),
        ("pairs", "pairs(xs)" if len(xs) >= 1 else "pairs([1])",
         [[p, q] for p, q in zip(xs, xs[1:])] if len(xs) >= 1 else []),
        ("chunks", f"chunks(xs, {k})", chunks_ok(xs, k)),
        ("grouped", "List->grouped(xs)", grouped_model(xs)),
        ("map_list", "List->map_list(xs, fn(x) [x, x])",
         [[x, x] for x in xs]),
        ("filter", "List->filter(xs, fn(x) x in ys)",
         [x for x in xs if member(x, ys)]),
        ("count", "count(xs + ys, ys[0])" if ys else "count(xs, 1)",
         sum(1 for x in xs + ys if mv.meq(x, ys[0])) if ys else
         sum(1 for x in xs if mv.meq(x, 1))),
        ("first-last", "[List->first(xs + [0]), List->last([0] + xs)]",
         [(xs + [0])[0], ([0] + xs)[-1]]),
        ("first_n", "List->first_n(xs, 2)", xs[:2]),
        ("rest", "List->rest(xs)" if xs else "List->rest([1])",
         xs[1:] if xs else []),
        ("length-concat", "length(xs + ys)", len(xs) + len(ys)),
    ]
    return run_items("list", pre, items)


def median_models(nums):
    s = sorted(nums, key=Fraction)
    n = len(s)
    if n % 2:
        med = s[n // 2]
        lo = hi = s[n // 2]
    else:
        med = (s[n // 2 - 1] + s[n // 2]) / 2.0
        lo, hi = s[n // 2 - 1], s[n // 2]
    return med, lo, hi


def check_stats(nums, perm):
    """nums: non-empty list of ints/decimals; perm: a permutation of it."""
    pre = (f"{REQ}; def xs = {mv.literal(nums)}; def ps = {mv.literal(perm)}")
    med, lo, hi = median_models(nums)
    total = sum(Fraction(x) for x in nums)
    mean = float(total / len(nums))
    allint = all(isinstance(x, int) for x in nums)
    sm = sum(nums) if allint else float(total)
    pr = 1
    for x in nums:
        pr = pr * x
    mn = min(nums, key=Fraction)
    mx = max(nums, key=Fraction)
    items = [
        ("mean", "Stat->mean(xs)", lambda g: (_num_close(g, mean), f"expected {mean}")),
        ("median", "Stat->median(xs)", lambda g: (_num_close(g, med), f"expected {med}")),
        ("median_low", "Stat->median_low(xs)", lambda g: (_num_close(g, lo), f"expected {lo}")),
        ("median_high", "Stat->median_high(xs)", lambda g: (_num_close(g, hi), f"expected {hi}")),
        ("min", "min(xs)", lambda g: (_num_close(g, mn), f"expected {mn}")),
        ("max", "max(xs)", lambda g: (_num_close(g, mx), f"expected {mx}")),
        ("mean-perm", "Stat->mean(xs) == Stat->mean(ps)", True),
        ("median-perm", "Stat->median(xs) == Stat->median(ps)", True),
        ("median_low-perm", "Stat->median_low(xs) == Stat->median_low(ps)", True),
        ("median_high-perm", "Stat->median_high(xs) == Stat->median_high(ps)", True),
        ("min-perm", "min(xs) == min(ps)", True),
        ("max-perm", "max(xs) == max(ps)", True),
        ("sum", "sum(xs)", sm),
        ("sum-perm", "sum(xs) == sum(ps)" if allint else "TRUE", True),
        ("prod", "List->prod(xs)" if allint else "1", pr if allint else 1),
        ("reduce-left-fold", "List->reduce(xs, fn(a, b) a * 10 - b)",
         lambda g: (_num_close(g, _fold(nums)), f"expected {_fold(nums)}")),
    ]
    return run_items("stat", pre, items)


def _fold(nums):
    acc = nums[0]
    for x in nums[1:]:
        acc = acc * 10 - x
    return acc


def _num_close(g, want):
    if isinstance(g, bool) or not isinstance(g, (int, float)):
        return False
    return close(float(g) if isinstance(g, float) else g, want) or \
        abs(Fraction(g) - Fraction(want)) <= Fraction(1, 10 ** 9) * max(
            1, abs(Fraction(want)))


# -------------------------------------------------------------- integer laws

def check_ints(a, b, e):
    pre = f"{REQ}; def a = {a}; def b = {b}; def e = {e}"
    items = [
        ("pow", "Math->pow(a, e)", a ** e),
        ("abs", "Math->abs(a)", abs(a)),
        ("sign", "Math->sign(a)", (a > 0) - (a < 0)),
        ("sum-ints", "sum([a, b, a])", a + b + a),
        ("prod-ints", "List->prod([a, b, a])", a * b * a),
        ("mul-div-exact", "a * b / b" if b else "0", a if b else 0),
    ]
    # the mathematical results: never negative, gcd(0, 0) = lcm(0, x) = 0
    items.append(("gcd", "Math->gcd(a, b)", math.gcd(a, b)))
    items.append(("lcm", "Math->lcm(a, b)", math.lcm(a, b)))
    items.append(("gcd-lcm", "Math->gcd(a, b) * Math->lcm(a, b)",
                  abs(a * b)))
    return run_items("int", pre, items)


def check_range(a, b, step):
    pre = REQ
    items = [
        ("range2", f"range({a}, {b})", list(range(a, b))),
        ("range1", f"range({abs(b) % 12})", list(range(abs(b) % 12))),
        ("interval", f"interval({a}, {b})", list(range(a, b + 1))),
    ]
    if step:
        items.append(("range-step", f"range({a}, {b}, step = {step})",
                      list(range(a, b, step))))
    return run_items("range", pre, items)


# ------------------------------------------------------------------- bitwise

def rot_l(a, n):
    n %= 32
    return ((a << n) | (a >> (32 - n))) & MASK


def check_bits(a, b, n):
    pre = REQ
    sl = {((a << n) & MASK), ((a << (n % 32)) & MASK)}
    sr = {(a >> n), (a >> (n % 32))}
    items = [
        ("bit_and", f"Bitwise->bit_and_32({a}, {b})", a & b),
        ("bit_or", f"Bitwise->bit_or_32({a}, {b})", a | b),
        ("bit_xor", f"Bitwise->bit_xor_32({a}, {b})", a ^ b),
        ("bit_not", f"Bitwise->bit_not_32({a})", (~a) & MASK),
        ("bit_rotate_left", f"Bitwise->bit_rotate_left_32({a}, {n})",
         rot_l(a, n)),
        ("bit_rotate_right", f"Bitwise->bit_rotate_right_32({a}, {n})",
         rot_l(a, (32 - n % 32) % 32)),
        ("bit_shift_left", f"Bitwise->bit_shift_left({a}, {n})",
         lambda v: (type(v) is int and v in sl, f"expected one of {sorted(sl)}")),
        ("bit_shift_right", f"Bitwise->bit_shift_right({a}, {n})",
         lambda v: (type(v) is int and v in sr, f"expected one of {sorted(sr)}")),
        ("legacy-names", f"[bit_and({a}, {b}), bit_or({a}, {b}), "
                         f"bit_xor({a}, {b}), bit_not({a})]",
         [a & b, a | b, a ^ b, (~a) & MASK]),
    ]
    return run_items("bits", pre, items)


def prop(case):
    k = case["kind"]
    d = _dec
    if k == "coll":
        return check_collections(d(case["a"]), d(case["b"]), case["sets"])
    if k == "list":
        return check_list(d(case["xs"]), d(case["ys"]), case["k"])
    if k == "stats":
        return check_stats(d(case["nums"]), d(case["perm"]))
    if k == "ints":
        return check_ints(case["a"], case["b"], case["e"])
    if k == "range":
        return check_range(case["a"], case["b"], case["step"])
    if k == "bits":
        return check_bits(case["a"], case["b"], case["n"])
    raise ValueError(k)


def _dec(s):
    return eval(s, {"__builtins__": {}}, {})


# --------------------------------------------------------------------- parts

ELEMS = [0, 1, 2, 3, 1.0, 2.0, 2.5, -1, "a", "b", "1", ""]


def gen_list(ch, maxlen=8, pool=ELEMS):
    n = ch.int(0, maxlen)
    out = []
    for _ in range(n):
        if out and ch.bool(0.3):
            out.append(ch.choice(out))
        else:
            out.append(ch.choice(pool))
    return out


def _has_dup(xs):
    return len(classes(xs)) < len(xs)


def part_collections(part, n):
    def body(tape):
        ch = TapeChooser(tape)
        sets = ch.bool(0.4)
        # one-kind elements when enumerated as sets are not needed: results
        # are compared as sets
        a, b = gen_list(ch), gen_list(ch)
        part.count()
        if _has_dup(a + b):
            part.nontriv((repr(a), repr(b), sets))
        part.cls("coll:" + ("sets" if sets else "lists"), repr((a, b)))
        f = check_collections(a, b, sets)
        if f:
            return f, {"kind": "coll", "a": repr(a), "b": repr(b),
                       "sets": sets}
        xs, ys = gen_list(ch), gen_list(ch, 4)
        k = ch.int(1, 4)
        part.count()
        if _has_dup(xs):
            part.nontriv((repr(xs), repr(ys), k))
        f = check_list(xs, ys, k)
        if f:
            return f, {"kind": "list", "xs": repr(xs), "ys": repr(ys), "k": k}
    part.hyp(tapes(200), body, n)


NUMS = [0, 1, 2, 3, 5, -1, -4, 7, 10, 1.0, 2.5, 0.5, -1.5, 3.0, 100]


def part_stats(part, n):
    def body(tape):
        ch = TapeChooser(tape)
        ln = ch.int(1, 8)
        nums = []
        for _ in range(ln):
            nums.append(ch.choice(nums) if nums and ch.bool(0.3)
                        else ch.choice(NUMS))
        perm = ch.shuffle(nums)
        part.count()
        if perm != nums:
            part.nontriv((repr(nums), repr(perm)))
        part.cls("stats:len%d" % ln, repr((nums, perm)))
        f = check_stats(nums, perm)
        if f:
            return f, {"kind": "stats", "nums": repr(nums),
                       "perm": repr(perm)}
    part.hyp(tapes(120), body, n)


def part_all_perms(part, n):
    def body(tape):
        ch = TapeChooser(tape)
        ln = ch.int(2, 5 if part.tier == "thorough" else 4)
        nums = [ch.choice(NUMS) for _ in range(ln)]
        part.cls("allperms:len%d" % ln)
        for perm in itertools.permutations(nums):
            part.count()
            part.nontriv((repr(nums), repr(perm)))
            f = check_stats(nums, list(perm))
            if f:
                return f, {"kind": "stats", "nums": repr(nums),
                           "perm": repr(list(perm))}
    part.hyp(tapes(60), body, n)


def gen_bigint(ch):
    k = ch.int(0, 4)
    if k == 0:
        return ch.int(-20, 20)
    if k == 1:
        return ch.int(-10 ** 6, 10 ** 6)
    if k == 2:
        v = ch.choice([2 ** 31, 2 ** 53, 2 ** 63, 2 ** 64, 2 ** 80]) + \
            ch.int(-3, 3)
    elif k == 3:
        v = ch.int(0, 2 ** 80)
    else:
        v = ch.choice([2, 3, 6, 10, 12]) ** ch.int(1, 30)
    return -v if ch.bool(0.3) else v


def part_ints(part, n):
    def body(tape):
        ch = TapeChooser(tape)
        a, b = gen_bigint(ch), gen_bigint(ch)
        if ch.bool(0.3) and b:
            a = b * ch.int(-50, 50)
        e = ch.int(0, 6 if abs(a) > 10 ** 6 else 45)
        part.count()
        if abs(a) > 2 ** 53 or abs(b) > 2 ** 53 or abs(a) ** e > 2 ** 53:
            part.nontriv((a, b, e))
        part.cls("ints", repr((a, b, e)))
        f = check_ints(a, b, e)
        if f:
            return f, {"kind": "ints", "a": a, "b": b, "e": e}
        if ch.bool(0.3):
            ra, rb = ch.int(-6, 6), ch.int(-6, 12)
            step = ch.choice([0, 1, 2, 3, -1, -2])
            part.count()
            f = check_range(ra, rb, step)
            if f:
                return f, {"kind": "range", "a": ra, "b": rb, "step": step}
    part.hyp(tapes(120), body, n)


def part_bits(part, shard, nshards):
    k = 0
    for a in WORDS:
        for n in range(0, 41):
            k += 1
            if k % nshards != shard:
                continue
            b = WORDS[(k // 7) % len(WORDS)]
            part.count()
            part.distinct()
            part.collect(check_bits(a, b, n),
                         {"kind": "bits", "a": a, "b": b, "n": n})
    for a in WORDS:
        for b in WORDS:
            k += 1
            if k % nshards != shard:
                continue
            part.count()
            part.distinct()
            part.collect(check_bits(a, b, 1),
                         {"kind": "bits", "a": a, "b": b, "n": 1})
    part.cls("bits:boundary-words-x-counts-0..40",
             "13 words x 41 counts, 13 x 13 word pairs")
    part.exhaustive = True


def parts(tier, seed):
    if tier == "quick":
        ps = [(f"coll-{i}", part_collections, {"n": 1000}) for i in range(4)]
        ps += [(f"stats-{i}", part_stats, {"n": 1200}) for i in range(3)]
        ps += [(f"perms-{i}", part_all_perms, {"n": 25}) for i in range(2)]
        ps += [(f"ints-{i}", part_ints, {"n": 1500}) for i in range(3)]
        ps += [(f"bits-{i}", part_bits, {"shard": i, "nshards": 4})
               for i in range(4)]
    else:
        ps = [(f"coll-{i}", part_collections, {"n": 15000}) for i in range(4)]
        ps += [(f"stats-{i}", part_stats, {"n": 15000}) for i in range(3)]
        ps += [(f"perms-{i}", part_all_perms, {"n": 300}) for i in range(3)]
        ps += [(f"ints-{i}", part_ints, {"n": 20000}) for i in range(3)]
        ps += [(f"bits-{i}", part_bits, {"shard": i, "nshards": 4})
               for i in range(4)]
    return ps
