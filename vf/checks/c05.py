"""C05  Errors reach the nearest matching handler and finally runs exactly once."""
from vf.core import Finding
from vf.gen.chooser import TapeChooser, tapes
from vf.gen import render as R
from vf.gen import programs as G
from vf.model import eval as ME
from vf.checks.c02 import same_value
from vf.checks.c04 import outcome_of, judge, kills

PROPERTY = "C05"
RULE = (
    "Hypothesis-generated nests (depth <= 4) of do / catch v / catch all / "
    "finally blocks at top level, inside functions and inside loops. At a "
    "random statement position of every block one of: `error v` with v of "
    "every data kind (NULL, booleans, 1 and 1.0, strings incl. 'ERROR', "
    "lists, sets in both orders, maps), a call of a function that raises, an "
    "undefined name, 1 / 0, a call of a non-function, an index out of range, "
    "an exit statement or a nested block; handlers log, yield a value, raise "
    "again or exit; finally parts log or raise. Every statement logs a unique "
    "tag. Each scenario is run twice: plain (the escaping error value is "
    "compared) and wrapped in an outer catch-all that returns the event log. "
    "Oracle: the reference evaluator. Non-trivial = an error crosses a block "
    "boundary or a finally is left by return/break/continue, AND the outcome "
    "differs under a mutant model (first clause regardless of value, finally "
    "skipped on control exits / run twice, statements after the failing one "
    "still run, unmatched error swallowed)."
)
ASSUMPTIONS = [
    "return/break/continue inside a finally part are judged only while an "
    "error is leaving the block (the statement says the error continues "
    "outward unchanged); on the other paths their effect is unspecified and "
    "the program is discarded; catch values are literals or plain variables; "
    "messages are not compared",
    "programs on which the reference evaluator meets something the statement "
    "leaves open are discarded and counted",
]
MUTANTS = ["catch-first-clause", "finally-skipped-on-exit", "finally-twice",
           "continue-after-error", "swallow-unmatched",
           "finally-exit-swallows-error"]


def prop(case):
    import ast as _ast
    stmts = _ast.literal_eval(case["ast"])
    m = ME.model_run(stmts)
    if m[0] in ("unspecified", "budget"):
        return None
    src = R.source(stmts)
    return judge(PROPERTY, src, m, outcome_of(src), case.get("label",
                                                            "program"))


def part_programs(part, n):
    def body(tape):
        ch = TapeChooser(tape)
        g = G.ErrGen(ch)
        pre, sc = g.program(False)
        first = None
        for wrapped in (False, True):
            stmts = G.wrap_scenario(pre, sc, wrapped)
            m = ME.model_run(stmts)
            part.count()
            label = "wrapped" if wrapped else "plain"
            if m[0] in ("unspecified", "budget"):
                part.excluded["discarded:" + str(m[1:])[:50]] += 1
                part.cls("discarded:" + m[0])
                continue
            src = R.source(stmts)
            killed = kills(stmts, m, MUTANTS)
            for k in killed:
                part.cls("kills:" + k)
            feats = g.features
            if killed and (feats & {"nested-blocks", "raised-in-callee",
                                    "exit-inside-block", "handler-exits",
                                    "block-in-function", "block-in-loop"}):
                part.nontriv(src)
            part.cls(f"{label}:{m[0]}", src if len(src) < 400 else None)
            if not wrapped:
                for f in sorted(feats):
                    part.cls("feature:" + f)
            f = judge(PROPERTY, src, m, outcome_of(src), label)
            f = part.judge(f, None) if f is not None else None
            if f is not None and first is None:
                first = (f, {"kind": "program", "ast": repr(stmts),
                             "label": label})
        return first
    part.hyp(tapes(1500), body, n)


def parts(tier, seed):
    if tier == "quick":
        return [(f"programs-{i}", part_programs, {"n": 1000})
                for i in range(10)]
    return [(f"programs-{i}", part_programs, {"n": 10000}) for i in range(12)]
