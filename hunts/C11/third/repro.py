#!/usr/bin/env python
"""Reproductions for the third C11 hunt (require binds exactly the requested
names, modules are evaluated once).  Run with
  cd /tmp/seed5/C11 && PYTHONPATH=/tmp/seed5/C11/src /venv/bin/python hunt/repro.py
Prints one line per finding.  Only the ckl package and the standard library
are used; every probe is guarded by signal.alarm.
"""
import os
import shutil
import signal
import tempfile

from ckl.interpreter import Interpreter
from ckl.errors import CklRuntimeError, CklSyntaxError
from ckl.functions import Environment
from ckl.values import ValueList, ValueString

MODS = {
    "a": 'def x = 1; def _p = 2; def peek() secret;',
    "b": 'def y = 2;',
    "shapes": 'def class Shape do def _init_(self, n) self->n = n; '
              'def area(self) 0; def name(self) self->n; def kind = "shape"; end; '
              'def class _Hidden do def reveal(self) 1; end; '
              'def make(n) new(Shape, n);',
}
TMPDIRS = []


class Timeout(Exception):
    pass


def _alarm(signum, frame):
    raise Timeout()


signal.signal(signal.SIGALRM, _alarm)


def mk(legacy):
    d = tempfile.mkdtemp(prefix="c11_")
    TMPDIRS.append(d)
    for n, src in MODS.items():
        with open(os.path.join(d, n + ".ckl"), "w", encoding="utf-8") as f:
            f.write(src)
    it = Interpreter(secure=False, legacy=legacy)
    mp = ValueList()
    mp.addItem(ValueString(d))
    it.base_environment.put("checkerlang_module_path", mp)
    return it


def run(it, src, env=None, t=3):
    signal.alarm(t)
    try:
        if env is None:
            return "OK " + str(it.interpret(src, "main.ckl"))
        return "OK " + str(it.interpret(src, "main.ckl", environment=env))
    except CklRuntimeError as e:
        return "RTE " + str(e.msg)
    except CklSyntaxError as e:
        return "SYN " + str(e.msg)
    except Timeout:
        return "TIMEOUT"
    except Exception as e:  # noqa
        return "PYEXC " + type(e).__name__ + ": " + str(e)
    finally:
        signal.alarm(0)


def scope(it):
    return sorted(it.environment.map.keys())


def f1(legacy):
    """host supplied environment used for a second interpret call (or one
    that is / descends from the interpreter's own environment): the base
    environment becomes a child of the importer's environment."""
    out = []
    viol = False
    for variant in ("same env twice", "environment=it.environment",
                    "environment=it.environment.newEnv()"):
        it = mk(legacy)
        before = run(it, "def secret = 42; require a; a->peek()")
        if variant == "same env twice":
            e = Environment()
            run(it, "1", e)
            run(it, "2", e)
        elif variant == "environment=it.environment":
            run(it, "1", it.environment)
        else:
            run(it, "1", it.environment.newEnv())
        peek = run(it, "a->peek()")          # module code reads importer var
        req = run(it, "require b; b->y")     # never returns
        bad = peek == "OK 42" or req != "OK 2"
        viol = viol or bad
        out.append(f"{variant}: before={before!r} a->peek()={peek!r} require b={req!r}")
    return viol, " ; ".join(out)


def f2(legacy):
    """require ... as NULL / import [x as NULL] rebind NULL in the importer"""
    it = mk(legacy)
    r1 = run(it, "require a as NULL; [NULL == 1, is_null(NULL)]")
    r1b = run(it, "NULL")
    it2 = mk(legacy)
    r2 = run(it2, "require a import [x as NULL]; NULL")
    r3 = run(mk(legacy), "def NULL = 1")
    bad = "NULL" in scope(it) or "NULL" in scope(it2)
    return bad, f"as NULL: {r1} then NULL -> {r1b} scope={scope(it)} | import [x as NULL]: {r2} | def NULL = 1: {r3}"


def f3(legacy):
    """re-check of the repaired item of the second report"""
    it = mk(legacy)
    r1 = run(it, 'def name = "mine"; require shapes unqualified; name')
    s1 = scope(it)
    it2 = mk(legacy)
    r2 = run(it2, 'require shapes import [area as leaked, kind, reveal]; 1')
    s2 = scope(it2)
    it3 = mk(legacy)
    r3 = run(it3, 'require shapes; ls(shapes)')
    ok = (r1 == "OK 'mine'" and s1 == ["Shape", "make", "name"]
          and r2 == "OK 1" and s2 == []
          and r3 == "OK ['Shape', 'make']")
    return not ok, f"{r1} {s1} | {r2} {s2} | {r3}"


FINDINGS = [
    (1, f1, "a host environment passed to interpret() twice (or the interpreter's own environment / a child of it) "
            "makes the base environment a child of the importer scope: module code reads importer variables "
            "and every later require never returns"),
    (2, f2, "require a as NULL / import [x as NULL] / require 'NULL' rebind NULL in the importer scope, "
            "which def, assignment and parameters refuse (doubtful, outside the statement proper)"),
    (3, f3, "re-check of the repaired item of the second report (class members are no longer exported)"),
]

if __name__ == "__main__":
    try:
        for n, fn, desc in FINDINGS:
            viol = False
            details = []
            for legacy in (True, False):
                try:
                    v, d = fn(legacy)
                except Timeout:
                    v, d = True, "TIMEOUT"
                except Exception as e:  # noqa
                    v, d = True, "PYEXC " + type(e).__name__ + ": " + str(e)
                finally:
                    signal.alarm(0)
                viol = viol or v
                details.append(("legacy" if legacy else "base") + ": " + d)
            print(f"FINDING {n}: {'VIOLATES' if viol else 'HOLDS'} {desc} [{' || '.join(details)}]")
    finally:
        for d in TMPDIRS:
            shutil.rmtree(d, ignore_errors=True)
