#!/usr/bin/env python
"""Reproductions for the C03 hunt (lexical names / argument binding).

Run:  cd /tmp/seed3/C03 && PYTHONPATH=/tmp/seed3/C03/src /venv/bin/python hunt/repro.py
Prints one line per finding: FINDING <n>: <VIOLATES|HOLDS> <description>
Uses only the ckl package and the standard library; every probe runs under
signal.alarm so that hangs are reported as TIMEOUT.
"""
import signal

from ckl.interpreter import Interpreter
from ckl.errors import CklRuntimeError, CklSyntaxError
from ckl.functions import Environment


class Timeout(Exception):
    pass


def _on_alarm(*_):
    raise Timeout()


signal.signal(signal.SIGALRM, _on_alarm)


def run(src, legacy=True, it=None, env=None, limit=5):
    """Returns the printed value, or 'RTE: msg', 'SYN: msg', 'EXC: Type', 'TIMEOUT'."""
    it = it or Interpreter(secure=False, legacy=legacy)
    signal.alarm(limit)
    try:
        if env is not None:
            v = it.interpret(src, "repro.ckl", env)
        else:
            v = it.interpret(src, "repro.ckl")
        return str(v)
    except CklRuntimeError as e:
        return "RTE: " + str(e.msg)
    except CklSyntaxError as e:
        return "SYN: " + str(e.msg)
    except Timeout:
        return "TIMEOUT"
    except Exception as e:  # host-level exception leaking out of the interpreter
        return "EXC: " + type(e).__name__
    finally:
        signal.alarm(0)


def both(src):
    return [run(src, legacy=True), run(src, legacy=False)]


def report(n, violates, text):
    print(f"FINDING {n}: {'VIOLATES' if violates else 'HOLDS'} {text}")


# 1 -- rest parameter of a callback invoked by a built-in is bound to the raw
#      value, not to a list of the surplus positionals
r_direct = both("def k = fn(r...) r...; k(2)")
r_find = both("def k = fn(r...) r...; find([1, 2, 3], [2], key = k)")
r_cmp = both("def seen = []; def c = fn(a, r...) do append(seen, r...); 0 end; "
             "sorted([2, 1], cmp = c); seen")
report(1,
       all(x == "[2]" for x in r_direct)
       and (any(x != "1" for x in r_find) or any(x != "[[2]]" for x in r_cmp)),
       f"built-in callbacks (sorted key/cmp, find key) bind a rest parameter to the bare "
       f"value: direct k(2)={r_direct[0]}, find(..., [2], key=k)={r_find[0]} (want 1), "
       f"rest seen by cmp={r_cmp[0]} (want [[2]])")

# 2 -- prototype chain ending in a non-object (_proto_ = NULL / 5) -> host AttributeError
r = (both("def o = <* _proto_ = NULL *>; o->m()")
     + both("def o = <* _proto_ = NULL *>; o->m")
     + both("def o = <* _proto_ = 5 *>; o->m()"))
report(2, any(x.startswith("EXC") for x in r),
       f"member lookup through a non-object _proto_ leaks a host exception: {r[0]} / {r[2]} / {r[4]}")

# 3 -- cyclic prototype chain hangs on a missing member
r = [run("def o = <* a = 1 *>; o->_proto_ = o; o->nosuch()", limit=3),
     run("def o = <* a = 1 *>; o->_proto_ = o; o->nosuch", limit=3)]
report(3, any(x == "TIMEOUT" for x in r),
       f"cyclic _proto_ chain: o->nosuch() -> {r[0]}, o->nosuch -> {r[1]}")

# 4 -- for loop clobbers and then removes a same-named binding of the enclosing scope
r_a = both("def f(i) do for i in [1, 2] do i end; i end; f(7)")
r_b = both("def i = 5; def f() do def i = 6; for i in [1, 2] do i end; i end; f()")
r_c = both("def fs = []; for i in [1, 2, 3] do append(fs, fn() i) end; [g() for g in fs]")
report(4,
       any(x != "7" for x in r_a) or any(x != "6" for x in r_b) or any(x.startswith("RTE") for x in r_c),
       f"for-loop variable destroys the same-named parameter/local: f(7)={r_a[0]} (want 7); "
       f"local i=6 then reads {r_b[0]} (outer i); closures made in the loop: {r_c[0]}")

# 5 -- operators are desugared to calls of *names* (add, sub, ..., type, is_zero, s, matches)
#      resolved in the user's scope
r = [both("def f(x, add) x + 1; f(5, 9)"),
     both("def f(x, sub) -x; f(5, 9)"),
     both("def f(x, type) x is int; f(5, 9)"),
     both("def f(x, equals) x == 5; f(5, 9)"),
     both("def add(x, y) 42; 1 + 2")]
report(5, any(y.startswith(("RTE", "EXC")) for x in r for y in x),
       f"a parameter/def named like an operator helper breaks the operator: "
       f"x + 1 with param add -> {r[0][0]}; -x with param sub -> {r[1][0]}; "
       f"'def add(x, y) 42; 1 + 2' -> {r[4][0]}")

# 6 -- built-ins look up helper names in the *caller's* scope (dynamic scoping)
r_a = both("def f() do def compare(a, b) b - a; sorted([3, 1, 2]) end; f()")
r_b = both("def f(identity) sorted([3, 1, 2]); f(5)")
r_c = both("def f() do def DIV_0_VALUE = 7; 1 / 0 end; f()")
report(6, any(x != "[1, 2, 3]" for x in r_a + r_b),
       f"sorted() uses the caller's local 'compare'/'identity': {r_a[0]} (want [1, 2, 3]); "
       f"param named identity -> {r_b[0]}; caller-local DIV_0_VALUE -> 1/0 = {r_c[0]}")

# 7 -- Interpreter.interpret(script, name, environment) called twice with the same
#      environment makes the base environment its own ancestor
it = Interpreter(secure=False, legacy=True)
env = Environment()
a = run("def x = 10; x", it=it, env=env)
b = run("x", it=it, env=env)
c = run("nosuch", it=it)
cyc = it.base_environment.parent is it.environment
d = run("x", it=it, env=env, limit=3)
report(7, cyc or c != "RTE: Symbol 'nosuch' not defined" or d == "TIMEOUT",
       f"reusing an environment for interpret(): calls give {a}, {b}; then undefined name -> "
       f"'{c}' (want Symbol 'nosuch' not defined); base env has a parent: {cyc}; third call -> {d}")

# 8 -- def inside a comprehension binds in a hidden comprehension scope
r = both("def f() do [do def qq = x; qq end for x in [1, 2]]; qq end; f()")
report(8, any(x != "2" for x in r),
       f"def inside a list comprehension is not visible in the function scope afterwards: {r[0]}")

# 9 -- positional after named (also via a spread map) is rejected
r = [both("def f(a, b) [a, b]; f(b = 1, 2)"),
     both("def f(a, b, c, d) [a, b, c, d]; def m = <<<'d' => 9>>>; f(1, ...m, 4)")]
report(9, any(y.startswith("RTE") for x in r for y in x),
       f"f(b = 1, 2) -> {r[0][0]}; f(1, ...m, 4) -> {r[1][0]}")

# asides (outside C03, listed in FINDINGS.md): host exceptions
r = [both("def f() do 1; return; end; f()"), both("def o = <* _str_ = fn(self) 'hi' *>; string(o)")]
report(10, any(y.startswith("EXC") for x in r for y in x),
       f"(aside, not C03) bare 'return;' as last statement -> {r[0][0]}; object with _str_ -> {r[1][0]}")
