#!/usr/bin/env python3
"""Regenerate MANIFEST.json from the table below (keeps it valid at all times)."""
import json
import os
import sys

HERE = os.path.dirname(os.path.dirname(os.path.abspath(__file__)))
PY = "/venv/bin/python"

# id -> (technique, level text, level note, design ref)
CHECKS = {
    "C01": (
        "property-based testing (Hypothesis token soup / grammar edits / "
        "noise) + coverage-guided fuzzing (atheris) of parse_script with a "
        "totality oracle",
        "Generated-input search: every prefix / single-token edit of "
        "grammar-generated programs (exhaustive per program), token soup, "
        "character noise, and (thorough) libFuzzer; oracle = node or "
        "CklSyntaxError(msg, pos) within a time budget, deterministic. "
        "Sampling cannot prove totality, but the edit enumeration covers the "
        "one-token neighbourhood of the grammar, where parser crashes live.",
        "Trusted: the harness's token alphabet and grammar generator, the 2 s "
        "/ 20 s time budgets as a stand-in for termination, nesting <= 40.",
        "DESIGN.md section 5 C01",
    ),
    "C02": (
        "property-based differential testing against an independent "
        "reference evaluator (typed expression trees rendered with minimal "
        "parentheses) + exhaustive operator pairs / unary combinations / "
        "predicate forms",
        "Random typed expression trees (depth <= 5, big ints, decimals, "
        "NULL, strings, lists, redundant parentheses, non-boolean "
        "injections) are evaluated by the interpreter and by a reference "
        "evaluator written from the statement; value and int/decimal kind "
        "must agree. Every ordered pair of the 15 binary operators and every "
        "unary/binary combination is rendered flat (no parentheses) over all "
        "operand typings the statement defines and compared with the "
        "prescribed grouping; all 26 `is [not] P` forms x 26 values are "
        "checked for the negation law. Exhaustive on pairs/forms, sampled "
        "on trees.",
        "Trusted: the reference evaluator (vf/model/eval.py) and the "
        "precedence table of the statement; unspecified operand kinds are "
        "discarded, decimals compared with tolerance 1e-9.",
        "DESIGN.md section 5 C02",
    ),
    "C03": (
        "property-based differential testing of scenario-fragment programs "
        "(scoping and argument binding) against the reference evaluator; 12 "
        "mutant models as non-triviality measure and generator self-test",
        "Programs are composed from seven families of randomised fragments "
        "(free variables under redefinition, assignment from callees, "
        "closures outliving their frame, recursion, defaults, the argument "
        "binding matrix, pipeline / method / prototype calls) with shadowing "
        "names and 0-3 extra scope levels, and every fragment logs what it "
        "observes; the log must equal the reference evaluator's. Per-mutant "
        "kill counts (each wrong semantics is distinguished by >= 14 % of "
        "the programs) are part of the evidence.",
        "Trusted: the reference evaluator's environment and binding rules "
        "(Appendix A of DESIGN.md); unspecified constructs are not generated.",
        "DESIGN.md section 5 C03",
    ),
    "C04": (
        "property-based differential testing of generated control-flow "
        "programs against the reference evaluator, with an in-program trace; "
        "comprehension == explicit loop as a metamorphic relation; mutant "
        "models as non-triviality measure",
        "Generated loop nests with exits at every kind of position (as "
        "statements and inside eleven kinds of expression: argument, operand, "
        "literal element, index, condition, element / member assignment), "
        "logging "
        "if/elif ladders, iteration over every iterable kind and every "
        "comprehension form are run by the interpreter and by the reference "
        "evaluator; trace and results must agree. For each program six "
        "mutant models (break leaves two loops, continue = break, while "
        "tested once, first branch, insertion order, filter ignored) are "
        "also run and the kill counts reported, so that the evidence shows "
        "how many programs can tell the stated semantics from wrong ones.",
        "Trusted: the reference evaluator; loop statement values and loop "
        "variables after the loop are never observed.",
        "DESIGN.md section 5 C04",
    ),
    "C05": (
        "property-based differential testing of generated do/catch/finally "
        "nests against the reference evaluator, with an in-program event "
        "log; each scenario run plain and inside an outer catch-all; mutant "
        "models as non-triviality measure",
        "Generated nests of blocks with catch clauses (values of every data "
        "kind, catch all) and finally parts, in functions and loops, with a "
        "failing statement (user error, runtime ERROR of five kinds, error "
        "raised in a callee), exits and nested blocks at random positions, "
        "handlers that log / yield / re-raise / exit and finally parts that "
        "log or raise. The interpreter's result or escaping error value and "
        "the event log must equal the reference evaluator's; five mutant "
        "models measure discriminating power.",
        "Trusted: the reference evaluator's block semantics; exits directly "
        "inside finally parts are not generated; messages are not compared.",
        "DESIGN.md section 5 C05",
    ),
    "C06": (
        "property-based testing (Hypothesis): equivalence laws, hash "
        "consistency and agreement with a model equality on the ckl.values "
        "API and through interpreted programs; container scenarios over all "
        "insertion orders; metamorphic mutation sequences (observed vs "
        "unobserved twin)",
        "Generated pairs/triples with deliberately frequent equal-but-"
        "differently-represented partners and near misses are checked for "
        "the laws of ==, for a==b => equal hash, for agreement with a model "
        "equality (exact numeric via Fractions, structural, order-free), and "
        "for interchangeability in sets/maps/lists (membership, lookup, "
        "removal, difference, count) under sampled and, for <= 4 (5) "
        "elements, all insertion orders; two containers built by the same "
        "generated mutation sequence, one of them hashed / rendered / "
        "compared between the steps, must be interchangeable. Sampling, not "
        "proof.",
        "Trusted: the model equality key; NaN/inf and identity-compared "
        "kinds (functions, streams, nodes) are outside the domain.",
        "DESIGN.md section 5 C06",
    ),
    "C07": (
        "property-based testing (Hypothesis) of order laws and agreement "
        "with a model order on the ckl.values API and through interpreted "
        "programs; sorted checked as ordered + permutation + stable",
        "Generated same-kind triples with related values (variants, prefixes, "
        "neighbours) are compared with a model order written from the "
        "statement, at API level (all order laws) and through the interpreter "
        "(< <= > >= compare min max sorted, set / map-key enumeration in "
        "thirteen enumeration forms incl. comprehensions and spreads); all "
        "string pairs of length <= 2 over 5 critical characters "
        "exhaustively. Sampling, not proof.",
        "Trusted: the model order (numeric via Fractions, code points, "
        "FALSE<TRUE, datetime, element-wise lists); cross-kind order is out "
        "of scope.",
        "DESIGN.md section 5 C07",
    ),
    "C08": (
        "property-based testing (Hypothesis): render -> parse -> render round "
        "trip, permutation-invariance of rendering, scalar format oracles, "
        "language-level equality of the round-tripped value, metamorphic "
        "mutation sequences (rendering with vs without earlier observations)",
        "Generated data values with adversarial strings and decimals across "
        "all magnitudes (incl. every double by bit pattern) are rendered, "
        "the text is interpreted again and compared for model equality, deep "
        "type and identical second rendering; every set/map is rebuilt in "
        "permuted orders (all orders for <= 4/5 elements) and must render "
        "identically; ints/decimals/strings are checked against independent "
        "format oracles; a table of numeric-producing expressions must render "
        "according to its type(); the language itself must call the "
        "round-tripped value equal and keep one set element / map key for "
        "it; generated mutation sequences must render the same whether or "
        "not the container was rendered, hashed or converted between the "
        "steps. Two open findings (NULL map key, pattern "
        "delimiter) are excluded by construction and reported as "
        "KNOWN-FINDING.",
        "Trusted: the independent string renderer and numeral regexes; the "
        "model equality / deep type.",
        "DESIGN.md section 5 C08",
    ),
    "C09": (
        "exhaustive enumeration of native names x aliases, module symbols x "
        "import forms and flag-assignment forms, plus Hypothesis-generated "
        "compositions, under an OS-access monitor (audit hook + wrappers + "
        "canary directory) with a dynamically discovered ground truth of "
        "dangerous natives and a twin non-secure run as teeth check",
        "Every native name known to the binder (bind / alias / inside a "
        "function), every public symbol of every bundled module in the three "
        "import forms, about 350 programs that try to redefine or shadow "
        "the secure flag before binding, and all 6 600 one- and two-step "
        "sequences of plain / destructuring / compound assignments to the "
        "flag are run in fresh secure interpreters "
        "(legacy and non-legacy) inside a canary directory; any monitored OS "
        "access other than reading module sources, any change of the canary, "
        "any reachable function of a dangerous class, or a changed base flag "
        "is a violation. A universal negative cannot be proved by search: "
        "exhaustive over names and forms, sampled over compositions.",
        "Trusted: the monitor (validated on every run: it must flag the 11 "
        "known OS-touching natives in a non-secure interpreter, else harness "
        "error); permitted accesses are *.ckl / Python import / tz files.",
        "DESIGN.md section 5 C09",
    ),
    "C10": (
        "model-based testing of session histories: exhaustive enumeration of "
        "short histories + Hypothesis-generated long histories on two "
        "interleaved interpreters against a Python session model",
        "All histories up to length 3 (quick) / 5 (thorough, 37 449 "
        "histories) over an 8-command core alphabet and random histories up "
        "to length 30 over 16 command kinds (define, assign, read, function "
        "mutating a global, partial failure, syntax error, aborted loop, "
        "require of good / dependent / missing / failing / syntactically "
        "broken / circular user modules) are issued to fresh interpreters "
        "and to a session model; value, error value, stdout, repetition of "
        "every failing command, final read-back of all variables, module "
        "cache and load stack must agree. Residue differential (no model): "
        "sessions built from 26 defining commands (values, documented "
        "functions, aliases, objects, classes, modules) are run with and "
        "without 1-3 of 42 commands that fail before defining anything; all "
        "other results and a snapshot of every session and base name (kind, "
        "rendering, doc string), the module table, load stack, recursion "
        "limit and cwd must be identical, a repeated failing command must "
        "fail identically, doc strings must survive, and a second "
        "interpreter that ran nothing must look as before.",
        "Trusted: the session model (about 100 lines); user modules on a "
        "scratch HOME; failed module loads may re-run top-level code.",
        "DESIGN.md section 5 C10",
    ),
    "C11": (
        "model-based property testing of generated module graphs written to "
        "disk and importer sessions using every import form, against a "
        "Python model of the module system",
        "Random graphs of up to 5 generated user modules (load markers, "
        "public/private definitions, mutable state, importer-variable probe, "
        "chains / diamonds / cycles) are imported in fresh interpreters with "
        "random sequences of require forms; after every step the importer's "
        "visible names (ls()), the module objects' members, the load markers "
        "on stdout, shared state through every binding and through "
        "dependants, the probe failure and cycle errors are compared with "
        "the model. Both module search configurations are exercised.",
        "Trusted: the module-system model (load order, cache, cycle "
        "detection); failed loads are not cached.",
        "DESIGN.md section 5 C11",
    ),
    "C12": (
        "differential testing across fresh processes with different "
        "PYTHONHASHSEED values + in-process metamorphic testing (permuted "
        "collection literals) over Hypothesis-generated programs",
        "Programs send generated sets/maps of strings and mixed scalars "
        "through about 100 iteration / conversion / spread / destructuring / "
        "rendering / library paths and through every base-environment "
        "function applied directly to them in ten argument shapes (about "
        "2 000 more paths, tie-prone key / cmp functions); each batch is interpreted in 8 (thorough "
        "32) fresh subprocesses with different hash seeds plus this process "
        "and all observable outcomes must be identical; permuting every "
        "collection literal must not change the outcome either. The workers "
        "report the raw host order of each program's strings so that the "
        "fraction of programs whose host order really varied is measured. "
        "Sets and maps of functions (which hash by identity) are sent "
        "through 14 paths in workers whose memory layout is shifted with "
        "the seed.",
        "Trusted: the outcome serialisation (value rendering, stdout, error "
        "value and message); a finite number of seeds; one open finding "
        "(dates mixed with numbers) excluded by construction.",
        "DESIGN.md section 5 C12",
    ),
    "C13": (
        "exhaustive pool sweep (itertools.product over a 29-value pool, "
        "multiprocessing) of every function object and syntactic form, an "
        "extreme-value sweep (non-finite decimals, huge ints, calendar "
        "edges) and Hypothesis-generated argument values from source-text "
        "tables, all with an exception-class oracle; failures bucketed by "
        "signature (collect-and-continue)",
        "Every distinct function object of the base environments and bundled "
        "modules (about 220) x all argument tuples of arity <= 3 (quick: "
        "arity <= 2 exhaustive + 5 % of arity 3; thorough: all, ~2.5 million "
        "calls) and about 150 syntactic forms x all operand tuples are "
        "evaluated; the same functions and forms are fed 14 extreme values "
        "(exhaustive at arity <= 2, patterned at 3) and generated arguments "
        "(digit runs, format / source / regex / JSON fragments, nested "
        "collections, odd callbacks, named and spread arguments); anything "
        "but a proper value or a CklRuntimeError carrying a language value "
        "within the time budget is a violation (a CklSyntaxError out of a "
        "built-in too: catch cannot intercept it). Exhaustive over the "
        "pools, sampled over the generated tables.",
        "Trusted: the pool as representative of value kinds and edge values; "
        "2 s / 20 s budgets as termination; scratch cwd/HOME.",
        "DESIGN.md section 5 C13",
    ),
    "C14": (
        "metamorphic property-based testing: random re-layout, re-spelling "
        "and re-parenthesisation of generated programs must not change the "
        "observable outcome",
        "Programs from the C02-C05 generators plus adversarial string-literal "
        "programs and hand-written adjacency snippets are re-rendered >= 10 "
        "(thorough 20) times each with random separators at every token "
        "boundary (incl. none, TAB, CRLF, comments, comment at end of input), "
        "optional semicolons dropped, redundant parentheses and alternative "
        "literal spellings; value rendering, stdout and error value must "
        "equal the canonical rendering's. No reference model is involved.",
        "Trusted: the adjacency rule of Appendix B and the spelling "
        "functions (each spelling is a documented literal form).",
        "DESIGN.md section 5 C14",
    ),
    "C15": (
        "exhaustive enumeration of small sequences x index arguments against "
        "a sequence reference model, plus Hypothesis for long sequences and "
        "huge indices",
        "Every string over {a,b,c} and list over {1,2,3} up to length 4 "
        "(quick) / 6 (thorough) x every index in [-9, 9] for all indexing, "
        "slicing, substr/sublist, find/find_last, insert_at, delete_at, "
        "substitute, element-assignment and compound element-assignment "
        "(with an index expression that counts its evaluations) forms is "
        "evaluated by the interpreter and "
        "compared with a model written from the statement; random longer "
        "sequences and indices up to 2^64 on top. Exhaustive inside the "
        "bound, sampled outside.",
        "Trusted: the 60-line sequence model; runtime errors are observed "
        "through `catch all`; find/find_last parts non-empty, start in range.",
        "DESIGN.md section 5 C15",
    ),
    "C16": (
        "exhaustive pool sweep with before/after deep snapshots of all "
        "arguments and a result-identity oracle, the same on "
        "Hypothesis-generated argument values + Hypothesis-generated "
        "alias-graph scenarios checked against a Python heap model",
        "Part 1 enumerates every function object and syntactic form over the "
        "pool tuples that contain a mutable container (quick: arity <= 2 + "
        "sample; thorough: all) and reports any argument change not made by a "
        "documented mutator on its first argument, and any container result "
        "that is one of the argument objects unless the function is a "
        "selector / own-kind conversion / mutator; the same on generated "
        "argument values. Part 2 generates random "
        "sequences of definitions, aliases, nesting, mutators (also through "
        "parameters and closures) and non-mutating producers; the interpreter "
        "result for every variable must equal a heap model with reference "
        "semantics. Exhaustive over the pool, sampled over scenarios.",
        "Trusted: the snapshot function (containers deeply, functions by "
        "name and doc string) and the heap model (about 250 lines); "
        "streams are not snapshotted; no cycles.",
        "DESIGN.md section 5 C16",
    ),
    "C17": (
        "exhaustive enumeration of the calendar (thorough) / key days of "
        "every year + Hypothesis-generated days, times and offsets (quick) "
        "against Python's proleptic Gregorian calendar",
        "Differential check of to_oa_date / to_date and of interpreted date "
        "arithmetic against datetime ordinals: thorough enumerates all 2.96 "
        "million days 1900-9999; quick covers 1 Jan / 28-29 Feb / 1 Mar / "
        "31 Dec of every year plus random days, times of day and offsets, "
        "and pairs of dates whose difference must lead from one to the other "
        "(d + (e - d) == e, also exactly at midnight).",
        "Trusted: Python's datetime as the reference calendar; program text "
        "carries times to the second.",
        "DESIGN.md section 5 C17",
    ),
    "C18": (
        "property-based testing (Hypothesis) of string laws against host-"
        "string oracles and mutual consistency; exhaustive small pairs; "
        "backtracking matcher for s/sprintf output",
        "Generated adversarial string pairs (separators, regex "
        "metacharacters, quotes, backslash, control characters, braces) and "
        "all pairs of strings <= 2 (3) over 4 critical symbols are pushed "
        "through 30 laws (split/join inverse, replace, reverse, case, trim, "
        "contains/find/in/starts/ends consistency, chr/ord, lines/words); "
        "s/sprintf outputs are matched against the literal text and per-"
        "placeholder format predicates. Sampling, exhaustive on the small "
        "set.",
        "Trusted: Python string functions as definitions; the format "
        "predicates (width, side, precision, hex) as read from the "
        "documentation of s.",
        "DESIGN.md section 5 C18",
    ),
    "C19": (
        "property-based testing (Hypothesis) against host-language "
        "definitions and permutation metamorphic relations; exhaustive "
        "boundary words x shift counts for the bitwise functions",
        "Generated lists/sets with duplicates and 1 vs 1.0 are compared with "
        "Python set/list definitions for 30 collection functions; "
        "mean/median*/min/max on every sampled permutation (all for length "
        "<= 4/5); pow/gcd/lcm/abs/sign/sum/prod on ints up to 2^80 against "
        "Python integers; all 13 boundary words x counts 0..40 x word pairs "
        "against 32-bit arithmetic (exhaustive).",
        "Trusted: the Python reference definitions; gcd/lcm up to sign; both "
        "conventions for shift counts >= 32; tolerance 1e-9 on decimals.",
        "DESIGN.md section 5 C19",
    ),
    "C20": (
        "property-based testing (Hypothesis) with layout generators that "
        "know every token's / planted fault's start line; exhaustive token x "
        "follower matrix",
        "Token level: every token kind x every kind of following text x "
        "leading layout (exhaustive matrix) and random token sequences with "
        "random separators are scanned and each token's file and line "
        "compared with the line the generator placed it on. Program level: "
        "one of 14 faults is planted on a known line at top level / in "
        "blocks / loops / catch blocks / called functions / module files "
        "while the rest of the program is laid out over random lines; the "
        "error position, the stack-trace entry of the call and, for modules, "
        "the mod:<name> file must name that line. Unplanted faults: "
        "generated calls of every library function and every operator / "
        "statement form of the C13 tables over generated operands, at top "
        "level, in a function block and as a bare function body (plus an "
        "exhaustive table of node-level forms x operands that cannot be "
        "rendered or converted): whatever runtime error results must carry "
        "a file and the line of the form (or of code inside an operand), "
        "every stack-trace entry a file and a line, and the entry of the "
        "enclosing call its line.",
        "Trusted: the layout generators' line arithmetic; columns are not "
        "checked; planted constructs are single-line; text handed to eval / "
        "s at run time counts its own lines.",
        "DESIGN.md section 5 C20",
    ),
}

NOT_APPLICABLE = {}


def main():
    props = [json.loads(l) for l in open(os.path.join(HERE, "properties.jsonl"))]
    ids = [p["id"] for p in props]
    checks = []
    for pid in ids:
        if pid not in CHECKS:
            continue
        tech, text, note, ref = CHECKS[pid]
        checks.append({
            "property_id": pid,
            "quick_cmd": f"{PY} -m vf {pid} --tier quick",
            "thorough_cmd": f"{PY} -m vf {pid} --tier thorough",
            "evidence_file": f"/verif/evidence/{pid}.json",
            "replay_cmd_template": f"{PY} -m vf replay {{path}}",
            "engine": "vf",
            "level_claimed": {"category": "exploration", "text": text,
                              "design_ref": ref},
            "level_note": note,
            "technique": tech,
        })
    na = []
    for pid in ids:
        if pid not in CHECKS:
            na.append({
                "property_id": pid,
                "reason": NOT_APPLICABLE.get(
                    pid, "check not built yet (work in progress; property-"
                         "based testing applies, see DESIGN.md section 5)"),
            })
    manifest = {
        "version": 1,
        "setup_cmd": "sh /verif/setup.sh",
        "hooks": {
            "guard": "CKL_VERIF",
            "enable": "none needed: all observation is from outside the "
                      "interpreter (return values, exceptions, audit hooks, "
                      "subprocesses); checks import ckl from /repo/src",
            "baseline_off_cmd": "cd /repo && /venv/bin/python -m pytest -q "
                                "-p no:cacheprovider",
            "source_commits": [],
            "add_only": True,
        },
        "engines": [{
            "name": "vf",
            "path": "/verif/vf",
            "serves_properties": [c["property_id"] for c in checks],
            "kind_free_text": "Python package: Hypothesis-driven generators, "
                              "reference models, exhaustive sweeps, "
                              "known-findings filter, evidence writer",
        }],
        "checks": checks,
        "not_applicable": na,
        "notes": "Every command honours VERIF_SEED / VERIF_TIER, re-execs "
                 "itself with PYTHONHASHSEED=0, imports ckl from /repo/src "
                 "(or $VERIF_REPO/src), exits 0/1/2 = held / VIOLATION / "
                 "harness error. Defects repaired in /repo by 'fix:' commits "
                 "and recorded ones are listed in known_findings.json.",
    }
    with open(os.path.join(HERE, "MANIFEST.json"), "w") as f:
        json.dump(manifest, f, indent=1)
        f.write("\n")
    try:
        import jsonschema
        schema = json.load(open("/root/.vp/MANIFEST.schema.json"))
        jsonschema.validate(manifest, schema)
        print("MANIFEST.json valid;", len(checks), "checks,", len(na), "n/a")
    except ImportError:
        print("MANIFEST.json written (jsonschema not available)")


if __name__ == "__main__":
    sys.exit(main())
