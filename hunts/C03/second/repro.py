#!/usr/bin/env python
"""Reproductions for the second C03 hunt (lexical names / argument binding).

Run:  cd /tmp/seed4/C03 && PYTHONPATH=/tmp/seed4/C03/src /venv/bin/python hunt/repro.py
Prints one line per finding: FINDING <n>: <VIOLATES|HOLDS> <description>
Uses only the ckl package and the standard library; every probe runs under
signal.alarm so that a hang is reported as TIMEOUT.
"""
import signal

from ckl.interpreter import Interpreter
from ckl.errors import CklRuntimeError, CklSyntaxError


class Timeout(Exception):
    pass


def _on_alarm(*_):
    raise Timeout()


signal.signal(signal.SIGALRM, _on_alarm)


def run(src, legacy=True, limit=5):
    """Returns the printed value, or 'RTE: msg', 'SYN: msg', 'EXC: Type', 'TIMEOUT'."""
    signal.alarm(limit)
    try:
        it = Interpreter(secure=False, legacy=legacy)
        return str(it.interpret(src, "repro.ckl"))
    except CklRuntimeError as e:
        return "RTE: " + str(e.msg)
    except CklSyntaxError as e:
        return "SYN: " + str(e.msg)
    except Timeout:
        return "TIMEOUT"
    except Exception as e:  # host-level exception leaking out of the interpreter
        return "EXC: " + type(e).__name__
    finally:
        signal.alarm(0)


def both(src):
    return [run(src, legacy=True), run(src, legacy=False)]


def report(n, violates, text):
    print(f"FINDING {n}: {'VIOLATES' if violates else 'HOLDS'} {text}")


# 1 -- member definitions of `def class` are also bound in the enclosing scope
#      and overwrite a parameter / local of the same name (doubtful)
r_a = both("def f(x) do def class A do def x = 3 end; x end; f('param')")
r_b = both("def v = 'mine'; def class A do def v = 3; def m(self) 1 end; v")
r_c = both("def o = <* v = 3 *>; def v = 'mine'; v")   # object literal: no leak (control)
report(1, any(x != "'param'" for x in r_a) or any(x != "'mine'" for x in r_b),
       f"(doubtful) 'def class' members leak into the enclosing scope: parameter x after "
       f"'def class A do def x = 3 end' reads {r_a[0]} (want 'param'); top-level v reads {r_b[0]} "
       f"(want 'mine'); object literal control: {r_c[0]}")

# 2 -- a default value that mentions a later parameter is resolved outside the
#      callee scope, even when the later parameter was passed by name (doubtful)
r_a = both("def b = 'outer'; def f(a = b, b = 1) [a, b]; f(b = 5)")
r_b = both("def f(a = b, b = 1) [a, b]; f(b = 5)")
report(2, any(x != "[5, 5]" for x in r_a + r_b),
       f"(doubtful) default 'a = b' of f(a = b, b = 1) called as f(b = 5): with an outer b -> {r_a[0]}, "
       f"without -> {r_b[0]} (the named argument b = 5 is bound first, so [5, 5] under 'evaluated in the callee scope')")

# 3 -- a variable named keys / values / entries cannot be the bare iterable of a
#      for loop or comprehension (doubtful, parser)
r_a = both("def f(values) do def r = []; for v in values do append(r, v) end; r end; f([1, 2])")
r_b = both("def f(keys) [k for k in keys]; f([1, 2])")
r_c = both("def f(entries) [k for k in (entries)]; f([1, 2])")   # parenthesised works
report(3, any(x != "[1, 2]" for x in r_a + r_b),
       f"(doubtful) parameter named values/keys used as 'for v in values do' -> {r_a[0]}; "
       f"'[k for k in keys]' -> {r_b[0]}; parenthesised '(entries)' -> {r_c[0]}")

# 4 -- the pipeline takes a signed numeric literal as x, but binds tighter than
#      the unary minus of a name; after a literal left side no further call (doubtful, parser)
r_a = both("def f(a, b) [a, b]; -1 !> f(2)")
r_b = both("def f(a, b) [a, b]; def x = 1; -x !> f(2)")
r_c = both("def f(a) fn(b) [a, b]; def x = 1; x !> f()(2)")
r_d = both("def f(a) fn(b) [a, b]; 1 !> f()(2)")
report(4, r_a[0] == "[-1, 2]" and any(x != "[-1, 2]" for x in r_b) or r_c != r_d,
       f"(doubtful) '-1 !> f(2)' -> {r_a[0]} but '-x !> f(2)' with x = 1 -> {r_b[0]}; "
       f"'x !> f()(2)' -> {r_c[0]} but '1 !> f()(2)' -> {r_d[0]}")

# asides, outside the statement of C03 (listed in FINDINGS.md)
r_a = both("def p = <* _init_(self, a) self->x = a *>; def c = <* _proto_ = p *>; def o = new(c, 9); o->x")
r_b = both("def n = 0; def o = <* _str_ = fn(self) do n += 1; 'o' end, m(self) error 'x' *>; "
           "do o->m() catch all n end")
r_c = both("[[a, b] for a in [[1], [2, 3]] for b in a]")
report(5, any(x != "9" for x in r_a) or any(x != "0" for x in r_b) or any(x.startswith("RTE") for x in r_c),
       f"(aside, not C03) new() with an inherited _init_ -> x = {r_a[0]} (want 9); a failing call runs the "
       f"receiver's _str_ for the stack trace: counter = {r_b[0]} (want 0); "
       f"'for a in .. for b in a' -> {r_c[0]}")
