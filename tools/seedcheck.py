#!/usr/bin/env python3
"""Confirm a seeded change and run the checks against it.

  seedcheck.py confirm PATCH DEMO           -> applies in a scratch copy, runs the
                                               repository tests and the demo with
                                               and without the change
  seedcheck.py detect  PATCH PROP [TIER] [SEED]
                                            -> runs `vf PROP` against a scratch
                                               copy with the patch applied
  seedcheck.py keep    ID PROP PATCH DEMO "needs" [--checks C01,C14]
                                            -> confirm + detect (quick) + store
                                               under /verif/seeded/ID/

Scratch copies are made under a mkdtemp directory and removed afterwards.
"""
import json
import os
import shutil
import subprocess
import sys
import tempfile
import time

VERIF = os.path.dirname(os.path.dirname(os.path.abspath(__file__)))
REPO = "/repo"
PY = "/venv/bin/python"


def scratch(patch=None):
    tmp = tempfile.mkdtemp(prefix="vf_seed_")
    dst = os.path.join(tmp, "repo")
    os.makedirs(dst)
    for d in ("src", "tests"):
        shutil.copytree(os.path.join(REPO, d), os.path.join(dst, d))
    for f in ("pyproject.toml",):
        if os.path.exists(os.path.join(REPO, f)):
            shutil.copy(os.path.join(REPO, f), dst)
    if patch:
        r = subprocess.run(["git", "apply", "--unsafe-paths", "--directory",
                            dst, os.path.abspath(patch)], cwd="/",
                           capture_output=True, text=True)
        if r.returncode != 0:
            r = subprocess.run(["patch", "-p1", "-d", dst, "-i",
                                os.path.abspath(patch)],
                               capture_output=True, text=True)
            if r.returncode != 0:
                shutil.rmtree(tmp)
                raise SystemExit("patch does not apply: " + r.stdout + r.stderr)
    return tmp, dst


def run(cmd, cwd, env=None, timeout=1800):
    t0 = time.time()
    try:
        r = subprocess.run(cmd, cwd=cwd, env=env, capture_output=True,
                           text=True, timeout=timeout)
        return r.returncode, r.stdout + r.stderr, time.time() - t0
    except subprocess.TimeoutExpired as e:
        return -9, "TIMEOUT " + str(e.stdout or "")[-500:], time.time() - t0


def pyenv(dst):
    env = dict(os.environ)
    env["PYTHONPATH"] = os.path.join(dst, "src")
    env["VERIF_REPO"] = dst
    env["PYTHONDONTWRITEBYTECODE"] = "1"
    return env


def confirm(patch, demo):
    res = {}
    tmp, dst = scratch(patch)
    try:
        code, out, dt = run([PY, "-m", "pytest", "-q", "-p",
                             "no:cacheprovider", "tests"], dst, pyenv(dst),
                            900)
        res["tests_with_change"] = out.strip().splitlines()[-1] if out else ""
        res["tests_pass_with_change"] = (code == 0 and "854 passed" in out)
        code, out, dt = run([PY, os.path.abspath(demo)], dst, pyenv(dst), 300)
        res["demo_with_change_exit"] = code
        res["demo_with_change_tail"] = out.strip()[-300:]
    finally:
        shutil.rmtree(tmp, ignore_errors=True)
    tmp, dst = scratch(None)
    try:
        code, out, dt = run([PY, os.path.abspath(demo)], dst, pyenv(dst), 300)
        res["demo_without_change_exit"] = code
        res["demo_without_change_tail"] = out.strip()[-200:]
    finally:
        shutil.rmtree(tmp, ignore_errors=True)
    res["confirmed"] = bool(res["tests_pass_with_change"]
                            and res["demo_with_change_exit"] != 0
                            and res["demo_without_change_exit"] == 0)
    return res


def detect(patch, prop, tier="quick", seed="1"):
    tmp, dst = scratch(patch)
    try:
        env = dict(os.environ)
        env["VERIF_REPO"] = dst
        env["VERIF_SEED"] = str(seed)
        env.pop("PYTHONPATH", None)
        code, out, dt = run([PY, "-m", "vf", prop, "--tier", tier,
                             "--survey"], VERIF, env, 7200)
        sigs = [l.strip()[len("signature: "):] for l in out.splitlines()
                if l.strip().startswith("signature:")]
        # survey mode does not suppress the open known findings: a change
        # counts as detected only by a signature that is not one of them
        known = {e["signature"] for e in json.load(open(os.path.join(
            VERIF, "known_findings.json")))["findings"]
            if e.get("status") == "open"}
        sigs = [x for x in sigs if x not in known] + \
               [x for x in sigs if x in known]
        new = [x for x in sigs if x not in known]
        return {"property": prop, "tier": tier, "seed": str(seed),
                "exit": code,
                "detected": code == 1 and "VIOLATION" in out and bool(new),
                "wall_s": round(dt, 1), "signatures": sigs[:6],
                "tail": out[-400:] if code not in (0, 1) else ""}
    finally:
        shutil.rmtree(tmp, ignore_errors=True)
        shutil.rmtree(os.path.join(VERIF, "findings"), ignore_errors=True)


def recheck(ids=None):
    """Re-run every kept change against the repository as it is now (it has
    been repaired many times since the changes were written): does the patch
    still apply, does the demonstration still fail with it, is it detected."""
    head = subprocess.run(["git", "-C", REPO, "rev-parse", "--short", "HEAD"],
                          capture_output=True, text=True).stdout.strip()
    base = os.path.join(VERIF, "seeded")
    for sid in sorted(os.listdir(base)):
        if ids and sid not in ids:
            continue
        d = os.path.join(base, sid)
        mp = os.path.join(d, "meta.json")
        meta = json.load(open(mp))
        patch = os.path.join(d, "patch.diff")
        rec = {"repo_head": head}
        try:
            tmp, dst = scratch(patch)
            shutil.rmtree(tmp, ignore_errors=True)
            rec["applies"] = True
        except SystemExit:
            rec["applies"] = False
        if rec["applies"]:
            conf = confirm(patch, os.path.join(d, "demo.py"))
            rec["still_breaks_demo"] = conf["demo_with_change_exit"] != 0 and \
                conf["demo_without_change_exit"] == 0
            rec["tests_with_change"] = conf["tests_with_change"]
            det = detect(patch, meta["breaks_property"])
            rec["detected"] = det["detected"]
            rec["signatures"] = det["signatures"][:3]
            rec["wall_s"] = det["wall_s"]
        meta["recheck"] = rec
        json.dump(meta, open(mp, "w"), indent=1)
        print(sid, json.dumps(rec)[:300], flush=True)


def main(argv):
    if argv[0] == "recheck":
        return recheck(argv[1:] or None)
    if argv[0] == "confirm":
        print(json.dumps(confirm(argv[1], argv[2]), indent=1))
    elif argv[0] == "detect":
        print(json.dumps(detect(*argv[1:]), indent=1))
    elif argv[0] == "keep":
        sid, prop, patch, demo, needs = argv[1:6]
        checks = [prop]
        if "--checks" in argv:
            checks = argv[argv.index("--checks") + 1].split(",")
        conf = confirm(patch, demo)
        print(json.dumps(conf, indent=1))
        if not conf["confirmed"]:
            raise SystemExit("NOT CONFIRMED - not kept")
        dets = [detect(patch, c) for c in checks]
        d = os.path.join(VERIF, "seeded", sid)
        os.makedirs(d, exist_ok=True)
        shutil.copy(patch, os.path.join(d, "patch.diff"))
        shutil.copy(demo, os.path.join(d, "demo.py"))
        meta = {
            "id": sid, "breaks_property": prop, "needs_to_manifest": needs,
            "origin": "written by an independent sub-agent that saw only the "
                      "property text and a scratch worktree of the repository",
            "confirmation": conf,
            "ran": "tools/seedcheck.py keep (scratch copy of /repo + patch; "
                   "repository tests; demo with and without the change; quick "
                   "check of the property with VERIF_REPO pointing at the "
                   "scratch copy)",
            "checks": dets,
        }
        with open(os.path.join(d, "meta.json"), "w") as f:
            json.dump(meta, f, indent=1)
            f.write("\n")
        print(json.dumps(dets, indent=1))
    else:
        raise SystemExit(__doc__)


if __name__ == "__main__":
    main(sys.argv[1:])
