"""Reproductions for the C04 hunt (conditionals, loops, comprehensions, exits).

Run:  cd /tmp/seed3/C04 && PYTHONPATH=/tmp/seed3/C04/src /venv/bin/python hunt/repro.py
Prints one line per finding: FINDING <n>: <VIOLATES|HOLDS> <description>
"""
import os
import signal
import sys

sys.path.insert(
    0, os.path.join(os.path.dirname(os.path.abspath(__file__)), "..", "src")
)

from ckl.interpreter import Interpreter  # noqa: E402
from ckl.errors import CklRuntimeError, CklSyntaxError  # noqa: E402


class Timeout(BaseException):
    pass


def _on_alarm(*_):
    raise Timeout("timeout")


signal.signal(signal.SIGALRM, _on_alarm)


def run(src, legacy=True):
    """Returns a string: 'OK <value>', 'RTE <msg>', 'SYN <msg>', 'PYEXC ...'"""
    signal.alarm(10)
    try:
        it = Interpreter(secure=False, legacy=legacy)
        return "OK " + str(it.interpret(src, "repro.ckl"))
    except CklRuntimeError as e:
        return "RTE " + str(e.msg)
    except CklSyntaxError as e:
        return "SYN " + str(e.msg)
    except Timeout:
        return "PYEXC timeout"
    except BaseException as e:  # noqa
        return "PYEXC " + type(e).__name__ + ": " + str(e)
    finally:
        signal.alarm(0)


def report(n, violates, text):
    print(f"FINDING {n}: {'VIOLATES' if violates else 'HOLDS'} {text}")


def both(src):
    return [run(src, legacy=True), run(src, legacy=False)]


# ---------------------------------------------------------------- finding 1
# value expression of a comprehension is evaluated before the filter
def finding1():
    loop = ("def r = []; for x in [0,1,2] do "
            "if x != 0 then append(r, 1/x) end; r")
    expected = run(loop)  # OK [1, 0]
    forms = [
        "[1/x for x in [0,1,2] if x != 0]",
        "<<1/x for x in [0,1,2] if x != 0>>",
        "<<<x => 1/x for x in [0,1,2] if x != 0>>>",
        "[1/x for x in [0,1,2] for y in [1] if x != 0]",
        "[1/x for x in [0,1,2] also for y in [1,1,1] if x != 0]",
        "<<1/x for x in [0,1,2] for y in [1] if x != 0>>",
        "<<1/x for x in [0,1,2] also for y in [1,1,1] if x != 0>>",
        "def m = <<<'a' => 1>>>; [m[k] for k in ['a', 'b'] if k in m]",
    ]
    results = [r for f in forms for r in both(f)]
    bad = [r for r in results if not r.startswith("OK")]
    # side effects too
    se = run("def log = []; def f(x) do append(log, x); x end; "
             "def r = [f(x) for x in [1,2,3] if x > 1]; log")
    report(
        1,
        expected == "OK [1, 0]" and (len(bad) > 0 or se != "OK [2, 3]"),
        "comprehension evaluates the element expression before the `if` "
        f"filter ({len(bad)}/{len(results)} guarded comprehensions raise, "
        f"e.g. {bad[0] if bad else '-'}; side effects seen for {se})",
    )


# ---------------------------------------------------------------- finding 2
def finding2():
    progs = [
        "def f() do return; end; f()",
        "def f() do 1; return; end; f()",
        "def f() return; f()",
        "def f() do do 1; return; end end; f()",
        "1; return;",
        "return;",
    ]
    results = [r for p in progs for r in both(p)]
    bad = [r for r in results if r.startswith("PYEXC")]
    control = run("def f() do if TRUE then return; 5 end; f()")  # OK NULL
    report(
        2,
        len(bad) > 0,
        "bare `return;` as last statement of a function body/script crashes "
        f"with a Python exception ({len(bad)}/{len(results)}: "
        f"{bad[0] if bad else '-'}); non-last bare return gives {control}",
    )


# ---------------------------------------------------------------- finding 3
def finding3():
    m = "<<<3=>'c', 1=>'a', 2=>'b'>>>"
    loop = run(f"def r = []; for x in {m} do append(r, x) end; r")
    compr = run(f"[x for x in {m}]")
    report(
        3,
        loop != compr or loop != "OK [1, 2, 3]",
        "plain `for x in map` visits values, plain `[x for x in map]` yields "
        f"entries, neither visits keys (loop: {loop}; comprehension: {compr})",
    )


# ---------------------------------------------------------------- finding 4
def finding4():
    a = run("def nan = decimal('nan'); def m = <<<>>>; m[2]=0; m[nan]=0; "
            "m[1]=0; def r = []; for k in keys m do append(r, k) end; r")
    b = run("def nan = decimal('nan'); def m = <<>>; append(m, 2); "
            "append(m, nan); append(m, 1); [x for x in m]")
    c = run("def nan = decimal('nan'); [x for x in <<1, 2, 3, nan>>]")
    ok = True
    for r in (a, b, c):
        # the relative order of the ordinary numbers must be ascending
        nums = [int(t) for t in r[4:-1].split(", ") if t.strip().isdigit()]
        if nums != sorted(nums):
            ok = False
    report(
        4,
        not ok,
        "a NaN key/element destroys the ascending order of the other "
        f"elements (map keys: {a}; sets: {b} / {c})",
    )


# ---------------------------------------------------------------- finding 5
def finding5():
    a = run("def r = []; for i in [1,2] do for i in [3,4] do append(r, i) "
            "end; append(r, i) end; r")
    b = run("def f(x) do for x in [1,2] do x end; x end; f(7)")
    c = run("def i = 10; for i in [1,2] do i end; i")
    bad = [r for r in (a, b, c) if not r.startswith("OK")]
    report(
        5,
        len(bad) > 0,
        "[doubtful] a `for` deletes a same-named variable of the enclosing "
        "scope (outer loop variable, parameter, local) when it ends "
        f"({a}; {b}; {c})",
    )


# ---------------------------------------------------------------- finding 6
def finding6():
    loop = run("def r = []; for x in [1,2] do for y in [x, x*10] do "
               "append(r, [x,y]) end end; r")
    c1 = run("[[x, y] for x in [1,2] for y in [x, x*10]]")
    c2 = run("def x = 100; [[x, y] for x in [1,2] for y in [x, x*10]]")
    c3 = run("[[x, y] for x in [] for y in [1/0]]")
    report(
        6,
        c1 != loop or c2 != loop or c3 != "OK []",
        "[doubtful] `for..for` product evaluates the second collection once, "
        "outside the scope of the first variable "
        f"(nested loop: {loop}; comprehension: {c1}; with outer x: {c2}; "
        f"empty first list: {c3})",
    )


# ---------------------------------------------------------------- finding 7
def finding7():
    a = run("def f() do do 1 finally return 2 end; 3 end; f()")
    b = run("def r = []; for i in [1,2,3] do do append(r, i) finally break; "
            "append(r, 9) end end; r")
    report(
        7,
        a != "OK 2" or b != "OK [1]",
        "[doubtful] return/break/continue inside a `finally` clause are "
        f"silently ignored (return: {a}, expected 2; break: {b}, "
        "expected [1])",
    )


# ---------------------------------------------------------------- finding 8
def finding8():
    a = run("def f() do def l = [do if x == 2 then return 'early'; x end "
            "for x in [1,2,3]]; 'late' end; f()")
    b = run("def r = []; for i in [1,2,3] do append(r, if i == 2 then "
            "continue else i) end; length(r)")
    report(
        8,
        a != "OK 'early'" or b != "OK 2",
        "[doubtful] an exit statement inside a comprehension element or a "
        "call argument is swallowed and stored as a value "
        f"(return in comprehension: {a}; continue in argument: length {b})",
    )


# ---------------------------------------------------------------- finding 9
def finding9():
    a = run("def values = [1,2]; def r = []; for x in values do "
            "append(r, x) end; r")
    b = run("def keys = [1,2]; [x for x in keys]")
    c = run("def entries = <<1,2>>; <<x for x in entries>>")
    bad = [r for r in (a, b, c) if not r.startswith("OK")]
    report(
        9,
        len(bad) > 0,
        "[doubtful] a collection held in a variable named keys/values/"
        f"entries cannot be iterated ({a}; {b}; {c})",
    )


# --------------------------------------------------------------- finding 10
def finding10():
    a = run("def l = [1,2,3,4,5]; def r = []; for x in l do append(r, x); "
            "if x == 2 then delete_at(l, 0) end; [r, l]")
    report(
        10,
        a != "OK [[1, 2, 3, 4, 5], [2, 3, 4, 5]]",
        "[doubtful] deleting from the list inside the loop makes `for` skip "
        f"an element that is still in the list ({a})",
    )


if __name__ == "__main__":
    for f in (finding1, finding2, finding3, finding4, finding5, finding6,
              finding7, finding8, finding9, finding10):
        try:
            f()
        except BaseException as e:  # noqa
            print(f"FINDING {f.__name__[7:]}: HOLDS (probe itself failed: "
                  f"{type(e).__name__}: {e})")
