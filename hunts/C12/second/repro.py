#!/usr/bin/env python
"""Reproductions for the second C12 hunt (hash seed / process / construction order).

Run:  cd /tmp/seed4/C12 && PYTHONPATH=/tmp/seed4/C12/src /venv/bin/python hunt/repro.py

Prints one line per finding:  FINDING <n>: <VIOLATES|HOLDS> <description>
(plus NOTE lines for the re-check of the item the earlier report had and that
was repaired).  Only the ckl package and the standard library are used.  Every
program runs in a fresh child process (with a timeout) under several values of
PYTHONHASHSEED; a finding VIOLATES when the observable outcome (value, output
text, error) is not the same under all seeds.
"""
import os
import subprocess
import sys

HERE = os.path.dirname(os.path.abspath(__file__))
SRC = os.path.join(os.path.dirname(HERE), "src")

CHILD = r"""
import sys, io
from ckl.interpreter import Interpreter
from ckl.errors import CklRuntimeError, CklSyntaxError
legacy = sys.argv[1] == "1"
src = sys.stdin.read()
it = Interpreter(secure=False, legacy=legacy)
buf = io.StringIO()
it.setStandardOutput(buf)
try:
    v = it.interpret(src, "p.ckl")
    print("VALUE", v)
except CklRuntimeError as e:
    print("RTERR", e.value, "|", e.msg, "|", e.pos)
except CklSyntaxError as e:
    print("SYNERR", e.msg, e.pos)
except BaseException as e:
    print("PYEXC", type(e).__name__, e)
print("OUT", repr(buf.getvalue()))
"""


def run(src, seed, legacy=True):
    env = dict(os.environ, PYTHONHASHSEED=str(seed), PYTHONPATH=SRC)
    try:
        p = subprocess.run(
            [sys.executable, "-c", CHILD, "1" if legacy else "0"],
            input=src, capture_output=True, text=True, env=env, timeout=20,
        )
        return p.stdout + p.stderr[-300:]
    except subprocess.TimeoutExpired:
        return "TIMEOUT"


def outcomes(src, seeds=range(8), legacy=True):
    return sorted({run(src, s, legacy) for s in seeds})


def report(n, violates, text):
    print(f"FINDING {n}: {'VIOLATES' if violates else 'HOLDS'} {text}")
    sys.stdout.flush()


# ---------------------------------------------------------------- finding 1
# Ordering a set (or the keys of a map) compares members by their rendering;
# the rendering of an object calls its _str_ member, i.e. user code.  Which
# pairs are compared, and in which sequence, follows the internal order of the
# set (hash seed) or the insertion order of the map (construction order), so
# everything _str_ does besides returning a text is observable.
MK_PRINT = ("def mk(n) <*n = n, _str_ = fn(self) do print(self->n); "
            "'o' + self->n; end*>; ")
# (a) output text: no explicit rendering, just a loop over the set
f1a = outcomes(MK_PRINT + "def s = <<mk('a'), mk('b'), mk('c'), mk('d')>>; "
               "for x in s do 1 end; 0")
# (b) error: which member's error is raised
f1b = outcomes("def mk(n) <*n = n, _str_ = fn(self) error 'bad ' + self->n*>; "
               "def s = <<mk('a'), mk('b'), mk('c')>>; list(s)")
# (c) value: a _str_ that depends on state makes the enumeration itself differ
f1c = outcomes("def n = 0; def mk(k) <*k = k, _str_ = fn(self) do n += 1; "
               "'o' + ((self->k * n) % 7); end*>; "
               "def s = <<mk(1), mk(2), mk(3), mk(4), mk(5)>>; [o->k for o in s]")
# (d) non-legacy mode, library function
f1d = outcomes("require IO; require Set; def mk(n) <*n = n, _str_ = fn(self) do "
               "IO->print(self->n); 'o' + self->n; end*>; "
               "def s = <<mk('a'), mk('b'), mk('c'), mk('d')>>; "
               "Set->diff(s, <<>>); 0", legacy=False)
# (e) maps: equal maps built in another order (one process, one seed)
f1e = run(MK_PRINT + "def a = mk('a'); def b = mk('b'); def c = mk('c'); "
          "def m1 = <<<>>>; m1[a] = 1; m1[b] = 2; m1[c] = 3; "
          "def m2 = <<<>>>; m2[c] = 3; m2[a] = 1; m2[b] = 2; "
          "print('|'); string(m1); print('|'); string(m2); print('|'); m1 == m2", 0)
seg = f1e.split("OUT ")[-1].strip().strip("'").split("|")
f1e_diff = "VALUE TRUE" in f1e and len(seg) >= 3 and seg[1] != seg[2]
report(1, len(f1a) > 1 or len(f1b) > 1 or len(f1c) > 1 or len(f1d) > 1
       or f1e_diff,
       "user code in _str_ runs while a set / the keys of a map are put in "
       "order, in a sequence given by the internal order: distinct outcomes "
       f"over 8 hash seeds: printed text {len(f1a)}, raised error {len(f1b)} "
       f"({'; '.join(o.splitlines()[0] for o in f1b)}), enumeration with a "
       f"stateful _str_ {len(f1c)}, non-legacy Set->diff {len(f1d)}; equal maps "
       f"built in another order print {seg[1:3] if len(seg) >= 3 else seg}")

# ---------------------------------------------------------------- finding 2
# In-place mutation (s[i] = c for strings, append for lists) can leave a set
# with two EQUAL members.  sorted() leaves them in internal order, and since
# they are distinct mutable values the enumeration order is observable.
f2a = outcomes("def a = 'abc'; def b = 'abd'; def s = <<a, b, 'x', 'y'>>; "
               "b[2] = 'c'; def l = list(s); l[0][0] = 'Z'; [a, b]", seeds=range(12))
f2b = outcomes("def p = ['q']; def q = ['q', 'r']; "
               "def s = <<p, q, ['x'], ['y'], ['z']>>; append(p, 'r'); "
               "for x in s do do append(x, 'M'); break; end; end; [p, q]",
               seeds=range(12))
f2c = outcomes("def a = 'abc'; def b = 'abd'; def s = <<a, b, 'x', 'y'>>; "
               "b[2] = 'c'; def [first] = s; first[0] = 'Z'; [a, b]",
               seeds=range(12))
report(2, len(f2a) > 1 or len(f2b) > 1 or len(f2c) > 1,
       "a set of strings (or lists) that holds two equal members after an "
       "in-place change of one of them enumerates the two in hash order; "
       "visible through which of them a later change hits: distinct results "
       f"over 12 seeds: list(s) {len(f2a)} "
       f"({' / '.join(o.splitlines()[0] for o in f2a)}), for loop {len(f2b)}, "
       f"destructuring {len(f2c)}")

# ------------------------------------------------- re-check of repaired item
old5 = outcomes("def S = <<'pear', 'fig', 'apple', 'kiwi'>>; def l = ls('S'); "
                "[l[0] < l[1], l[1] < l[2], l[2] < l[3]]")
print("NOTE repaired item of the first report (ls('S') of a set variable): "
      + ("same outcome under 8 seeds: " + old5[0].splitlines()[0]
         if len(old5) == 1 else f"STILL DIFFERS ({len(old5)} outcomes)"))
