from ckl.lexer import Lexer
def toks(s):
    return [(t.value, t.type, t.pos.line, t.pos.column) for t in Lexer(s, "f").scan().tokens]
for s in ["x\n", "x y", "x\ny", "  foo(1, 2)", "a +\n b", "'str'\n", "'str' x", "12\n", "12 ", "1.5\n", "a<=b", "a <= b", "a<b", "<<1>>", "<<<1 => 2>>>", "a->b", "a !> b", "//pat// x", "x # c\ny", "x\r\ny", "0x1F\n", "TRUE\n", "if\n", "...x", "a += 1", "a -1", "a\n\n\nb", "'a\nb' c", "def f(x) do\n  x +\n  undefined_y\nend; f(1)"]:
    print(repr(s), toks(s))
