"""C13  Only language-level errors escape evaluation."""
import itertools
import os

from vf.core import Finding
from vf import sweep

PROPERTY = "C13"
RULE = (
    "Exhaustive pool sweep: every distinct function object of the legacy base "
    "environment and of every bundled module (about 220) is called with all "
    "argument tuples of arity 0..min(3, declared arity) from a pool of 28 "
    "values (NULL TRUE FALSE 0 1 -1 3 2.5 0.0 '' 'a' 'abc' '1' [] [1,2,3] "
    "['a','b'] [[1,2],[3,4]] <<>> <<1,2>> <<<>>> <<<'a'=>1>>> <*a=1*> //a// a "
    "date, a lambda, a native, string input and output streams), fresh objects "
    "per position plus the diagonal with one shared object; the non-legacy "
    "environment for arity <= 2; and about 90 syntactic forms (operators, "
    "in / is forms, indexing, slicing, element and member assignment, method "
    "and pipeline calls, for / comprehension / spread / destructuring forms, "
    "if / while / error / catch). Extremes: every function (arity <= 3) and "
    "form with at least one argument from a second pool of values any "
    "program can produce - decimal('inf'), -inf, nan, +-1e300, 5e-324, "
    "+-2^63, 10^18, the day numbers just outside the calendar, the first and "
    "last date, a date with a time of day - combined with nine ordinary "
    "values. quick: arity <= 2 exhaustive and a seeded "
    "sample of arity 3; thorough: everything. Oracle: a value that is a "
    "proper language value, or CklRuntimeError carrying a language value "
    "(a CklSyntaxError out of a text-evaluating built-in is a finding: catch "
    "cannot intercept it), within 2 s (confirmed alone "
    "with 20 s). Non-trivial = distinct (function or form, argument kinds) "
    "that got past argument binding."
)
ASSUMPTIONS = [
    "non-secure interpreter; cwd and HOME are scratch directories; stdin is "
    "a two-line string",
    "the base pool's largest int is 3, so time-outs mean loops without "
    "progress, not big outputs; in the extremes part a time-out or "
    "MemoryError of a call that was given 2^63, -2^63, 10^18 or a day "
    "number of millions is counted as excluded (resource use proportional to "
    "the number asked for), never as a finding",
    "open findings are identified by <function or form>|<exception class or "
    "BADVALUE or TIMEOUT>|<innermost repository frame>",
]

FORMS = [
    # binary operators
    "A + B", "A - B", "A * B", "A / B", "A % B", "A == B", "A != B", "A <> B",
    "A < B", "A <= B", "A > B", "A >= B", "A and B", "A or B", "A in B",
    "A not in B", "A is B", "A is not B", "A is in B", "A is not in B",
    "A < B < C", "A == B != C",
    "A starts with B", "A starts not with B", "A ends with B",
    "A ends not with B", "A contains B", "A contains not B", "A matches B",
    "A matches not B",
    # unary and predicate forms
    "not A", "- A", "+ A", "A is empty", "A is not empty", "A is zero",
    "A is not zero", "A is negative", "A is not negative", "A is numerical",
    "A is not numerical", "A is alphanumerical", "A is date",
    "A is date with hour", "A is time", "A is string", "A is int",
    "A is decimal", "A is boolean", "A is pattern", "A is None", "A is func",
    "A is input", "A is output", "A is list", "A is set", "A is map",
    "A is object", "A is node", "A is not list",
    "A is numerical min_len B", "A is numerical max_len B",
    "A is alphanumerical exact_len B",
    # indexing, slicing, assignment
    "A[B]", "A[B, C]", "A[B to C]", "A[B to *]", "A[B] = C", "A[B] += C",
    "A->a", "A->a = B", "A->a(B)", "A->m(B)", "B !> A(C)", "A(B)", "A(B, C)",
    "A(...B)", "A(a = B)", "A !> identity()",
    # iteration forms
    "for x in A do x end", "for [x, y] in A do x end",
    "for x in keys A do x end", "for x in values A do x end",
    "for x in entries A do x end", "for [x, y] in entries A do y end",
    "[x for x in A]", "[x for x in keys A]", "[x for x in values A]",
    "[x for x in entries A]", "[x for x in A if B]",
    "[[x, y] for x in A for y in B]", "[[x, y] for x in A also for y in B]",
    "<<x for x in A>>", "<<[x, y] for x in A for y in B>>",
    "<<[x, y] for x in A also for y in B>>",
    "<<<x => B for x in A>>>", "<<<B => x for x in A>>>",
    # spread, literals, destructuring
    "[...A]", "[...A, ...B]", "(fn(r...) r...)(...A)",
    "(fn(a = 1, b = 2) [a, b])(...A)", "[A, B]", "<<A, B>>",
    "<<<identity(A) => B>>>", "<*a = A*>",
    "def [x, y] = A; [x, y]", "def x = 1; def y = 2; [x, y] = A; [x, y]",
    # more names than elements (the missing ones are NULL)
    "for [x, y, z] in A do z end", "for [x, y, z] in entries A do z end",
    "def [x, y, z] = A; z", "def x = 1; def y = 2; def z = 3; [x, y, z] = A; z",
    "(fn(a, b = 2, c = 3) c)(...A)",
    # keys / values / entries in every comprehension form, nested loops
    "[[x, y] for x in keys A also for y in values B]",
    "[[x, y] for x in values A also for y in entries B]",
    "[[x, y] for x in entries A also for y in keys B]",
    "<<[x, y] for x in values A also for y in values B>>",
    "[[x, y] for x in values A for y in keys B]",
    "<<[x, y] for x in keys A for y in entries B>>",
    "<<x for x in values A>>", "<<x for x in entries A>>",
    "<<<x => 1 for x in values A>>>",
    "<<<x[0] => x[1] for x in entries A>>>",
    "for x in A do for x in B do x end end",
    "for x in A do for y in B do for x in A do y end end end",
    "for [x, y] in entries A do for [x, y] in entries B do y end end",
    "[x for x in A if x in B]", "for x in A do if x == B then break; end",
    "for x in A do continue end",
    "while TRUE do for x in A do break end; break end",
    # errors raised inside loops, callbacks and evaluated text keep their value
    "do for x in A do error B end catch B 1 end",
    "do for x in A do undefined_zz end catch all 1 end",
    "def f(x) error B; do f(A) catch B 1 end",
    "do eval(A) catch B 1 end", "do eval('error ' + string([A]) + '[0]') catch A 1 end",
    # loops that change what they iterate
    "for v in values A do A->zz = v end", "for k in keys A do remove(A, k) end",
    "for x in A do append(A, B); if length(A) > 6 then break end",
    # callbacks that change the collection that is being processed
    "find(A, B, key = fn(x) do delete_at(A, 0); x end)",
    "find_last(A, B, key = fn(x) do delete_at(A, 0); delete_at(A, 0); x end)",
    "sorted(A, key = fn(x) do delete_at(A, 0); x end)",
    "sorted(A, cmp = fn(a, b) do delete_at(A, 0); compare(a, b) end)",
    "map_list(A, fn(x) do delete_at(A, 0); x end)",
    "filter(A, fn(x) do remove(A, x); TRUE end)",
    "for_each(A, fn(x) delete_at(A, 0))",
    "reduce(A, fn(a, b) do delete_at(A, 0); a end)",
    "[delete_at(A, 0) for x in A]", "for x in A do delete_at(A, 0) end",
    "<<remove(A, x) for x in A>>", "for k in A do remove(A, k) end",
    "for x in A do insert_at(A, 0, x); if length(A) > 9 then break end",
    # prototype chains
    "def o = <*a = A*>; o->_proto_ = o; o->zz",
    "def o = <*a = A*>; o->_proto_ = o; string(o)",
    "def o = <*a = A*>; o->_proto_ = <*_proto_ = o*>; o->zz(B)",
    # names the library looks up
    "def compare = A; sorted(B)", "def identity = A; sorted(B)",
    "def f(l) do def identity = A; sorted(l) end; f(B)",
    "compare = A; sorted(B)", "identity = A; sorted(B)",
    "[compare, identity] = A; sorted(B)",
    # a value that was changed after it became a key / an element
    "def m = <<<>>>; m[A] = 1; append(A, B); string(m)",
    "def m = <<<>>>; m[A] = 1; A[0] = B; for v in m do v end",
    "def m = <<<>>>; m[A] = 1; A->zz = B; [e for e in entries m]",
    "def m = <<<>>>; m[A] = 1; append(A, B); m < 1",
    "def m = <<<>>>; m[A] = 1; append(A, B); (fn(r...) r...)(...m)",
    "def m = <<<>>>; m[A] = 1; append(A, B); object(m)",
    "def s = <<A>>; append(A, B); string(s)",
    # rendering hooks that change the container that is being rendered
    "def o = <*a = 1*>; o->a = <*_str_ = fn(self) do o->zz = A; 'x' end*>; string(o)",
    "def m = <<<>>>; def k = <*_str_ = fn(self) do remove(m, A); 'a' end*>; m[k] = 1; m[A] = 2; string(m)",
    "def l = [1]; l[0] = <*_str_ = fn(self) do append(l, A); 'x' end*>; string(l)",
    "def s = <<1>>; s !> append(<*_str_ = fn(self) do s !> append(A); 'x' end*>); string(s)",
    "<*_str_ = A*> < 1", "string(<*_str_ = A*>)",
    # control
    "if A then 1 else 2", "if B then 1 elif A then 2", "while A do break end",
    "error A", "do error B catch A 1 end", "do error A catch all 2 end",
    "do A finally B end", "return A", "(fn() A)()",
    "require A", "s(A)", "eval(A)", "string(A) + B",
    # every way of reading an input
    "process_lines(A, fn(l) l)", "process_lines(A, fn(l) B)", "read_all(A)",
    "readln(A)", "read(A)", "[l for l in A]", "for l in A do B end",
    "close(A)",
]


def form_src(form, nargs):
    src = form
    for ph, var in (("A", "p0"), ("B", "p1"), ("C", "p2")):
        src = _replace_placeholder(src, ph, var)
    return src


def _replace_placeholder(src, ph, var):
    out = []
    i = 0
    n = len(src)
    while i < n:
        c = src[i]
        if c == ph and (i == 0 or not (src[i - 1].isalnum() or src[i - 1] == "_")) \
                and (i + 1 == n or not (src[i + 1].isalnum() or src[i + 1] == "_")):
            out.append(var)
        else:
            out.append(c)
        i += 1
    return "".join(out)


def form_arity(form):
    n = 0
    for k, ph in enumerate("ABC"):
        if _replace_placeholder(form, ph, "\0") != form:
            n = k + 1
    return n


_SW = {}


def sweeper(legacy=True):
    key = (os.getpid(), legacy)
    if key not in _SW:
        _SW[key] = sweep.Sweeper(legacy)
    return _SW[key]


def run_case(case, budget=2.0):
    """Returns (outcome, label)."""
    sw = sweeper(case.get("legacy", True))
    args = case["args"]
    vals = [sw.make(i) for i in args]
    if case.get("shared") and len(vals) >= 2:
        vals[1] = vals[0]
    bindings = {f"p{k}": v for k, v in enumerate(vals)}
    if case["kind"] == "call":
        fn = None
        for label, f, names in sw.functions:
            if label == case["fn"]:
                fn = f
                break
        if fn is None:
            return ("missing",), case["fn"]
        bindings["f"] = fn
        src = "f(" + ", ".join(f"p{k}" for k in range(len(vals))) + ")"
        label = case["fn"]
    else:
        src = form_src(case["form"], len(vals))
        label = "form:" + case["form"]
    out = sw.run_src(src, bindings, budget)
    if out[0] not in ("value", "error", "syntax"):
        sw.reset_cwd()
    return out, label


def verdict(out, label):
    if out[0] == "host":
        return Finding(f"{label}|{out[1]}|{out[2]}", f"{out[1]}: {out[3]}")
    if out[0] == "badvalue":
        return Finding(f"{label}|BADVALUE", out[1])
    if out[0] == "timeout":
        return Finding(f"{label}|TIMEOUT", "no result within the budget")
    if out[0] == "syntax":
        # the source text of the call / form itself is fixed and valid, so a
        # syntax error comes from a built-in that evaluates text: `catch`
        # cannot intercept it
        return Finding(f"{label}|SYNTAXERROR",
                       "a syntax error (which catch cannot intercept) "
                       "instead of a runtime error")
    return None


def prop(case):
    budget = float(os.environ.get("VF_CASE_BUDGET", "20"))
    if case.get("kind") == "fuzz":
        out, label = run_fuzz_case(case, budget)
        if out[0] == "missing":
            return None
        f = verdict(out, label)
        if f is not None:
            f.signature += "|generated"
        return f
    out, label = run_case(case, budget)
    if out[0] == "missing":
        return None
    return verdict(out, label)


def describe(case):
    a = ", ".join(sweep.POOL_SRC[i] for i in case["args"])
    if case["kind"] == "call":
        return f"{case['fn']}({a})" + (" [shared]" if case.get("shared")
                                       else "")
    return f"{case['form']}  with  {a}"


def _handle(part, case, state):
    part.count()
    out, label = run_case(case)
    kinds = tuple(sweep.POOL_KIND[i] for i in case["args"])
    if out[0] == "error":
        msg = ""
    if len(case["args"]) > 0 and out[0] != "missing":
        part.nontriv((label, kinds))
    f = verdict(out, label)
    if f is None:
        return
    f.detail = describe(case) + " -> " + f.detail
    if out[0] == "timeout":
        # confirm once per label, afterwards only count
        if part.judge(Finding(f.signature), case) is None:
            return
        if label in state["timed_out"]:
            part.timeouts += 1
            return
        state["timed_out"].add(label)
        if not sweep.confirm_timeout(PROPERTY, case):
            part.timeouts += 1
            return
        f.detail = describe(case) + " -> no result within 20 s in a " \
            "fresh process"
    part.collect(f, case)
    part.cls("finding-bucket:" + f.signature.split("|")[1])


def tuples(n, arity, diagonal=True):
    for t in itertools.product(range(n), repeat=arity):
        yield list(t), False
    if diagonal and arity >= 2:
        for i in sorted(sweep.MUTABLE):
            for rest in itertools.product(range(n), repeat=arity - 2):
                yield [i, i] + list(rest), True


def part_functions(part, shard, nshards, max_arity, sample3, legacy=True):
    sw = sweeper(legacy)
    state = {"timed_out": set()}
    n = sweep.N
    import random
    rnd = random.Random(part.seed)
    idx = 0
    for label, fn, names in sw.functions:
        idx += 1
        if idx % nshards != shard:
            continue
        declared = len([x for x in names if not x.endswith("...")])
        top = 3 if any(x.endswith("...") for x in names) else min(3, declared)
        top = min(top, max_arity)
        for arity in range(0, top + 1):
            for args, shared in tuples(n, arity):
                if arity == 3 and sample3 < 1.0 and rnd.random() >= sample3:
                    continue
                case = {"kind": "call", "fn": label, "args": args,
                        "legacy": legacy}
                if shared:
                    case["shared"] = True
                _handle(part, case, state)
        part.cls("function-swept", label if idx % 23 == 0 else None)
    part.exhaustive = (sample3 >= 1.0 and max_arity >= 3)
    sw.close()


def part_forms(part, shard, nshards, sample3):
    sw = sweeper(True)
    state = {"timed_out": set()}
    import random
    rnd = random.Random(part.seed)
    for k, form in enumerate(FORMS):
        if k % nshards != shard:
            continue
        arity = form_arity(form)
        for args, shared in tuples(sweep.N, arity):
            if arity == 3 and sample3 < 1.0 and rnd.random() >= sample3:
                continue
            case = {"kind": "form", "form": form, "args": args}
            if shared:
                case["shared"] = True
            _handle(part, case, state)
        part.cls("form-swept", form if k % 9 == 0 else None)
    part.exhaustive = sample3 >= 1.0
    sw.close()


# ---- generated argument values (part_fuzz): source text any program can write
RICH_STRINGS = [
    # digit runs of every length, date-like and almost date-like texts
    "'1'", "'12'", "'1234567'", "'12345678'", "'123456789'", "'2020010112'",
    "'20200101120000'", "'20200101120000123'", "'20201301'", "'20200230'",
    "'00000000'", "'99999999'", "'2020-01-01'", "'20200101 12'",
    # interpolation / format specifications
    "'{x}'", "'{x#zz}'", "'{0#5.2.1}'", "'{1+}'", "'{'", "'}'", "'{}'",
    "'{{0}}'", "'{0}{1}{2}'", "'{0#-5}'", "'{0#05.1}'", "'{0#x}'",
    "'{0#.}'", "'{#}'", "'{def}'", "'{error 1}'", "'{0#08x}'",
    "'{-1#0999999999999999999999999999999}'", "'{-1#099999999999999999}'",
    "'{-1#0999999999999999999999999999999.2}'",
    "'{-255#0999999999999999999999x}'",
    # source text
    "'1 +'", "'def'", "'('", "'fn(x) x'", "'[1,'", "'1 2'", "'<<<'",
    "'require Nope'", "'while FALSE do 1 end'", "'x = 1'", "'checkerlang_secure_mode'",
    # regular expressions
    "'('", "'[a-'", "'a{2,1}'", "'*'", "'a|'", "'(?P<n>a)'", "'\\\\'",
    "'a*?'", "'(a)(b)\\\\3'", "'.'", "'^$'",
    # JSON
    "'{\"a\": 1}'", "'[1, 2'", "'{\"a\":'", "'nul'", "'1e999'", "'NaN'",
    "'Infinity'", "'\"\\\\u12\"'", "'[[[[[[[[[[1]]]]]]]]]]'", "'{\"a\": {\"b\": null}}'",
    "'-'", "'0x10'", "'1_0'", "' 12 '", "'1.5.2'", "'+5'", "'1e5'",
    # formats for dates / numbers
    "'yyyy-MM-dd'", "'HH:mm:ss'", "'yyyyMMddHHmmssSSS'", "'%Y'", "'%'",
    "'dd.MM.yyyy HH'", "'y'", "''", "' '", "'\n'", "'a\nb\r\nc'",
    "'TRUE'", "'true'", "'NULL'", "'äöü€😀'", "'a,b,,c'", "','", "'ab' * 50",
    # characters that are digits for isdigit() but not for int()
    "'²²²²0101'", "'²²'", "'2020010¹'", "'١٢٣٤٠١٠١'", "'a\x00b'",
    # text the host cannot encode
    "chr(55296)", "'a' + chr(56320) + 'b'", "chr(0)",
]
RICH_NUMBERS = ["decimal('1.7e308')", "decimal('-1.7e308')", "-308", "308",
                "decimal('1e308')", "decimal('4.9e-324')",
                "0", "1", "-1", "2", "7", "-7", "31", "32", "33", "63", "64",
                "65", "255", "256", "1000", "65536", "-65536", "0.5", "-0.5", "1e-7 * 1" if False
                else "0.0000001", "1000000000000000.0", "123456789.125",
                "2.5", "100", "-100"]
RICH_COLLECTIONS = [
    "[1, 'a']", "[NULL]", "[[1], 2]", "[1, 2.5, 'a', NULL]", "['b', 'a']",
    "[3, 1, 2, 1, 3]", "[[1, 'a'], [2, 'b']]", "[[1, 2, 3]]", "[[]]",
    "[[1, 2], [3]]", "['a', ['b', ['c']]]", "[fn(x) x]", "[1, [2, [3, [4]]]]",
    "[TRUE, FALSE]", "[date('20200101'), date('20190101')]", "[1] * 7",
    "<<'a', 1>>", "<<[1]>>", "<<<<1>>>>" if False else "<< <<1>> >>",
    "<<NULL, TRUE, 2.5>>", "<<<1 => 'a'>>>", "<<<'a' => [1]>>>",
    "<<<'a' => 1, 'b' => 2, 'c' => 3>>>", "<<<[1] => 1>>>",
    "<<<'x' => <<<'y' => 1>>> >>>", "<<<'lst' => 1, 'start' => 2>>>",
    "<*a = 1, b = 'x'*>", "<*f = fn(self) 1*>", "<*a = <*b = 1*>*>",
    "<*_proto_ = <*a = 1*>, b = 2*>", "<**>", "'abc'", "'a'",
    # objects with special members of the wrong kind
    "<*_proto_ = NULL*>", "<*_proto_ = 5, a = 1*>", "<*_str_ = fn(self) 'S'*>",
    "<*_str_ = 1*>", "<*_str_ = fn(self) 5*>", "<*_init_ = 1*>",
    "<*_proto_ = <*_proto_ = NULL*>*>",
    # a rendering hook that is a library function
    "<*_str_ = sorted*>", "<*_str_ = eval*>", "<*_str_ = s*>",
    "<*_str_ = println*>", "<*_str_ = readln*>", "<*_str_ = length*>",
    # several keys, one value
    "<<<1 => 'a', 2 => 'a'>>>", "<*a = 1, b = 1*>",
]
RICH_FUNCS = [
    "fn(a, b) a", "fn(a) 'x'", "fn(a, b) 'x'", "fn(a...) a...",
    "fn(x) error 'boom'", "fn(x) NULL", "fn() 1", "fn(a, b) 2.5", "compare",
    "identity", "length", "fn(a, b) [a]", "fn(x) x > 1", "fn(x) TRUE",
    "fn(a, b) a - b", "fn(a, b, c) a", "fn(x) [x, x]", "fn(a, b) a + b",
    "fn(x) fn(y) x", "string", "fn(x) 1 / 0",
]
RICH_OTHER = ["NULL", "TRUE", "FALSE", "//[a-z]+//", "//^a.c$//", "//(a)|b//",
              "//(x)?b//", "//(a)|(b)//", "stdin", "stdout", "console",
              "date('20200229')", "date('20201231235959')",
              "date('19000101')", "str_input('l1\nl2\n\nl4')",
              "str_input('')", "str_output()", "decimal('inf')",
              "decimal('nan')",
              # inputs that fail on the host side (bound by the sweeper)
              "badin", "badin", "noin"]


def gen_arg(ch):
    k = ch.weighted([(6, "s"), (4, "n"), (4, "c"), (2, "f"), (2, "o"),
                     (2, "pool")])
    if k == "s":
        return ch.choice(RICH_STRINGS)
    if k == "n":
        return ch.choice(RICH_NUMBERS)
    if k == "c":
        return ch.choice(RICH_COLLECTIONS)
    if k == "f":
        return ch.choice(RICH_FUNCS)
    if k == "o":
        return ch.choice(RICH_OTHER)
    return sweep.POOL_SRC[ch.int(0, sweep.N - 1)]


def run_fuzz_case(case, budget=2.0):
    """case: {"kind": "fuzz", "fn": label | None, "form": str | None,
    "args": [source, ...], "names": [name | None, ...], "spread": int | None}"""
    sw = sweeper(True)
    vals = []
    for a in case["args"]:
        o = sw.run_src(a, {}, budget)
        if o[0] in ("host", "badvalue"):
            return o, "value:" + a      # the literal itself is the finding
        if o[0] != "value":
            return ("missing",), "?"
        vals.append(o[1])
    bindings = {f"p{k}": v for k, v in enumerate(vals)}
    if case.get("fn"):
        fn = None
        for label, f, names in sw.functions:
            if label == case["fn"]:
                fn = f
                break
        if fn is None:
            return ("missing",), case["fn"]
        bindings["f"] = fn
        parts_ = []
        for k in range(len(vals)):
            nm = case["names"][k]
            if case.get("spread") == k:
                parts_.append(f"...p{k}")
            elif nm:
                parts_.append(f"{nm} = p{k}")
            else:
                parts_.append(f"p{k}")
        src = "f(" + ", ".join(parts_) + ")"
        label = case["fn"]
    else:
        src = form_src(case["form"], len(vals))
        label = "form:" + case["form"]
    out = sw.run_src(src, bindings, budget)
    if out[0] not in ("value", "error", "syntax"):
        sw.reset_cwd()
    return out, label


def describe_fuzz(case):
    if case.get("fn"):
        parts_ = []
        for k, a in enumerate(case["args"]):
            nm = case["names"][k]
            parts_.append(("..." if case.get("spread") == k else "") +
                          (f"{nm} = " if nm else "") + a)
        return f"{case['fn']}({', '.join(parts_)})"
    return f"{case['form']}  with  " + ", ".join(case["args"])


# functions whose argument is a path or a command: generated strings stay
# relative and harmless, but there is no reason to run generated source text
# through a shell
NO_FUZZ = {"execute", "run"}


def part_fuzz(part, n):
    from vf.gen.chooser import TapeChooser, tapes
    sw = sweeper(True)
    fns = [(label, names) for label, f, names in sw.functions
           if label.split("->")[-1].split(":")[-1] not in NO_FUZZ]
    state = {"timed_out": set()}

    def body(tape):
        ch = TapeChooser(tape)
        if ch.bool(0.75):
            label, names = fns[ch.int(0, len(fns) - 1)]
            declared = [x for x in names if not x.endswith("...")]
            rest = any(x.endswith("...") for x in names)
            top = 3 if rest else min(3, len(declared))
            k = ch.int(1, max(1, top)) if ch.bool(0.8) else ch.int(0, 4)
            args = [gen_arg(ch) for _ in range(k)]
            argnames = [None] * k
            spread = None
            if k and ch.bool(0.2):
                j = ch.int(0, k - 1)
                argnames[j] = ch.choice(declared + ["zz"]) if declared \
                    else "zz"
            elif k and ch.bool(0.08):
                spread = ch.int(0, k - 1)
            case = {"kind": "fuzz", "fn": label, "args": args,
                    "names": argnames, "spread": spread}
        else:
            form = ch.choice(FORMS)
            args = [gen_arg(ch) for _ in range(form_arity(form))]
            case = {"kind": "fuzz", "form": form, "args": args}
        part.count()
        out, label = run_fuzz_case(case)
        if out[0] == "missing":
            return None
        part.nontriv((label, tuple(case["args"]),
                      tuple(case.get("names") or ())))
        part.cls("fuzz:" + out[0], describe_fuzz(case)
                 if part.evaluations % 50 == 0 else None)
        f = verdict(out, label)
        if f is None:
            return None
        f.signature += "|generated"
        f.detail = describe_fuzz(case) + " -> " + f.detail
        if out[0] == "timeout":
            if label in state["timed_out"]:
                part.timeouts += 1
                return None
            state["timed_out"].add(label)
            out2, _ = run_fuzz_case(case, 20.0)
            if out2[0] != "timeout":
                part.timeouts += 1
                return None
        # collect-and-continue: one bucket per function / exception / frame
        part.collect(f, case)
        return None
    part.hyp(tapes(64), body, n, shrink=False)
    sw.close()


SMALL = [0, 4, 5, 7, 11, 14, 18, 20, 23]      # companions of an extreme value


def ext_tuples(arity):
    ext = list(range(sweep.N, sweep.N_EXT))
    if arity == 1:
        for e in ext:
            yield [e]
    elif arity == 2:
        for e in ext:
            for o in SMALL + ext:
                yield [e, o]
                if o not in ext:
                    yield [o, e]
    elif arity == 3:
        for e in ext:
            for o in (4, 11, 14):
                yield [e, o, o]
                yield [o, e, o]
                yield [o, o, e]
            yield [e, e, e]


def _handle_ext(part, case, state):
    """Like _handle, but a time-out or MemoryError of a call that was given
    a huge int is a resource matter (range(10^18)), not a finding."""
    big = any(a in sweep.EXT_BIGINT for a in case["args"])
    part.count()
    out, label = run_case(case, 0.5 if big else 2.0)
    kinds = tuple(sweep.POOL_SRC[i] if i >= sweep.N else sweep.POOL_KIND[i]
                  for i in case["args"])
    if out[0] != "missing":
        part.nontriv((label, kinds))
    if big and (out[0] == "timeout" or
                (out[0] == "host" and out[1] == "MemoryError")):
        part.excluded["by-construction:huge-int-resource"] += 1
        return
    f = verdict(out, label)
    if f is None:
        return
    f.signature += "|extreme"
    f.detail = describe(case) + " -> " + f.detail
    if out[0] == "timeout":
        if part.judge(Finding(f.signature), case) is None:
            return
        if label in state["timed_out"]:
            part.timeouts += 1
            return
        state["timed_out"].add(label)
        if not sweep.confirm_timeout(PROPERTY, case):
            part.timeouts += 1
            return
        f.detail = describe(case) + " -> no result within 20 s in a " \
            "fresh process"
    part.collect(f, case)
    part.cls("finding-bucket:" + f.signature.split("|")[1])


def part_extremes(part, shard, nshards):
    """Functions and forms fed non-finite and huge decimals, ints beyond 64
    bits, day numbers outside the calendar and the first / last date."""
    sw = sweeper(True)
    state = {"timed_out": set()}
    idx = 0
    for label, fn, names in sw.functions:
        idx += 1
        if idx % nshards != shard:
            continue
        declared = len([x for x in names if not x.endswith("...")])
        top = 3 if any(x.endswith("...") for x in names) else min(3, declared)
        for arity in range(1, top + 1):
            for args in ext_tuples(arity):
                _handle_ext(part, {"kind": "call", "fn": label, "args": args},
                            state)
    for k, form in enumerate(FORMS):
        if k % nshards != shard:
            continue
        for args in ext_tuples(form_arity(form)):
            _handle_ext(part, {"kind": "form", "form": form, "args": args},
                        state)
    part.cls("extremes-swept", ", ".join(sweep.EXT_SRC))
    part.exhaustive = True
    sw.close()


def parts(tier, seed):
    ps = [(f"extremes-{i}", part_extremes, {"shard": i, "nshards": 12})
          for i in range(12)]
    ps += [(f"fuzz-{i}", part_fuzz,
            {"n": 6000 if tier == "quick" else 150000}) for i in range(8)]
    if tier == "quick":
        ps += [(f"fn-{i}", part_functions,
                {"shard": i, "nshards": 10, "max_arity": 3, "sample3": 0.05})
               for i in range(10)]
        ps += [(f"forms-{i}", part_forms,
                {"shard": i, "nshards": 4, "sample3": 0.1})
               for i in range(4)]
        ps += [(f"nonlegacy-{i}", part_functions,
                {"shard": i, "nshards": 2, "max_arity": 2, "sample3": 0.0,
                 "legacy": False}) for i in range(2)]
    else:
        ps += [(f"fn-{i}", part_functions,
                {"shard": i, "nshards": 24, "max_arity": 3, "sample3": 1.0})
               for i in range(24)]
        ps += [(f"forms-{i}", part_forms,
                {"shard": i, "nshards": 6, "sample3": 1.0})
               for i in range(6)]
        ps += [(f"nonlegacy-{i}", part_functions,
                {"shard": i, "nshards": 2, "max_arity": 2, "sample3": 0.0,
                 "legacy": False}) for i in range(2)]
    return ps
