#!/usr/bin/env python3
"""Regenerate the machine-written tables of DESIGN.md (between the
<!-- BEGIN AUTO:x --> / <!-- END AUTO:x --> markers) from known_findings.json,
selftest_results.json and seeded/*/meta.json."""
import glob
import json
import os
import re

HERE = os.path.dirname(os.path.dirname(os.path.abspath(__file__)))


def esc(s):
    return str(s).replace("|", "\\|").replace("\n", " ")


def findings_table():
    d = json.load(open(os.path.join(HERE, "known_findings.json")))
    rows = ["| property | status | commit / signature | what failed |",
            "|---|---|---|---|"]
    for e in d["findings"]:
        if e["status"] == "open":
            rows.append(f"| {e['property']} | **open** (KNOWN-FINDING) | "
                        f"`{esc(e['signature'])}` | {esc(e['what'])} |")
    for e in d["findings"]:
        if e["status"] == "fixed":
            rows.append(f"| {e['property']} | fixed | `{e['commit']}` | "
                        f"{esc(e['what'])} |")
    n_open = sum(1 for e in d["findings"] if e["status"] == "open")
    n_fixed = sum(1 for e in d["findings"] if e["status"] == "fixed")
    head = (f"{n_fixed} entries repaired by `fix:` commits (regression inputs "
            f"under `replay/<ID>/`), {n_open} open entries.\n\n")
    return head + "\n".join(rows)


def mutants_table():
    p = os.path.join(HERE, "selftest_results.json")
    if not os.path.exists(p):
        return "(not run yet)"
    res = json.load(open(p))
    rows = ["| mutant | property | what it changes | repo tests | detected | "
            "first signatures | check wall s |", "|---|---|---|---|---|---|---|"]
    for r in res:
        sig = "; ".join(s.replace("signature: ", "")
                        for s in r.get("signatures", [])[:2])
        tp = r.get("tests_pass")
        rows.append(
            f"| {r['id']} | {r['property']} | {esc(r.get('desc', ''))} | "
            f"{'pass' if tp else ('fail' if tp is False else '-')} | "
            f"{'**yes**' if r.get('detected') else 'no'} | `{esc(sig)}` | "
            f"{r.get('check_wall_s', '')} |")
    det = sum(1 for r in res if r.get("detected"))
    surv = sum(1 for r in res if r.get("tests_pass"))
    head = (f"{len(res)} hand-written mutants; {det} detected by the quick "
            f"tier of their property's check; {surv} of them also pass the "
            f"repository's own 854 tests (the others are kept because they "
            f"still measure the check).\n\n")
    return head + "\n".join(rows)


def recheck_text(d):
    r = d.get("recheck")
    if not r:
        return ""
    if not r.get("applies"):
        return f"patch no longer applies at {r['repo_head']}"
    bits = []
    bits.append("demo still fails" if r.get("still_breaks_demo")
                else "demo no longer fails")
    bits.append("detected" if r.get("detected") else "**not detected**")
    return f"{', '.join(bits)} ({r['repo_head']})"


def seeded_table():
    rows = ["| id | property | needs to manifest | repo tests with change | "
            "detected by | signatures | wall s | re-run on the repaired tree |",
            "|---|---|---|---|---|---|---|---|"]
    metas = sorted(glob.glob(os.path.join(HERE, "seeded", "*", "meta.json")))
    n = det = 0
    for m in metas:
        d = json.load(open(m))
        n += 1
        by = [c for c in d["checks"] if c["detected"]]
        if by:
            det += 1
        sig = "; ".join(by[0]["signatures"][:2]) if by else ""
        hist = d.get("history", "")
        rows.append(
            f"| {d['id']} | {d['breaks_property']} | "
            f"{esc(d['needs_to_manifest'])} | "
            f"{esc(d['confirmation']['tests_with_change'])} | "
            f"{', '.join(c['property'] + ' ' + c['tier'] for c in by) or '**missed**'}"
            f"{' (' + esc(hist) + ')' if hist else ''} | `{esc(sig)}` | "
            f"{by[0]['wall_s'] if by else ''} | {recheck_text(d)} |")
    head = (f"{n} confirmed changes written by independent sub-agents "
            f"(each saw only the property text and a scratch worktree); "
            f"{det} detected.\n\n")
    return head + "\n".join(rows)


def main():
    p = os.path.join(HERE, "DESIGN.md")
    s = open(p, encoding="utf-8").read()
    for name, fn in (("findings", findings_table), ("mutants", mutants_table),
                     ("seeded", seeded_table)):
        pat = re.compile(r"(<!-- BEGIN AUTO:%s -->\n)(.*?)(<!-- END AUTO:%s -->)"
                         % (name, name), re.S)
        if not pat.search(s):
            print("marker missing:", name)
            continue
        s = pat.sub(lambda m: m.group(1) + fn() + "\n" + m.group(3), s)
    open(p, "w", encoding="utf-8").write(s)
    print("DESIGN.md tables regenerated")


if __name__ == "__main__":
    main()
