"""Reproductions for the second C01 hunt (parsing is total).

Run:  cd /tmp/seed4/C01 && PYTHONPATH=/tmp/seed4/C01/src /venv/bin/python hunt/repro.py
Prints one line per finding:  FINDING <n>: <VIOLATES|HOLDS> <description>
Only the ckl package and the standard library are used; total run time
is below one minute.
"""
import os
import signal
import subprocess
import sys
import time

HERE = os.path.dirname(os.path.abspath(__file__))
SRC = os.path.join(os.path.dirname(HERE), "src")
sys.path.insert(0, SRC)

from ckl.errors import CklSyntaxError  # noqa: E402
from ckl.parser import parse_script  # noqa: E402


class Hang(Exception):
    pass


def _alarm(*_):
    raise Hang()


signal.signal(signal.SIGALRM, _alarm)


def outcome(src, seconds=20):
    """'program' | 'syntax' | 'none' | 'host:<Type>' | 'hang'"""
    signal.alarm(seconds)
    try:
        try:
            node = parse_script(src, "t.ckl")
            return "none" if node is None else "program"
        except CklSyntaxError as e:
            if isinstance(e.msg, str) and e.msg and e.pos is not None:
                return "syntax"
            return "syntax-without-msg-or-pos"
        except Hang:
            return "hang"
        except BaseException as e:  # noqa
            return "host:" + type(e).__name__
    finally:
        signal.alarm(0)


def outcome_in_child(src, seconds):
    """Same, but in a child process that is killed after `seconds`
    (the parent is never exposed to the memory the rendering wants)."""
    code = (
        "import sys, resource\n"
        "resource.setrlimit(resource.RLIMIT_AS, (2 << 30, 2 << 30))\n"
        "sys.path.insert(0, %r)\n"
        "from ckl.parser import parse_script\n"
        "from ckl.errors import CklSyntaxError\n"
        "src = sys.stdin.read()\n"
        "try:\n"
        "    parse_script(src, 't.ckl'); print('program')\n"
        "except CklSyntaxError: print('syntax')\n"
        "except BaseException as e: print('host:' + type(e).__name__)\n"
    ) % SRC
    try:
        p = subprocess.run(
            [sys.executable, "-c", code], input=src, text=True,
            capture_output=True, timeout=seconds,
        )
        return (p.stdout.strip() or "died:" + p.stderr.strip()[-60:])
    except subprocess.TimeoutExpired:
        return "hang(>%ds)" % seconds


def report(n, violated, text):
    print(f"FINDING {n}: {'VIOLATES' if violated else 'HOLDS'} {text}")


# ---------------------------------------------------------------- finding 1
# A destructuring target whose item holds a compound assignment to an
# element / member (or 'exact_len', or a chained comparison) nested n
# levels deep: the error message renders the item, the item's syntax tree
# shares sub-trees, rendering takes 2^n steps and 2^n characters.
def idx(n):
    return "[" + "a[" * n + "0" + "] += 1" * n + "] = 1"


def member(n):
    return "[" + "(" * n + "a" + "->b += 1)" * n + "] = 1"


def exact_len(n):
    return "[" + "x is numerical exact_len (" * n + "1" + ")" * n + "] = 1"


def relchain(n):
    return "[" + "1 < (" * n + "1" + ") < 1" * n + "] = 1"


times = []
for n in (14, 16, 18):
    t = time.time()
    o = outcome(idx(n), 30)
    times.append("n=%d %s %.2fs" % (n, o, time.time() - t))
deep = [
    outcome_in_child(idx(39), 6),
    outcome_in_child(member(39), 6),
    outcome_in_child(exact_len(39), 6),
    outcome_in_child(relchain(39), 6),
]
same_without_target = outcome(idx(39)[1:-5])  # a[a[...] += 1] += 1 alone
report(
    1,
    any(x not in ("program", "syntax") for x in deep),
    "'[a[a[..a[0] += 1..] += 1] += 1] = 1' with 39 levels inside the target list, bracket depth 40 (%d characters): "
    % len(idx(39))
    + ", ".join(deep)
    + "; time doubles per level: " + "; ".join(times)
    + "; the same expression outside the target list: " + same_without_target,
)

# ---------------------------------------------------------------- finding 2
# A destructuring target whose item is a long flat chain (bracket nesting
# depth 1): rendering the left-deep tree for the error message exhausts
# the host recursion limit.
o = [
    outcome("[1" + " + 1" * 400 + "] = 1"),
    outcome("[a" + "->b" * 400 + "] = 1"),
    outcome("[f" + "()" * 400 + "] = 1"),
    outcome("[a" + "[0]" * 400 + "] = 1"),
    outcome("[1" + " !> f()" * 400 + "] = 1"),
]
ok = [outcome("[1" + " + 1" * 300 + "] = 1"),
      outcome("x = [1" + " + 1" * 20000 + "]")]
report(
    2,
    any(x not in ("program", "syntax") for x in o),
    "'[1 + 1 + ... + 1] = 1' with 400 flat terms (also ->b, (), [0], !> f() "
    "chains): " + ", ".join(o)
    + "; 300 terms: " + ok[0] + "; 20000 terms outside a target list: " + ok[1],
)

# ---------------------------------------------------------------- repaired
# items of the first report, re-checked (all hold now)
o = [
    outcome("9" * 4301), outcome("0x" + "f" * 3572),
    outcome("0b" + "1" * 14285),
    outcome("[(for a in b c)] = 1"),
    outcome("[x, do for [k, v] in entries m do end end] = [1, 2]"),
    outcome("return;"), outcome("1; return;"), outcome("fn() return;"),
]
print("REPAIRED ITEMS OF THE FIRST REPORT:",
      "all hold" if all(x in ("program", "syntax") for x in o) else "FAIL",
      o)
