import sys, signal, io, itertools, collections, traceback
from ckl.interpreter import Interpreter
from ckl.errors import CklSyntaxError, CklRuntimeError
from ckl.values import *
import ckl.functions as F
def h(*a): raise TimeoutError()
signal.signal(signal.SIGALRM, h)
it = Interpreter(True, True)
it.setStandardOutput(io.StringIO())
env = it.environment
POOL_SRC = ["NULL","TRUE","FALSE","0","1","-1","3","2.5","0.0","''","'a'","'abc'","'1'","[]","[1, 2, 3]","['a', 'b']","<<>>","<<1, 2>>","<<<>>>","<<<'a' => 1>>>","<*a = 1*>","//a//","date('20200101')","fn(x) x","identity","str_input('ab\\ncd')","str_output()"]
funcs = [s for s in env.getSymbols() if env.get(s).isFunc()]
print(len(funcs), "funcs", len(POOL_SRC), "pool")
buckets = collections.Counter(); examples = {}
n=0
skip = {"read","readln","read_all","timestamp", "date", "now", "random", "set_seed"}
for f in funcs:
    if f in skip: continue
    for ar in range(0,3):
        for args in itertools.product(POOL_SRC, repeat=ar):
            src = "%s(%s)" % (f, ", ".join(args))
            n+=1
            signal.setitimer(signal.ITIMER_REAL, 0.5)
            try:
                it.interpret(src, "t")
            except (CklRuntimeError) as e:
                if not isinstance(e.value, Value):
                    k=(f,"BADVALUE",type(e.value).__name__); buckets[k]+=1; examples.setdefault(k,src)
            except CklSyntaxError as e:
                k=(f,"SYNTAX",e.msg[:30]); buckets[k]+=1; examples.setdefault(k,src)
            except TimeoutError:
                k=(f,"TIMEOUT",""); buckets[k]+=1; examples.setdefault(k,src)
            except RecursionError:
                k=(f,"RecursionError",""); buckets[k]+=1; examples.setdefault(k,src)
            except Exception as e:
                tb = traceback.extract_tb(e.__traceback__)
                fr = [t for t in tb if "/ckl/" in t.filename][-1]
                k=(f,type(e).__name__, "%s:%s" % (fr.filename.split("/")[-1], fr.name)); buckets[k]+=1; examples.setdefault(k,src)
            finally:
                signal.setitimer(signal.ITIMER_REAL, 0)
print(n, "calls", len(buckets), "buckets")
roots = collections.Counter()
for k,v in sorted(buckets.items()):
    print(k, v, examples[k])
