import sys, math, itertools, collections
from hypothesis import given, settings, strategies as st, seed, HealthCheck
from ckl.interpreter import Interpreter
from ckl.functions import get_none_environment
from ckl.errors import *
from ckl.values import *
it = Interpreter(False, True)
# model values: ('null',), ('bool',b), ('int',n), ('dec',f), ('str',s), ('list',[..]), ('set',[..]), ('map',[(k,v)..]), ('pat', s)
ALPHA = list(" !\"#&'(aZ\\\t\n\ré/{}<>|.*") + ["//", "<<", ">>", "\x00", "\x7f", "☃"]
strs = st.lists(st.sampled_from(ALPHA), max_size=6).map("".join)
ints = st.one_of(st.integers(-5,5), st.integers(-2**70, 2**70), st.sampled_from([2**53, 2**53+1, 2**63-1, 2**63, -2**63]))
decs = st.one_of(st.floats(allow_nan=False, allow_infinity=False), st.integers(-5,5).map(float), st.sampled_from([0.1, 1e16, 1e-5, 1e22, 1.5e300, 5e-324, -0.0, 2.0**53]))
scal = st.one_of(st.just(('null',)), st.booleans().map(lambda b:('bool',b)), ints.map(lambda n:('int',n)), decs.map(lambda f:('dec',f)), strs.map(lambda s:('str',s)), st.sampled_from(['a','a.b','[ab]+','a/b','x|y']).map(lambda s:('pat',s)))
def ext(ch):
    return st.one_of(st.lists(ch, max_size=4).map(lambda l:('list',l)), st.lists(ch, max_size=4).map(lambda l:('set',l)), st.lists(st.tuples(ch, ch), max_size=3).map(lambda l:('map',l)))
vals = st.recursive(scal, ext, max_leaves=8)
def rstr(s):
    return "'" + s.replace("\\","\\\\").replace("'","\\'").replace("\r","\\r").replace("\n","\\n").replace("\t","\\t") + "'"
def lit(v):
    t=v[0]
    if t=='null': return 'NULL'
    if t=='bool': return 'TRUE' if v[1] else 'FALSE'
    if t=='int': return str(v[1])
    if t=='dec':
        import decimal
        r = repr(v[1])
        if 'e' in r: r = format(decimal.Decimal(r),'f')
        if '.' not in r: r += '.0'
        return r
    if t=='str': return rstr(v[1])
    if t=='pat': return '//'+v[1]+'//'
    if t=='list': return '[' + ', '.join(lit(x) for x in v[1]) + ']'
    if t=='set': return '<< ' + ', '.join(lit(x) for x in v[1]) + ' >>'
    if t=='map': return '<<< ' + ', '.join('(%s) => %s' % (lit(k), lit(x)) for k,x in v[1]) + ' >>>'
buckets = collections.Counter(); ex = {}
def note(k, e):
    buckets[k]+=1
    if k not in ex or len(e) < len(ex[k]): ex[k]=e
def ev(src):
    return it.interpret(src, "t", get_none_environment())
N=[0]
@seed(1)
@settings(max_examples=6000, deadline=None, database=None, suppress_health_check=list(HealthCheck))
@given(vals)
def t(v):
    N[0]+=1
    src = lit(v)
    try:
        r = ev(src)
    except Exception as e:
        note(("eval-literal", type(e).__name__), src); return
    txt = str(r)
    try:
        r2 = ev(txt)
    except Exception as e:
        note(("reparse", type(e).__name__, getattr(e,'msg','')[:30]), txt); return
    try:
        if not (r2 == r): note(("roundtrip-neq",), txt); return
    except Exception as e:
        note(("eq-raises", type(e).__name__), txt); return
    if str(r2) != txt: note(("rerender-differs",), txt + " -> " + str(r2))
    def deeptype(x):
        if x.isList(): return ['l'] + [deeptype(y) for y in x.value]
        if x.isSet(): return ['s'] + [deeptype(y) for y in x.getSortedItems()]
        if x.isMap(): return ['m'] + [[deeptype(k), deeptype(x.value[k])] for k in x.getSortedKeys()]
        return x.type()
    try:
        if deeptype(r) != deeptype(r2): note(("type-differs",), txt)
    except Exception as e:
        note(("sort-raises", type(e).__name__), txt)
t()
print(N[0], "cases")
for k,c in sorted(buckets.items(), key=lambda x:-x[1]): print(c, k, repr(ex[k])[:200])
