#!/usr/bin/env python
"""C06 third hunt - reproductions.  Run:
   cd /tmp/seed6/C06 && PYTHONPATH=/tmp/seed6/C06/src /venv/bin/python hunt/repro.py
Prints one line per item: FINDING <n>: <VIOLATES|HOLDS> <description>."""
import os
import signal
import sys

HERE = os.path.dirname(os.path.abspath(__file__))
sys.path.insert(0, os.path.join(os.path.dirname(HERE), "src"))

from ckl.interpreter import Interpreter  # noqa: E402
from ckl.errors import CklRuntimeError, CklSyntaxError  # noqa: E402


class Timeout(Exception):
    pass


def _alarm(*_):
    raise Timeout()


signal.signal(signal.SIGALRM, _alarm)


def run(src, legacy=True, prepare=None):
    it = Interpreter(secure=False, legacy=legacy)
    if prepare:
        prepare(it)
    signal.alarm(15)
    try:
        return str(it.interpret(src, "repro.ckl"))
    except CklRuntimeError as e:
        return "RTE: " + str(e.msg)
    except CklSyntaxError as e:
        return "SYN: " + str(e.msg)
    except Timeout:
        return "TIMEOUT"
    except BaseException as e:  # host error escaping
        return "HOST " + type(e).__name__ + ": " + str(e)
    finally:
        signal.alarm(0)


def report(n, violates, text, details):
    print(f"FINDING {n}: {'VIOLATES' if violates else 'HOLDS'} {text}")
    for d in details:
        print("    " + d)


# ---------------------------------------------------------------------------
# 1 (doubtful): the order relations contradict == for equal sets / maps
det = []
bad = False
for legacy in (True, False):
    src = ("def a = <<1.0>>; def b = <<1>>; "
           "[a == b, a < b, a >= b, compare(a, b), compare(b, a)]")
    got = run(src, legacy)
    det.append(f"legacy={legacy}: {src}  ->  {got}")
    # equal values: expected [TRUE, FALSE, TRUE, 0, 0]
    bad = bad or got != "[TRUE, FALSE, TRUE, 0, 0]"
    src = ("def a = <<<1 => 2>>>; def b = <<<1.0 => 2>>>; "
           "[a == b, a < b, a >= b, compare(a, b), compare(b, a)]")
    got = run(src, legacy)
    det.append(f"legacy={legacy}: {src}  ->  {got}")
    bad = bad or got != "[TRUE, FALSE, TRUE, 0, 0]"
src = "grouped(sorted([<<1>>, <<2>>, <<1.0>>]))"
got = run(src, True)
det.append(f"{src}  ->  {got}   (equal elements <<1>>, <<1.0>> not gathered)")
bad = bad or got.count("], [") != 1
src = "[grouped([<<1>>, <<1.0>>]), grouped([<<1.0>>, <<1>>])]"
got = run(src, True)
det.append(f"{src}  ->  {got}")
src = "do require List; List->grouped([<<<1 => 1>>>, <<<1.0 => 1>>>]); end"
got = run(src, False)
det.append(f"legacy=False: {src}  ->  {got}")
bad = bad or got != "[[<<<1 => 1>>>, <<<1.0 => 1>>>]]"
report(1, bad, "(doubtful) a == b is TRUE but a < b is TRUE, a >= b is FALSE and "
       "compare(a, b) <> 0 for equal sets / maps that spell a number "
       "differently; List->grouped therefore splits equal elements", det)

# ---------------------------------------------------------------------------
# 2 (doubtful): unary minus binds looser than the membership forms unless the
# operand is a number literal
det = []
ok_lit = run("-1 in <<-1>>")
got_var = run("def x = 1; -x in <<-1>>")
got_par = run("-(1) in <<-1>>")
got_isin = run("def x = 1; -x is in <<-1>>", False)
got_notin = run("def x = 1; -x not in <<-1>>")
ctrl = run("def x = 1; [(-x) in <<-1>>, -x == -1]")
det += [f"-1 in <<-1>>                  ->  {ok_lit}",
        f"def x = 1; -x in <<-1>>       ->  {got_var}",
        f"-(1) in <<-1>>                ->  {got_par}",
        f"def x = 1; -x is in <<-1>>    ->  {got_isin}   (legacy=False)",
        f"def x = 1; -x not in <<-1>>   ->  {got_notin}",
        f"def x = 1; [(-x) in <<-1>>, -x == -1]  ->  {ctrl}"]
bad = ok_lit == "TRUE" and (got_var != "TRUE" or got_par != "TRUE")
report(2, bad, "(doubtful) '-x in s' is parsed as -(x in s): the membership test "
       "answers TRUE for the literal -1 but fails for the equal values -x and -(1)",
       det)

# ---------------------------------------------------------------------------
# 3 (doubtful, outside the quantified domain): a host boolean handed in through
# the environment becomes an int that renders as True
det = []


def prep(it):
    it.environment.put("flag", True)


got = run("[flag, type(flag), flag == TRUE, flag == 1, flag in <<TRUE>>]",
          True, prep)
det.append("environment.put('flag', True); "
           "[flag, type(flag), flag == TRUE, flag == 1, flag in <<TRUE>>]"
           f"  ->  {got}")
report(3, got != "[TRUE, 'boolean', TRUE, FALSE, TRUE]",
       "(doubtful, host API) Environment.get tests isinstance(value, int) before "
       "bool: a host True is the int 'True', == 1 and <> TRUE", det)

# ---------------------------------------------------------------------------
# re-checks of items repaired after the earlier reports
det = []
src = "def k = 'abc'; def m = <<<>>>; m[k] = 1; k[0] = 'x'; string(m)"
got = run(src)
det.append(f"{src}  ->  {got}")
ok = not got.startswith("HOST")
src = ("def m = <<<'abc' => 1>>>; for k in set(m) do k[0] = 'x'; end; "
       "[string(m), [k for k in keys m], [...m], object(m)]")
got = run(src)
det.append(f"{src}  ->  {got}")
ok = ok and not got.startswith("HOST")
report(4, not ok, "re-check (repaired): rendering / iterating a map whose key was "
       "changed in place no longer raises a host KeyError", det)

det = []
src = ("def f(x) x; def s = <<f>>; def m = <<<>>>; m[f] = 1; def g = f; "
       "[f in s, g in s, m[f], m[g], f == g]")
got = run(src)
det.append(f"{src}  ->  {got}")
ok = got == "[TRUE, TRUE, 1, 1, TRUE]"
src = ("def l = [fn(x) x, fn(x) x + 1]; def s = set(l); def h = l[0]; "
       "min(l); [h in s, l[0] in s, l[1] in s, length(s)]")
got = run(src)
det.append(f"{src}  ->  {got}")
ok = ok and got == "[TRUE, TRUE, TRUE, 2]"
report(5, not ok, "re-check (repaired): functions stay findable as set elements / "
       "map keys after def g = f and after min(l)", det)

det = []
src = ("do require Set; [Set->union(<<1>>, [1.0, 2]), "
       "Set->symmetric_diff(<<1, 2>>, [2.0, 3])]; end")
got = run(src, False)
det.append(f"legacy=False: {src}  ->  {got}")
report(6, got != "[<<1, 2>>, <<1, 3>>]",
       "re-check (repaired): Set->union / symmetric_diff work outside legacy "
       "mode and treat 1 and 1.0 as one element", det)
