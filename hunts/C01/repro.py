"""Reproductions for the C01 hunt (parsing is total).

Run:  cd /tmp/seed3/C01 && PYTHONPATH=/tmp/seed3/C01/src /venv/bin/python hunt/repro.py
Prints one line per finding:  FINDING <n>: <VIOLATES|HOLDS> <description>
"""
import os
import signal
import subprocess
import sys
import warnings

HERE = os.path.dirname(os.path.abspath(__file__))
SRC = os.path.join(os.path.dirname(HERE), "src")
sys.path.insert(0, SRC)

from ckl.errors import CklSyntaxError, CklRuntimeError  # noqa: E402
from ckl.interpreter import Interpreter  # noqa: E402
from ckl.parser import parse_script  # noqa: E402


class Hang(Exception):
    pass


def _alarm(*_):
    raise Hang()


signal.signal(signal.SIGALRM, _alarm)


def outcome(src):
    """'program' | 'syntax' | 'none' | 'host:<Type>' | 'hang'"""
    signal.alarm(10)
    try:
        try:
            node = parse_script(src, "t.ckl")
            if node is None:
                return "none"
            return "program"
        except CklSyntaxError as e:
            if isinstance(e.msg, str) and e.msg and e.pos is not None:
                return "syntax"
            return "syntax-without-msg-or-pos"
        except Hang:
            return "hang"
        except BaseException as e:  # noqa
            return "host:" + type(e).__name__
    finally:
        signal.alarm(0)


def run_outcome(src):
    """Outcome of Interpreter.interpret: 'value' | 'ckl' | 'host:<Type>'"""
    signal.alarm(10)
    try:
        try:
            Interpreter(secure=False, legacy=False).interpret(src, "t.ckl")
            return "value"
        except (CklSyntaxError, CklRuntimeError):
            return "ckl"
        except Hang:
            return "hang"
        except BaseException as e:  # noqa
            return "host:" + type(e).__name__
    finally:
        signal.alarm(0)


def report(n, violated, text):
    print(f"FINDING {n}: {'VIOLATES' if violated else 'HOLDS'} {text}")


# ---------------------------------------------------------------- finding 1
# integer literals with more than 4300 decimal digits -> ValueError
o = [
    outcome("9" * 4301),
    outcome("x = -" + "1" * 4301 + ";"),
    outcome("0x" + "f" * 3572),
    outcome("0b" + "1" * 14285),
]
report(
    1,
    any(x not in ("program", "syntax") for x in o),
    "huge int literal (4301 digits / 3572 hex digits / 14285 bits): "
    + ", ".join(o),
)

# ---------------------------------------------------------------- finding 2
# destructuring-assign error message renders a NodeFor -> TypeError
o = [
    outcome("[(for a in b c)] = 1"),
    outcome("[fn() (for a in b c)] = 1"),
    outcome("[x, do for [k, v] in entries m do end end] = [1, 2]"),
]
report(
    2,
    any(x not in ("program", "syntax") for x in o),
    "'[(for a in b c)] = 1' (for-loop inside a destructuring target): "
    + ", ".join(o),
)

# ---------------------------------------------------------------- finding 3
# 'return;' -> parse_script returns None / AST with a None hole
o = [outcome("return;"), outcome("return ;")]
r = [
    run_outcome("return;"),
    run_outcome("1; return;"),
    run_outcome("def f() return; f()"),
    run_outcome("def f() do 1; return; end; f()"),
]
report(
    3,
    any(x not in ("program", "syntax") for x in o)
    or any(x.startswith("host:") for x in r),
    "bare 'return;' in tail position: parse -> "
    + ", ".join(o)
    + "; interpret -> "
    + ", ".join(r),
)

# ---------------------------------------------------------------- finding 4
# (doubtful) pattern literal lets a host FutureWarning through
with warnings.catch_warnings(record=True) as w:
    warnings.simplefilter("always")
    o_default = outcome("//[[a]]//")
    got_warning = any(issubclass(x.category, FutureWarning) for x in w)
with warnings.catch_warnings():
    warnings.simplefilter("error")
    o_error = outcome("//[a--b]//")
report(
    4,
    got_warning or o_error not in ("program", "syntax"),
    "(doubtful) pattern '//[[a]]//': host FutureWarning emitted="
    + str(got_warning)
    + "; with warnings-as-errors parse -> "
    + o_error,
)

# ---------------------------------------------------------------- finding 5
# (doubtful / probably out of scope: AST depth > 40 although no brackets)
# bracket-free right-recursive chains overflow the host stack.
code = (
    "import sys; sys.path.insert(0, %r)\n"
    "from ckl.parser import parse_script\n"
    "from ckl.errors import CklSyntaxError\n"
    "try:\n"
    "    parse_script('a = ' * 120 + '1', 't.ckl'); print('program')\n"
    "except CklSyntaxError: print('syntax')\n"
    "except BaseException as e: print('host:' + type(e).__name__)\n"
) % SRC
try:
    p = subprocess.run(
        [sys.executable, "-c", code],
        capture_output=True,
        text=True,
        timeout=30,
    )
    o5 = p.stdout.strip() or ("crash rc=%d" % p.returncode)
except subprocess.TimeoutExpired:
    o5 = "hang"
report(
    5,
    o5 not in ("program", "syntax"),
    "(doubtful, AST depth 120 > 40) 'a = ' * 120 + '1' without any "
    "brackets: " + o5,
)
