#!/usr/bin/env python
"""Reproductions for the C05 hunt (errors reach the nearest matching handler,
finally runs exactly once).

Run:  cd /tmp/seed3/C05 && PYTHONPATH=/tmp/seed3/C05/src /venv/bin/python hunt/repro.py

Prints one line per finding:  FINDING <n>: <VIOLATES|HOLDS> <short description>
Uses only the ckl package and the standard library.
"""
import io
import os
import signal
import sys
import tempfile

HERE = os.path.dirname(os.path.abspath(__file__))
sys.path.insert(0, os.path.join(os.path.dirname(HERE), "src"))

from ckl.interpreter import Interpreter  # noqa: E402
from ckl.errors import CklRuntimeError, CklSyntaxError  # noqa: E402


class Hang(BaseException):
    pass


def _alarm(*_):
    raise Hang()


signal.signal(signal.SIGALRM, _alarm)


def run(src, legacy=True, it=None, limit=15):
    """Returns ("OK", str(value)) | ("RTE", str(error value), msg) |
    ("SYN", msg) | ("PYEXC", exception class name, text)."""
    it = it or Interpreter(secure=False, legacy=legacy)
    it.setStandardOutput(io.StringIO())
    signal.alarm(limit)
    try:
        v = it.interpret(src, "repro.ckl")
        return ("OK", str(v))
    except CklRuntimeError as e:
        try:
            val = str(e.value)
        except BaseException as e2:  # rendering the value may itself fail
            val = "<unrenderable " + type(e2).__name__ + ">"
        return ("RTE", val, str(e.msg) if isinstance(e.msg, str) else "")
    except CklSyntaxError as e:
        return ("SYN", e.msg)
    except BaseException as e:
        return ("PYEXC", type(e).__name__, str(e)[:80])
    finally:
        signal.alarm(0)


def both(src, expected):
    """The property holds iff both interpreter modes give `expected`."""
    res = [run(src, legacy=leg) for leg in (True, False)]
    return all(r[:2] == expected for r in res), res


def report(n, holds, text, res):
    print(f"FINDING {n}: {'HOLDS' if holds else 'VIOLATES'} {text}  [got {res}]")


# ---------------------------------------------------------------------------
# 1. the error in flight is lost when the call arguments cannot be rendered
#    for the stack trace (nodes.invoke -> getFuncallString -> str(arg))
# ---------------------------------------------------------------------------
# 1a object with a _str_ member
ok, res = both(
    "def o = <*_str_ = fn(self) 'o'*>; def f(x) error 42; "
    "do f(o) catch 42 'caught42' end",
    ("OK", "'caught42'"))
report("1a", ok, "error 42 raised in f(o), o an object with a _str_ member, "
       "must reach `catch 42` (host TypeError escapes instead)", res)

# 1b integer with more than 4300 digits
ok, res = both(
    "def b = 1; for i in range(5000) do b = b * 10 end; def f(x) error 42; "
    "do f(b) catch 42 'caught42' end",
    ("OK", "'caught42'"))
report("1b", ok, "error 42 raised in f(b), b an int of 5001 digits, must reach "
       "`catch 42` (host ValueError escapes instead)", res)

# 1c deeply nested (not cyclic) list: innermost catch all is skipped
ok, res = both(
    "def l = []; for i in range(3000) do l = [l] end; def f(x) error 42; "
    "def g() do f(l) catch 42 'inner42' catch all 'inner-all' end; "
    "do g() catch all 'outer-all' end",
    ("OK", "'inner42'"))
report("1c", ok, "error 42 raised in f(l), l a 3000-deep list, must reach the "
       "innermost `catch 42` (it skips it and its `catch all`, arriving as "
       "'ERROR' at an outer handler)", res)

# 1d same with a self-containing list, uncaught: value must stay 42
ok, res = both(
    "def l = []; append(l, l); def f(x) error 42; f(l)",
    ("RTE", "42"))
report("1d", ok, "uncaught error 42 raised in f(l), l containing itself, must "
       "leave the interpreter carrying 42 (carries 'ERROR')", res)

# ---------------------------------------------------------------------------
# 2. for-loop over an input object rewrites every error raised in its body
# ---------------------------------------------------------------------------
ok, res = both(
    "require IO; do for line in IO->str_input('a\\nb') do error 7 end "
    "catch 7 'caught7' end",
    ("OK", "'caught7'"))
report("2a", ok, "error 7 raised in the body of `for line in <input>` must "
       "reach `catch 7` (arrives as 'ERROR' Cannot read from input)", res)

ok, res = both(
    "require IO; for line in IO->str_input('a\\nb') do error [line] end",
    ("RTE", "['a']"))
report("2b", ok, "uncaught error ['a'] raised in the body of `for line in "
       "<input>` must leave the interpreter carrying ['a']", res)

# ---------------------------------------------------------------------------
# 3. eval(<string>) rewrites every error raised by the evaluated code
#    (eval(<node>) does not) -- doubtful
# ---------------------------------------------------------------------------
ok, res = both("do eval('error 7') catch 7 'caught7' end", ("OK", "'caught7'"))
ok2, res2 = both("do eval(parse('error 7')) catch 7 'caught7' end",
                 ("OK", "'caught7'"))
report("3", ok, "error 7 raised by code run through eval('...') must reach "
       "`catch 7` (arrives as 'ERROR' Cannot evaluate expression; through "
       f"eval(parse('...')) it {'does' if ok2 else 'does not'} arrive) "
       "[doubtful]", res)

# ---------------------------------------------------------------------------
# 4. return / break / continue in a finally part are silently dropped -- doubtful
# ---------------------------------------------------------------------------
ok, res = both("def f() do 1 finally return 2 end; f()", ("OK", "2"))
ok2, res2 = both(
    "def n = 0; for x in [1, 2, 3] do do n += 1 finally break end end; n",
    ("OK", "1"))
report("4", ok and ok2, "`return 2` / `break` inside a finally part take "
       "effect (they are evaluated and silently ignored) [doubtful]",
       res + res2)

# ---------------------------------------------------------------------------
# 5. host exceptions out of built-ins are not runtime errors: catch all is
#    bypassed and a non-ckl exception leaves the interpreter
# ---------------------------------------------------------------------------
cases5 = [
    "do bit_shift_left(-1, 1180591620717411303424) catch all 'caught' end",
    "do new(NULL) catch all 'caught' end",
    "do string(<*_str_ = fn(self) 'o'*>) catch all 'caught' end",
]
bad5 = []
for src in cases5:
    r = run(src, legacy=True, limit=8)
    if r[0] == "PYEXC" and r[1] != "Hang":
        bad5.append((src, r[1]))
report("5", not bad5, "runtime failures inside built-ins must be caught by "
       "`catch all` (host exceptions escape)", bad5)

# ---------------------------------------------------------------------------
# 6. syntax error in a required module passes through catch all -- doubtful
# ---------------------------------------------------------------------------
with tempfile.TemporaryDirectory() as d:
    with open(os.path.join(d, "Synmod.ckl"), "w") as fh:
        fh.write("def x = (")
    ok, res = both(
        f"def checkerlang_module_path = ['{d}']; "
        "do require Synmod catch all 'caught' end",
        ("OK", "'caught'"))
report("6", ok, "a module that fails to parse at `require` time is caught by "
       "`catch all` (a CklSyntaxError leaves the interpreter) [doubtful]", res)

# ---------------------------------------------------------------------------
# 7. finally part under stack exhaustion -- doubtful
# ---------------------------------------------------------------------------
ok, res = both(
    "def a = 0; def b = []; "
    "def f(n) do a += 1; f(n + 1) finally append(b, string(n) + 'x') end; "
    "do f(0) catch all 'rec' end; a == length(b)",
    ("OK", "TRUE"))
report("7", ok, "with endless recursion every entered block's finally part "
       "completes (the deepest one fails itself, entered != completed) "
       "[doubtful]", res)
