"""Reproductions for the fourth C20 hunt (reported source lines).

Run with:
  cd /tmp/seed6/C20 && PYTHONPATH=/tmp/seed6/C20/src /venv/bin/python hunt/repro.py

Prints one line per finding:  FINDING <n>: <VIOLATES|HOLDS> <description>
and, after them, RECHECK lines for the items of the third report.
Only the ckl package and the standard library are used.
"""
import os
import shutil
import signal
import sys
import tempfile

sys.path.insert(0, os.path.join(os.path.dirname(os.path.abspath(__file__)),
                                "..", "src"))

from ckl.interpreter import Interpreter  # noqa: E402
from ckl.errors import CklRuntimeError, CklSyntaxError  # noqa: E402


class Timeout(Exception):
    pass


def _alarm(*_):
    raise Timeout()


signal.signal(signal.SIGALRM, _alarm)


def run(src, legacy=True, name="t.ckl", it=None):
    """returns (kind, msg, pos-object-or-None, stacktrace)"""
    signal.alarm(10)
    try:
        if it is None:
            it = Interpreter(secure=False, legacy=legacy)
        it.interpret(src, name)
        return ("OK", "", None, [])
    except CklRuntimeError as e:
        try:
            msg = str(e.msg)
        except BaseException:  # noqa
            msg = "<unprintable>"
        return ("RT", msg, e.pos, list(e.stacktrace))
    except CklSyntaxError as e:
        return ("SY", str(e.msg), e.pos, [])
    except Timeout:
        return ("TIMEOUT", "", None, [])
    except BaseException as e:  # noqa
        return ("PY", type(e).__name__ + ": " + str(e), None, [])
    finally:
        signal.alarm(0)


def line_of(r):
    return None if r[2] is None else r[2].line


def report(n, violates, desc):
    print(f"FINDING {n}: {'VIOLATES' if violates else 'HOLDS'} {desc}")


def both(fn):
    return any(fn(legacy) for legacy in (True, False))


def nested(k, fn):
    """call fn with k more host stack frames below it"""
    if k == 0:
        return fn()
    return nested(k - 1, fn)


# ---------------------------------------------------------------- finding 1
# (item 1c of the third report, still open) infinite recursion: the line of
# "Maximum recursion depth exceeded" depends on how deep the host stack was
# when interpret() was called; in a function over several lines it is never
# the line of the recursive call.
def f1_lines(src, legacy):
    lines = set()
    for k in range(16):
        r = nested(k, lambda: run(src, legacy))
        if r[0] == "RT" and "recursion" in r[1]:
            lines.add(line_of(r))
    return lines


def f1a(legacy):
    # recursive call on line 4
    src = "def f(x) do\n 1;\n 2;\n f(x)\n end;\n\nf(1)"
    return len(f1_lines(src, legacy)) > 1


def f1b(legacy):
    # recursive call `f(` on line 6
    src = ("def g(a) a;\ndef f(x) do\n def y = g(\n   x);\n if y > 0 then\n"
           "  f(\n   y + 1)\n else 0\n end;\n\nf(1)")
    lines = f1_lines(src, legacy)
    return len(lines) > 1 or lines != {6}


report(1, both(f1a) or both(f1b),
       "infinite recursion: the reported line varies with the host stack "
       "depth at the time of interpret() (line 4 or line 2 for one program) "
       "and, in a function over several lines, is never the line of the "
       f"recursive call [a={both(f1a)} b={both(f1b)}]")


# ---------------------------------------------------------------- finding 2
# an error raised without a position (rendering hook bound to a built-in)
# by a node that has no position handling of its own: spread of a set in a
# list literal / in a call, a default value
def f2_pre(legacy):
    sq = "sqrt" if legacy else "Math->sqrt"
    return (("" if legacy else "require Math; ")
            + f"def o1 = <*_str_ = {sq}, a = 1*>; "
            + f"def o2 = <*_str_ = {sq}, a = 2*>; "
            + "def st = <<o1, o2>>; def f(a...) a;\n")


def f2a(legacy):
    # the spread that orders the set is on line 5, the list begins on line 3
    r = run(f2_pre(legacy) + "def r =\n[1,\n2,\n...st\n]", legacy)
    return r[0] == "RT" and line_of(r) not in (3, 5)


def f2b(legacy):
    # default value on line 3; reported at the call g(1) on line 7
    r = run(f2_pre(legacy) + "def g(x,\n y = [...st]\n) x;\n\n\ng(1)", legacy)
    return (r[0] == "RT" and line_of(r) == 7
            and not any(":3:" in s for s in r[3]))


def f2c(legacy):
    # in an if over several lines
    r = run(f2_pre(legacy) + "if TRUE then\n\n [...st]\nelse 2", legacy)
    return r[0] == "RT" and line_of(r) != 4


report(2, both(f2a) or both(f2b) or both(f2c),
       "a position-less error (built-in bound to _str_) raised while a set "
       "is spread in a list literal / call or in a default value gets the "
       "first line of the enclosing statement; for a default value the line "
       "of the CALLER's statement "
       f"[a={both(f2a)} b={both(f2b)} c={both(f2c)}]")


# ---------------------------------------------------------------- finding 3
# host stack exhausted while a node hashes a deep value (set literal, `in`):
# first line of the enclosing statement / the caller / no position at all
DEEP = "def d = []; for i in range(3000) do d = [d] end; def f(a...) a;\n"


def f3a(legacy):
    # the set literal begins on line 5
    r = run(DEEP + "def r = [\n1,\n2,\n<<d>>\n]", legacy)
    return r[0] == "RT" and "recursion" in r[1] and line_of(r) != 5


def f3b(legacy):
    r = run(DEEP + "if TRUE then\n\n d in <<1>>\nelse 2", legacy)
    return r[0] == "RT" and "recursion" in r[1] and line_of(r) != 4


def f3c(legacy):
    # default value on line 3, reported at the call on line 7, empty trace
    r = run(DEEP + "def g(x,\n y = <<d>>\n) x;\n\n\ng(1)", legacy)
    return (r[0] == "RT" and "recursion" in r[1] and line_of(r) == 7
            and not any(":3:" in s for s in r[3]))


def f3d(legacy):
    # the statement as a script of its own on a long-lived interpreter
    it = Interpreter(secure=False, legacy=legacy)
    run(DEEP + "1", legacy, "a.ckl", it)
    r = run("\n\ndef x = <<d>>", legacy, "b.ckl", it)
    return r[0] == "RT" and "recursion" in r[1] and r[2] is None


report(3, both(f3a) or both(f3b) or both(f3c) or both(f3d),
       "'Maximum recursion depth exceeded' raised while a set literal / `in` "
       "hashes a deep value: first line of the enclosing statement, the "
       "caller's line for a default value (empty stack trace), no position "
       "at all when the statement is the whole script "
       f"[a={both(f3a)} b={both(f3b)} c={both(f3c)} d={both(f3d)}]")


# ------------------------------------------------ re-check of the third report
CHAIN = " + ".join(["1"] * 600)


def r1(legacy):
    ok = True
    r = run("def a = 1;\ndef b = 2;\n\n\ndef c = " + CHAIN + ";\nc", legacy)
    ok = ok and line_of(r) == 5
    r = run("def f(x) do\n 1;\n 2;\n 1 + f(x + 1)\n end;\n\nf(1)", legacy)
    ok = ok and line_of(r) == 4
    r = run("def g(a) a;\ndef f(x)\n\n g(" + CHAIN + ");\n\n\n\nf(1)", legacy)
    ok = ok and line_of(r) == 4
    return ok


def r2(legacy):
    d = tempfile.mkdtemp()
    try:
        with open(os.path.join(d, "modbad.ckl"), "w") as f:
            f.write("def a = 1;\n\ndef b = = 2;\n")
        pre = f"def checkerlang_module_path = ['{d}'];\n"
        pre += ("def inp = str_input('a\\nb');\n" if legacy else
                "require IO; def inp = IO->str_input('a\\nb');\n")
        r = run(pre + "for line in inp do\n  1;\n  require modbad;\nend",
                legacy)
        return (r[0] == "SY" and r[2] is not None
                and r[2].filename == "mod:modbad" and r[2].line == 3)
    finally:
        shutil.rmtree(d, ignore_errors=True)


def r3(legacy):
    sq = "sqrt" if legacy else "Math->sqrt"
    pre = (("" if legacy else "require Math; ")
           + f"def o = <*_str_ = {sq}*>;\ndef m = <<<1 => 2>>>;\n1;\n")
    r = run(pre + "if TRUE then\n\n m[o]\nelse 3", legacy)
    return r[0] == "RT" and line_of(r) == 6


for n, fn, desc in [
    ("third/1a,1b,1d", r1, "too-deep statement / recursive call / too-deep "
     "argument are reported at their own line"),
    ("third/2", r2, "syntax error of a module required in a for loop over "
     "an input keeps module name and line"),
    ("third/3", r3, "m[o] with a position-less rendering error on a later "
     "line of a multi-line if is reported at its own line"),
]:
    ok = all(fn(legacy) for legacy in (True, False))
    print(f"RECHECK {n}: {'HOLDS' if ok else 'STILL FAILS'} {desc}")
print("RECHECK third/1c: see FINDING 1")
