"""Purely syntactic program generator (token lists) for C01 / C20.

Follows the grammar of the language as described by its parser's structure
(statements, blocks with catch/finally, every expression level, every literal
and comprehension form, every `require` form, classes, objects).  No typing:
the programs only need to be grammatical.  Output is a list of token texts;
`join_tokens` renders them with single spaces.
"""

KEYWORDS = [
    "if", "then", "elif", "else", "and", "or", "not", "is", "in", "def", "fn",
    "for", "while", "do", "end", "finally", "catch", "break", "continue",
    "return", "error", "require", "as", "also",
]
OPERATORS = [
    "+", "-", "*", "/", "%", "==", "<>", "!=", "<", "<=", ">", ">=", "=",
    "+=", "-=", "*=", "/=", "%=", "!>", "->",
]
INTERPUNCTION = [
    "(", ")", "[", "]", ",", ";", "<<", ">>", "<<<", ">>>", "<*", "*>", "=>",
    "...",
]
CONTEXTUAL = [
    "class", "all", "keys", "values", "entries", "to", "import", "unqualified",
    "empty", "zero", "negative", "numerical", "alphanumerical", "min_len",
    "max_len", "exact_len", "date", "with", "hour", "time", "string", "int",
    "decimal", "boolean", "pattern", "None", "func", "input", "output",
    "list", "set", "map", "object", "node", "starts", "ends", "contains",
    "matches", "x...", "checkerlang_x", "checkerlang_secure_mode",
]
GOOD_LITERALS = [
    "0", "1", "42", "007", "0x1F", "0xff", "0b101", "1_000", "0x_f", "0b1_0",
    "1.5", "1.", "0.25", "1_0.5_0", "'a'", "\"b\"", "''", "'\\x41'",
    "\"\\x4a\"", "'\\n\\t\\\\'", "'it\\'s'", "TRUE", "FALSE", "NULL",
    "//a+//", "//[a-z]*//", "'a b'",
]
BAD_LITERALS = [
    "0x", "0b", "0b2", "0xZ", "0x_", "0b_", "1.2.3", "1e5", "'\\xZZ'",
    "'\\x4'", "\"\\xG1\"", "'\\x", "'unterminated", "\"unterminated",
    "//unterminated", "//[//", "//(//", "//*//", "//a{2,1}//", "'\\",
    "0x1G", "09", "1__0", "'\\x4", "//(?P<n>a)(?P<n>b)//", "//\\//",
    "//a{99999999999999999999}//", "//a{1,99999999999}//", "//(?<=a+)b//",
    "//[z-a]//", "//\\1//", "//(?i//", "//a**//", "//\\p//",
]
IDENTS = ["a", "b", "c", "f", "g", "x", "y", "lst", "m", "obj"]

TOKEN_ALPHABET = (KEYWORDS + OPERATORS + INTERPUNCTION + CONTEXTUAL
                  + GOOD_LITERALS + BAD_LITERALS + IDENTS)

PREDICATES = [
    ["empty"], ["zero"], ["negative"], ["numerical"], ["alphanumerical"],
    ["numerical", "min_len", "1"], ["numerical", "max_len", "3"],
    ["alphanumerical", "exact_len", "2"],
    ["numerical", "min_len", "1", "max_len", "4"],
    ["date", "with", "hour"], ["date"], ["time"], ["string"], ["int"],
    ["decimal"], ["boolean"], ["pattern"], ["None"], ["func"], ["input"],
    ["output"], ["list"], ["set"], ["map"], ["object"], ["node"],
]
WHATS = [[], [], ["keys"], ["values"], ["entries"]]


class SynGen:
    def __init__(self, ch, max_depth=4, malformed_literals=False):
        self.ch = ch
        self.max_depth = max_depth

    # ---------------------------------------------------------------- helpers
    def ident(self):
        return self.ch.choice(IDENTS)

    def literal(self):
        return self.ch.choice(GOOD_LITERALS[:-3] + ["'a b'"]
                              if False else GOOD_LITERALS)

    # ------------------------------------------------------------- statements
    def script(self, n=None):
        n = n if n is not None else self.ch.int(1, 4)
        out = []
        for i in range(n):
            if i:
                out.append(";")
            out += self.stmt(0, top=True)
        if self.ch.bool(0.2):
            out.append(";")
        return out

    def stmts(self, d, lo=1, hi=3):
        out = []
        n = self.ch.int(lo, hi)
        for i in range(n):
            if i:
                out.append(";")
            out += self.stmt(d)
        if n and self.ch.bool(0.3):
            out.append(";")
        return out

    def stmt(self, d, top=False):
        ch = self.ch
        if d >= self.max_depth:
            return self.expr(d)
        k = ch.weighted([
            (6, "expr"), (3, "def"), (2, "deffn"), (1, "defdes"), (1, "class"),
            (2, "for"), (1, "while"), (2, "require"), (1, "block"),
            (1, "commentdef"),
        ])
        if k == "expr":
            return self.expr(d)
        if k == "def":
            return ["def", self.ident(), "="] + self.expr(d + 1)
        if k == "commentdef":
            return ["'doc'", "def", self.ident(), "="] + self.expr(d + 1)
        if k == "deffn":
            return ["def", self.ident()] + self.fn_tail(d + 1)
        if k == "defdes":
            ids = [self.ident() for _ in range(ch.int(1, 3))]
            return (["def", "["] + _commas(ids) + ["]", "="]
                    + self.expr(d + 1))
        if k == "class":
            out = ["def", "class", self.ident(), "do"]
            for _ in range(ch.int(0, 3)):
                if ch.bool():
                    out += ["def", self.ident()] + self.fn_tail(d + 1)
                else:
                    out += ["def", self.ident(), "="] + self.expr(d + 1)
                if ch.bool(0.8):
                    out.append(";")
            return out + ["end"]
        if k == "for":
            if ch.bool(0.25):
                var = ["["] + _commas([self.ident(), self.ident()]) + ["]"]
            else:
                var = [self.ident()]
            out = ["for"] + var + ["in"] + ch.choice(WHATS) + self.expr(d + 1)
            if ch.bool(0.7):
                return out + self.block(d + 1)
            return out + self.expr(d + 1)
        if k == "while":
            return ["while"] + self.orexpr(d + 1) + self.block(d + 1)
        if k == "require":
            spec = ch.choice([["Math"], ["List"], ["'sub/mod'"], ["'x.ckl'"],
                              [self.ident()]])
            form = ch.int(0, 3)
            if form == 0:
                return ["require"] + spec
            if form == 1:
                return ["require"] + spec + ["unqualified"]
            if form == 2:
                return ["require"] + spec + ["as", self.ident()]
            items = []
            for i in range(ch.int(0, 3)):
                if i:
                    items.append(",")
                items.append(self.ident())
                if ch.bool():
                    items += ["as", self.ident()]
            return ["require"] + spec + ["import", "["] + items + ["]"]
        return self.block(d + 1)

    def block(self, d):
        ch = self.ch
        out = ["do"] + self.stmts(d, 1, 3)
        for _ in range(ch.weighted([(6, 0), (3, 1), (1, 2)])):
            out.append("catch")
            if ch.bool(0.4):
                out.append("all")
            else:
                out += self.orexpr(d + 1)
            if ch.bool():
                out += self.block(d + 1)
            else:
                out += self.stmt(d + 1)
            if ch.bool(0.6):
                out.append(";")
        if ch.bool(0.25):
            out += ["finally"] + self.stmts(d, 1, 2)
        return out + ["end"]

    # ------------------------------------------------------------ expressions
    def expr(self, d):
        ch = self.ch
        if d < self.max_depth and ch.bool(0.12):
            out = []
            for i in range(ch.int(1, 3)):
                out += ["if" if i == 0 else ch.choice(["elif", "if"])]
                out += self.orexpr(d + 1) + ["then"]
                out += self.block(d + 1) if ch.bool(0.3) \
                    else self.orexpr(d + 1)
            if ch.bool():
                out += ["else"]
                out += self.block(d + 1) if ch.bool(0.3) \
                    else self.orexpr(d + 1)
            return out
        return self.orexpr(d)

    def orexpr(self, d):
        out = self.andexpr(d)
        while d < self.max_depth and self.ch.bool(0.12):
            out += ["or"] + self.andexpr(d + 1)
        return out

    def andexpr(self, d):
        out = self.notexpr(d)
        while d < self.max_depth and self.ch.bool(0.12):
            out += ["and"] + self.notexpr(d + 1)
        return out

    def notexpr(self, d):
        if self.ch.bool(0.08):
            return ["not"] + self.relexpr(d + 1)
        return self.relexpr(d)

    def relexpr(self, d):
        out = self.addexpr(d)
        n = 0
        while d < self.max_depth and n < 3 and self.ch.bool(0.15):
            n += 1
            op = self.ch.choice(["==", "!=", "<>", "<", "<=", ">", ">=", "is",
                                 ["is", "not"]])
            out += (op if isinstance(op, list) else [op]) \
                + self.addexpr(d + 1)
        return out

    def addexpr(self, d):
        out = self.mulexpr(d)
        while d < self.max_depth and self.ch.bool(0.2):
            out += [self.ch.choice(["+", "-"])] + self.mulexpr(d + 1)
        return out

    def mulexpr(self, d):
        out = self.unary(d)
        while d < self.max_depth and self.ch.bool(0.15):
            out += [self.ch.choice(["*", "/", "%"])] + self.unary(d + 1)
        return out

    def unary(self, d):
        k = self.ch.weighted([(10, ""), (2, "-"), (1, "+")])
        if k:
            return [k] + self.pred(d + 1)
        return self.pred(d)

    def pred(self, d):
        ch = self.ch
        out = self.primary(d)
        if d >= self.max_depth or not ch.bool(0.2):
            return out
        k = ch.int(0, 9)
        if k == 0:
            return out + ["is"] + ch.choice(PREDICATES)
        if k == 1:
            return out + ["is", "not"] + ch.choice(PREDICATES)
        if k == 2:
            return out + ch.choice([["in"], ["not", "in"], ["is", "in"],
                                    ["is", "not", "in"]]) \
                + self.primary(d + 1)
        if k == 3:
            return out + ch.choice([["starts", "with"],
                                    ["starts", "not", "with"],
                                    ["ends", "with"], ["ends", "not", "with"],
                                    ["contains"], ["contains", "not"],
                                    ["matches"], ["matches", "not"]]) \
                + self.primary(d + 1)
        return out

    def args(self, d):
        ch = self.ch
        out = []
        for i in range(ch.int(0, 3)):
            if i:
                out.append(",")
            k = ch.int(0, 5)
            if k == 0:
                out += [self.ident(), "="] + self.expr(d + 1)
            elif k == 1:
                out += ["...", self.ident()]
            elif k == 2:
                out += ["..."] + self.listlit(d + 1, plain=True)
            else:
                out += self.expr(d + 1)
        return out

    def fn_tail(self, d):
        ch = self.ch
        params = []
        n = ch.int(0, 3)
        for i in range(n):
            if i:
                params.append(",")
            name = self.ident()
            if i == n - 1 and ch.bool(0.25):
                name += "..."
            params.append(name)
            if ch.bool(0.3):
                params += ["="] + self.expr(d + 1)
        body = self.block(d + 1) if ch.bool(0.4) else self.expr(d + 1)
        return ["("] + params + [")"] + body

    def postfix(self, out, d, call=True):
        ch = self.ch
        n = 0
        while d < self.max_depth and n < 3 and ch.bool(0.25):
            n += 1
            k = ch.int(0, 9 if call else 7)
            if k == 0:
                out = out + ["!>", self.ident(), "("] + self.args(d + 1) + [")"]
            elif k == 1:
                out = out + ["!>", "(", "fn"] + self.fn_tail(d + 1) + [")", "("] \
                    + self.args(d + 1) + [")"]
            elif k == 2:
                out = out + ["[", *self.expr(d + 1), "]"]
            elif k == 3:
                out = out + ["[", *self.expr(d + 1), ",", *self.expr(d + 1), "]"]
            elif k == 4:
                end = ["*"] if ch.bool(0.3) else self.expr(d + 1)
                out = out + ["[", *self.expr(d + 1), "to", *end, "]"]
            elif k == 5:
                out = out + ["->", self.ident()]
            elif k == 6:
                out = out + ["->", self.ident(), "("] + self.args(d + 1) + [")"]
            elif k == 7:
                asg = ch.choice(["=", "+=", "-=", "*=", "/=", "%="])
                if ch.bool():
                    out = out + ["[", *self.expr(d + 1), "]", asg] \
                        + self.expr(d + 1)
                else:
                    out = out + ["->", self.ident(), asg] + self.expr(d + 1)
                return out
            else:
                out = out + ["("] + self.args(d + 1) + [")"]
        return out

    def compr_tail(self, d):
        ch = self.ch
        out = ["for", self.ident(), "in"] + ch.choice(WHATS) \
            + self.orexpr(d + 1)
        k = ch.int(0, 3)
        if k == 1:
            out += ["for", self.ident(), "in"] + ch.choice(WHATS) \
                + self.orexpr(d + 1)
        elif k == 2:
            out += ["also", "for", self.ident(), "in"] + ch.choice(WHATS) \
                + self.orexpr(d + 1)
        if ch.bool(0.4):
            out += ["if"] + self.orexpr(d + 1)
        return out

    def listlit(self, d, plain=False):
        ch = self.ch
        if not plain and d < self.max_depth and ch.bool(0.3):
            return ["["] + self.expr(d + 1) + self.compr_tail(d + 1) + ["]"]
        items = []
        n = ch.int(0, 3)
        for i in range(n):
            if i:
                items.append(",")
            if not plain and ch.bool(0.1):
                items += ["...", self.ident()]
            else:
                items += self.expr(d + 1)
        if n and ch.bool(0.1):
            items.append(",")
        return ["["] + items + ["]"]

    def primary(self, d):
        ch = self.ch
        if d >= self.max_depth:
            return [ch.choice([self.ident(), self.literal()])]
        k = ch.weighted([
            (8, "id"), (8, "lit"), (3, "paren"), (2, "assign"), (3, "call"),
            (2, "fn"), (1, "break"), (1, "continue"), (2, "return"),
            (1, "error"), (1, "block"), (3, "list"), (2, "set"), (2, "map"),
            (1, "object"), (1, "destr"),
        ])
        if k == "id":
            return self.postfix([self.ident()], d)
        if k == "lit":
            lit = self.literal()
            call = lit[0] in "'\""
            out = [lit]
            if call:
                return self.postfix(out, d, call=False)
            if ch.bool(0.1):
                out += ["!>", self.ident(), "("] + self.args(d + 1) + [")"]
            return out
        if k == "paren":
            inner = self.stmts(d + 1, 1, 2) if ch.bool(0.2) \
                else self.expr(d + 1)
            return self.postfix(["("] + inner + [")"], d)
        if k == "assign":
            op = ch.choice(["=", "+=", "-=", "*=", "/=", "%="])
            return [self.ident(), op] + self.expr(d + 1)
        if k == "call":
            return self.postfix(
                [self.ident(), "("] + self.args(d + 1) + [")"], d)
        if k == "fn":
            return ["fn"] + self.fn_tail(d + 1)
        if k == "break":
            return ["break"]
        if k == "continue":
            return ["continue"]
        if k == "return":
            if ch.bool(0.2):
                return ["(", "return", ";", ")"] if False else ["return"] \
                    + self.expr(d + 1)
            return ["return"] + self.expr(d + 1)
        if k == "error":
            return ["error"] + self.expr(d + 1)
        if k == "block":
            return self.block(d + 1)
        if k == "list":
            return self.postfix(self.listlit(d), d, call=False)
        if k == "destr":
            ids = [self.ident() for _ in range(ch.int(1, 3))]
            return ["["] + _commas(ids) + ["]", "="] + self.expr(d + 1)
        if k == "set":
            if ch.bool(0.3):
                return ["<<"] + self.expr(d + 1) + self.compr_tail(d + 1) \
                    + [">>"]
            items = []
            for i in range(ch.int(0, 3)):
                if i:
                    items.append(",")
                items += self.expr(d + 1)
            return self.postfix(["<<"] + items + [">>"], d, call=False)
        if k == "map":
            if ch.bool(0.3):
                return ["<<<"] + self.expr(d + 1) + ["=>"] \
                    + self.expr(d + 1) \
                    + ["for", self.ident(), "in"] + ch.choice(WHATS) \
                    + self.orexpr(d + 1) \
                    + (["if"] + self.orexpr(d + 1) if ch.bool(0.3) else []) \
                    + [">>>"]
            items = []
            for i in range(ch.int(0, 3)):
                if i:
                    items.append(",")
                items += self.expr(d + 1) + ["=>"] + self.expr(d + 1)
            return self.postfix(["<<<"] + items + [">>>"], d, call=False)
        # object
        items = []
        for i in range(ch.int(0, 3)):
            if i:
                items.append(",")
            if ch.bool(0.3):
                items += [self.ident()] + self.fn_tail(d + 1)
            else:
                items += [self.ident(), "="] + self.expr(d + 1)
        return self.postfix(["<*"] + items + ["*>"], d, call=False)


def _commas(items):
    out = []
    for i, it in enumerate(items):
        if i:
            out.append(",")
        out.append(it)
    return out


def join_tokens(tokens, sep=" "):
    return sep.join(tokens)


NEST_OPEN = {"(", "[", "<<", "<<<", "<*", "do", "fn", "if", "for", "while",
             "def", "not", "-", "+", "error", "return"}


def nesting_bound(tokens):
    """Crude upper bound on the nesting depth a token list can cause: the
    number of tokens that can open a nested construct."""
    return sum(1 for t in tokens if t in NEST_OPEN)
