import sys, math, itertools, collections, re
from hypothesis import given, settings, strategies as st, seed, HealthCheck
from ckl.interpreter import Interpreter
from ckl.functions import get_none_environment
from ckl.errors import *
from ckl.values import *
it = Interpreter(False, True)
def rstr(s):
    return "'" + s.replace("\\","\\\\").replace("'","\\'").replace("\r","\\r").replace("\n","\\n").replace("\t","\\t") + "'"
def ev(src):
    return it.interpret(src, "t", get_none_environment())
def py(v):
    if v.isString(): return v.value
    if v.isInt() : return v.value
    if v.isDecimal(): return float(v.value)
    if v.isBoolean(): return v.value
    if v.isNull(): return None
    if v.isList(): return [py(x) for x in v.value]
    if v.isSet(): return frozenset(py(x) for x in v.value)
    raise Exception("conv " + v.type())
buckets = collections.Counter(); ex = {}
def note(k, e):
    buckets[k]+=1
    if k not in ex or len(e) < len(ex[k]): ex[k]=e
def chk(name, src, expect):
    try:
        got = py(ev(src))
    except Exception as e:
        note((name, "raises", type(e).__name__, str(getattr(e,'msg',e))[:40]), src); return
    if got != expect: note((name, "mismatch"), "%s -> %r expected %r" % (src, got, expect))
ALPHA = list(" ,|.*+?()[]^$\\'\"\t\n{}aAbé")
strs = st.lists(st.sampled_from(ALPHA), max_size=8).map("".join)
seps = st.lists(st.sampled_from(ALPHA), min_size=1, max_size=2).map("".join)
N=[0]
@seed(2)
@settings(max_examples=3000, deadline=None, database=None, suppress_health_check=list(HealthCheck))
@given(strs, seps, strs)
def t(s, sep, b):
    N[0]+=1
    S, P, B = rstr(s), rstr(sep), rstr(b)
    chk("join-split", "join(split(%s, escape_pattern(%s)), %s)" % (S,P,P), s)
    if s != "": chk("split", "split(%s, escape_pattern(%s))" % (S,P), s.split(sep))
    chk("replace", "replace(%s, %s, %s)" % (S,P,B), s.replace(sep, b))
    chk("contains", "contains(%s, %s)" % (S,P), sep in s)
    chk("in", "%s in %s" % (P,S), sep in s)
    chk("find", "find(%s, %s)" % (S,P), s.find(sep))
    chk("find_last", "find_last(%s, %s)" % (S,P), s.rfind(sep))
    chk("starts", "starts_with(%s, %s)" % (S,P), s.startswith(sep))
    chk("ends", "ends_with(%s, %s)" % (S,P), s.endswith(sep))
    chk("reverse2", "reverse_string(reverse_string(%s))" % S, s)
    chk("reverse", "reverse_string(%s)" % S, s[::-1])
    chk("upper", "upper(%s)" % S, s.upper()); chk("lower", "lower(%s)" % S, s.lower()); chk("trim", "trim(%s)" % S, s.strip())
    chk("len", "length(%s + %s)" % (S,B), len(s)+len(b))
    chk("concat", "%s + %s" % (S,B), s+b)
    chk("s-plain", "def v = %s; s('<{v}>')" % B, "<" + b + ">")
    chk("s-text", "s(%s)" % rstr(s.replace("{","(").replace("}",")")), s.replace("{","(").replace("}",")"))
    chk("sprintf", "sprintf('{0}|{1}', %s, 7)" % B, b + "|7")
    chk("count", "count(%s, %s)" % (S, rstr(sep[0])), s.count(sep[0]))
    chk("chunks", "chunks(%s, 3)" % S, [s[i:i+3] for i in range(0, len(s), 3)] if s else [""])
    for c in s[:2]:
        chk("chrord", "chr(ord(%s))" % rstr(c), c)
t()
print(N[0], "cases")
for k,c in sorted(buckets.items(), key=lambda x:-x[1]): print(c, k, repr(ex[k])[:220])
