"""C15  Indexing, slicing and sub-sequence functions follow the sequence model."""
import itertools

from vf.core import Finding
from vf.gen.chooser import TapeChooser, tapes
from vf import cklrun
from vf.model import values as mv

PROPERTY = "C15"
RULE = (
    "Exhaustive: all strings over {a,b,c} and lists over {1,2,3} up to a "
    "length bound (quick 4, thorough 6) x all index arguments in [-9, 9] for "
    "s[i], s[a to b], s[a to *], substr/sublist with 1 and 2 bounds, "
    "find/find_last for every part of length <= 2 (without and with a "
    "start in [-3, n+2]), insert_at, delete_at, element assignment, and the "
    "identities s[0 to k] + s[k to *] == s, length(a + b) == length(a) + "
    "length(b); plus Hypothesis-generated longer sequences and indices up to "
    "+-10^6. Oracle: a sequence model written from the statement (normalise "
    "negative positions, out-of-range element access is a runtime error, "
    "slices clamp to [0, n] and never wrap). Non-trivial = a call with a "
    "position < 0, >= n, or crossing bounds."
)
ASSUMPTIONS = [
    "find/find_last: parts are non-empty; an explicit start is the position "
    "to search from / back from (documented); starts in [-3, n+2] are "
    "judged: a start outside [0, n) names no position and never wraps around "
    "(find searches from 0, find_last finds nothing before the beginning)",
    "insert_at follows its documentation: index -1 appends, -(n+1) prepends",
    "element assignment stores one character into a string position",
]

IDX = list(range(-9, 10))
ERR = ("err",)


# ------------------------------------------------------------------ the model

def norm(i, n):
    return i + n if i < 0 else i


def m_index(s, i):
    j = norm(i, len(s))
    if 0 <= j < len(s):
        return ("ok", s[j] if isinstance(s, str) else s[j])
    return ERR


def m_slice(s, a, b=None):
    n = len(s)
    a = min(max(norm(a, n), 0), n)
    b = n if b is None else min(max(norm(b, n), 0), n)
    return ("ok", s[a:b] if a < b else s[:0])


def m_find(s, part, start=0):
    n = len(s)
    if isinstance(s, str):
        return ("ok", s.find(part, max(start, 0)))
    for i in range(max(start, 0), n):
        if mv.meq(s[i], part):
            return ("ok", i)
    return ("ok", -1)


def m_find_last(s, part, start=None):
    n = len(s)
    if start is None:
        start = n - 1
    if isinstance(s, str):
        best = -1
        for i in range(0, min(start, n - len(part)) + 1):
            if s[i:i + len(part)] == part:
                best = i
        return ("ok", best)
    for i in range(min(start, n - 1), -1, -1):
        if mv.meq(s[i], part):
            return ("ok", i)
    return ("ok", -1)


def m_insert_at(lst, i, x):
    n = len(lst)
    j = i if i >= 0 else n + i + 1
    if 0 <= j <= n:
        return ("ok", lst[:j] + [x] + lst[j:])
    return ("ok", list(lst))


def m_delete_at(lst, i):
    n = len(lst)
    j = norm(i, n)
    if 0 <= j < n:
        return ("ok", [lst[j], lst[:j] + lst[j + 1:]])
    return ("ok", [None, list(lst)])


def m_assign(s, i, x):
    n = len(s)
    j = norm(i, n)
    if 0 <= j < n:
        if isinstance(s, str):
            return ("ok", s[:j] + x + s[j + 1:])
        return ("ok", s[:j] + [x] + s[j + 1:])
    return ERR


# --------------------------------------------------------------- expressions

def lit(s):
    return mv.literal(s)


def fresh(s):
    """An expression yielding a new object equal to s (string literals are
    shared objects inside one parsed program)."""
    return f"('' + {lit(s)})" if isinstance(s, str) else lit(s)


def ops_for(s, indices, parts_, full=True):
    """Yield (label, expression, expected, nontrivial)."""
    n = len(s)
    is_str = isinstance(s, str)
    L = lit(s)

    def nt(*idx):
        return any(i < 0 or i >= n for i in idx)

    for i in indices:
        yield ("index", f"{L}[{i}]", m_index(s, i), nt(i))
        yield ("slice-open", f"{L}[{i} to *]", m_slice(s, i), nt(i))
        fn = "substr" if is_str else "sublist"
        yield (fn + "1", f"{fn}({L}, {i})", m_slice(s, i), nt(i))
    for a in indices:
        for b in indices:
            cross = norm(a, n) > norm(b, n)
            yield ("slice", f"{L}[{a} to {b}]", m_slice(s, a, b),
                   nt(a, b) or cross)
            fn = "substr" if is_str else "sublist"
            yield (fn + "2", f"{fn}({L}, {a}, {b})", m_slice(s, a, b),
                   nt(a, b) or cross)
    for p in parts_:
        P = lit(p)
        yield ("find", f"find({L}, {P})", m_find(s, p), False)
        yield ("find_last", f"find_last({L}, {P})", m_find_last(s, p), False)
        for st in range(-3, n + 3):
            # a start outside [0, n) names no position: nothing lies before
            # the beginning (find clamps, find_last finds nothing) or beyond
            # the end, and the search never wraps around
            yield ("find-start", f"find({L}, {P}, start = {st})",
                   m_find(s, p, st), st > 0 or st < 0)
            yield ("find_last-start", f"find_last({L}, {P}, start = {st})",
                   m_find_last(s, p, st), st < n - 1 or st >= n)
    for k in range(0, n + 1):
        yield ("split-identity", f"{L}[0 to {k}] + {L}[{k} to *] == {L}",
               ("ok", True), False)
        yield ("length-add",
               f"length({L}[0 to {k}] + {L}) == {k} + {n}", ("ok", True),
               False)
    if not full:
        return
    for i in indices:
        # substitute: the documented non-mutating twin of element assignment;
        # an index at or beyond the end appends (unspecified, not judged),
        # one before the start has no element and must not wrap around
        if i < n:
            x = "x" if is_str else 9
            yield ("substitute", f"substitute({L}, {i}, {lit(x)})",
                   m_assign(s, i, x), nt(i))
    # compound element assignment reads and writes one position, and
    # evaluates the index expression once
    if is_str or all(type(x) is int for x in s):
        for i in indices:
            j = norm(i, n)
            x = "x" if is_str else 5
            want = ERR
            if 0 <= j < n:
                want = ("ok", [1, m_assign(s, i, s[j] + x)[1]])
            yield ("compound-assign",
                   f"(fn(t) do def c = 0; def nx() do c += 1; {i} end; "
                   f"t[nx()] += {lit(x)}; [c, t] end)({fresh(s)})",
                   want, nt(i))
    for i in indices:
        if is_str:
            yield ("assign",
                   f"(fn(t) do t[{i}] = 'x'; t end)({fresh(s)})",
                   m_assign(s, i, "x"), nt(i))
        else:
            yield ("assign", f"(fn(t) do t[{i}] = 9; t end)({L})",
                   m_assign(s, i, 9), nt(i))
            yield ("insert_at", f"insert_at({L}, {i}, 9)",
                   m_insert_at(s, i, 9), i < 0 or i > n)
            yield ("delete_at", f"(fn(t) [delete_at(t, {i}), t])({L})",
                   m_delete_at(s, i), nt(i))


def parts_for(s):
    if isinstance(s, str):
        al = "abc"
        return [a for a in al] + [a + b for a in al for b in al]
    return [1, 2, 3]


def check_ops(part, s, ops, collect=True):
    ops = list(ops)
    results = cklrun.run_batch("", [o[1] for o in ops], budget=60)
    first = None
    for (label, expr, want, nontrivial), got in zip(ops, results):
        part.count()
        if nontrivial:
            part.distinct() if collect else part.nontriv(expr)
        f = judge(label, expr, want, got)
        if f is not None:
            case = {"kind": "expr", "label": label, "expr": expr,
                    "want": _jsonable(want)}
            if collect:
                part.collect(f, case)
            else:
                f2 = part.judge(f, case)
                if f2 is not None and first is None:
                    first = (f2, case)
    return first


def _jsonable(want):
    return list(want) if want[0] == "err" else ["ok", repr(want[1])]


def judge(label, expr, want, got):
    if got[0] == "host":
        return Finding(f"C15|{label}|host-{got[1]}",
                       f"{expr} raised {got[1]}: {got[3]} in {got[2]}")
    if got[0] in ("timeout", "syntax", "bad"):
        return Finding(f"C15|{label}|{got[0]}", f"{expr} -> {got}")
    if want[0] == "err":
        if got[0] != "err":
            return Finding(f"C15|{label}|no-error-out-of-range",
                           f"{expr} gave {got[1]!r}, the model says runtime "
                           f"error")
        return None
    if got[0] == "err":
        return Finding(f"C15|{label}|unexpected-error",
                       f"{expr} raised a runtime error, model says "
                       f"{want[1]!r}")
    if not (mv.meq(got[1], want[1]) and
            mv.deep_type(got[1]) == mv.deep_type(want[1])):
        return Finding(f"C15|{label}|differs-from-model",
                       f"{expr} gave {got[1]!r}, model says {want[1]!r}")
    return None


def prop(case):
    want = tuple(case["want"])
    if want[0] == "ok":
        want = ("ok", eval(want[1], {"__builtins__": {}}, {}))  # repr of data
    got = cklrun.run_batch("", [case["expr"]], budget=30)[0]
    return judge(case["label"], case["expr"], want, got)


# --------------------------------------------------------------------- parts

def sequences(kind, maxlen, shard, nshards):
    alphabet = "abc" if kind == "str" else [1, 2, 3]
    k = 0
    for n in range(0, maxlen + 1):
        for tup in itertools.product(alphabet, repeat=n):
            if k % nshards == shard:
                yield "".join(tup) if kind == "str" else list(tup)
            k += 1


def part_exhaustive(part, kind, maxlen, shard, nshards):
    for s in sequences(kind, maxlen, shard, nshards):
        ops = list(ops_for(s, IDX, parts_for(s)))
        part.cls(f"{kind}:len{len(s)}", repr(s) if len(s) == maxlen else None)
        for i in range(0, len(ops), 400):
            check_ops(part, s, ops[i:i + 400])
    part.exhaustive = True


def part_random(part, n):
    big = [10, 11, 17, 100, 1000, 10 ** 6, 2 ** 31, 2 ** 63, 2 ** 64 + 1]

    def body(tape):
        ch = TapeChooser(tape)
        is_str = ch.bool()
        ln = ch.int(0, 24)
        if is_str:
            s = "".join(ch.choice("abcab \t'\\é") for _ in range(ln))
            parts_ = [ch.choice("abc \t'\\é"),
                      "".join(ch.choice("ab") for _ in range(ch.int(1, 3)))]
            if ln >= 2:
                a = ch.int(0, ln - 2)
                parts_.append(s[a:a + ch.int(1, 3)])
        else:
            s = [ch.choice([1, 2, 3, 1.0, "a", None, True]) for _ in range(ln)]
            parts_ = [ch.choice([1, 2, 3, 1.0, "a", None, True])]
        idx = []
        for _ in range(4):
            k = ch.weighted([(3, "small"), (2, "edge"), (2, "big")])
            if k == "small":
                idx.append(ch.int(-30, 30))
            elif k == "edge":
                idx.append(ch.choice([ln, ln - 1, ln + 1, -ln, -ln - 1,
                                      -ln + 1, 0, -1]))
            else:
                v = ch.choice(big)
                idx.append(-v if ch.bool() else v)
        ops = list(ops_for(s, idx, parts_))
        part.cls("random:" + ("str" if is_str else "list"),
                 repr(s) if ln < 8 else None)
        return check_ops(part, s, ops, collect=False)
    part.hyp(tapes(160), body, n)


def parts(tier, seed):
    ps = []
    if tier == "quick":
        for kind in ("str", "list"):
            ps += [(f"{kind}-le4-{i}", part_exhaustive,
                    {"kind": kind, "maxlen": 4, "shard": i, "nshards": 6})
                   for i in range(6)]
        ps += [(f"random-{i}", part_random, {"n": 150}) for i in range(4)]
    else:
        for kind in ("str", "list"):
            ps += [(f"{kind}-le6-{i}", part_exhaustive,
                    {"kind": kind, "maxlen": 6, "shard": i, "nshards": 24})
                   for i in range(24)]
        ps += [(f"random-{i}", part_random, {"n": 3000}) for i in range(8)]
    return ps
