import sys, signal, io
from ckl.interpreter import Interpreter
from ckl.errors import CklSyntaxError, CklRuntimeError
def h(*a): raise TimeoutError()
signal.signal(signal.SIGALRM, h)
def run(src, secure=False, legacy=False, interp=None, t=3):
    it = interp or Interpreter(secure, legacy)
    out = io.StringIO()
    it.setStandardOutput(out)
    signal.alarm(t)
    try:
        r = it.interpret(src, "t")
        res = "=> %s : %s" % (r, r.type())
    except CklSyntaxError as e:
        res = "SYN %r pos=%r" % (e.msg, e.pos)
    except CklRuntimeError as e:
        res = "RT value=%r msg=%r pos=%r st=%r" % (e.value, e.msg, e.pos, e.stacktrace)
    except TimeoutError:
        res = "HANG"
    except RecursionError:
        res = "RECURSION"
    except Exception as e:
        res = "HOST %s: %s" % (type(e).__name__, e)
    finally:
        signal.alarm(0)
    o = out.getvalue()
    return res + ((" out=%r" % o) if o else "")
if __name__ == "__main__":
    it = Interpreter(False, False) if "--fresh" not in sys.argv else None
    for line in sys.stdin.read().split("\n@@\n"):
        line=line.strip("\n")
        if not line: continue
        print("%-50s %s" % (line.replace("\n","\\n"), run(line, interp=None)))
