#!/usr/bin/env python
"""Reproductions for the second C02 hunt (operators / exact integer arithmetic).

Run:  cd /tmp/seed4/C02 && PYTHONPATH=/tmp/seed4/C02/src /venv/bin/python hunt/repro.py
Prints one line per finding: FINDING <n>: <VIOLATES|HOLDS> <short description>
All findings of this hunt are classified "doubtful" (see FINDINGS.md).
"""
import os
import signal
import sys

sys.path.insert(0, os.path.join(os.path.dirname(os.path.abspath(__file__)),
                                "..", "src"))

from ckl.interpreter import Interpreter  # noqa: E402
from ckl.errors import CklRuntimeError, CklSyntaxError  # noqa: E402


class Timeout(BaseException):
    pass


def _alarm(*_):
    raise Timeout()


signal.signal(signal.SIGALRM, _alarm)


def run(src, legacy=True, limit=10):
    """-> ('OK', text, type) | ('RT', msg) | ('SYN', msg) | ('PY', name)
    | ('HANG',)"""
    it = Interpreter(secure=False, legacy=legacy)
    signal.alarm(limit)
    try:
        v = it.interpret(src, "repro.ckl")
        return ("OK", repr(v), v.type())
    except Timeout:
        return ("HANG",)
    except CklRuntimeError as e:
        return ("RT", e.msg)
    except CklSyntaxError as e:
        return ("SYN", e.msg)
    except BaseException as e:  # host exception leaking out
        return ("PY", type(e).__name__)
    finally:
        signal.alarm(0)


def ok(r, text, typ=None):
    return r[0] == "OK" and r[1] == text and (typ is None or r[2] == typ)


def both(pred):
    """pred(legacy) must be True (= property holds) in both modes."""
    return pred(True) and pred(False)


def report(n, holds, desc):
    print(f"FINDING {n}: {'HOLDS' if holds else 'VIOLATES'} {desc}")


# 1. the inner operand of a comparison chain is evaluated once per pair
COUNTER = "def n = 0; def f() do n += 1; n; end; "


def f1(legacy):
    # f() yields 1, 2, 3, ...; evaluated once, 0 < f() < 2 is 0 < 1 < 2
    a = run(COUNTER + "[0 < f() < 2, n]", legacy)
    b = run(COUNTER + "def v = f(); [0 < v < 2, n]", legacy)
    return ok(a, "[TRUE, 1]") and ok(b, "[TRUE, 1]")


report(1, both(f1),
       "[doubtful] `0 < f() < 2` evaluates f() twice (f counts its calls: "
       "the chain is FALSE and n is 2, with `def v = f()` it is TRUE)")


# 2. a predicate word after `is` wins over a variable / function of that name
def f2(legacy):
    a = run("def input = 5; [5 is input, 5 == input]", legacy)
    b = run("def node = 'n'; ['n' is not node, 'n' != node]", legacy)
    c = run("'5' is string(5)", legacy)          # '5' == string(5) is TRUE
    d = run("[1] is not list(1)", legacy)        # [1] != list(1) is FALSE
    return (ok(a, "[TRUE, TRUE]") and ok(b, "[FALSE, FALSE]")
            and ok(c, "TRUE") and ok(d, "FALSE"))


report(2, both(f2),
       "[doubtful] after `is [not]` the words empty/zero/.../input/node/"
       "string/list are predicates even when they name a variable or are "
       "called: `def input = 5; 5 is input` is FALSE, `'5' is string(5)` is "
       "a syntax error")


# 3. the DIV_0_VALUE hook of `/`
def f3(legacy):
    a = run("def DIV_0_VALUE = 1.5; 6 / 0", legacy)   # two ints -> decimal
    b = run("def DIV_0_VALUE = 7; 6.0 / 0", legacy)   # decimal operand -> int
    c = run("def DIV_0_VALUE = NULL; 6 / 0", legacy)  # NULL from two ints
    d = run("def f(DIV_0_VALUE) 6 / 0; f('x')", legacy)
    e = run("def DIV_0_VALUE = 7; 6 % 0", legacy)     # % ignores the hook
    # holds when two ints never give a non-int and a decimal operand never
    # gives an int, and / and % agree on division by zero
    return (not (a[0] == "OK" and a[2] != "int")
            and not (b[0] == "OK" and b[2] == "int")
            and not (c[0] == "OK" and c[2] != "int")
            and not (d[0] == "OK" and d[2] != "int")
            and (e[0] == "RT") == (a[0] == "RT"))


report(3, both(f3),
       "[doubtful] a variable DIV_0_VALUE in scope (global, local or a "
       "parameter) becomes the value of x / 0: `def DIV_0_VALUE = 1.5; 6 / 0` "
       "is the decimal 1.5, `6.0 / 0` with 7 is the int 7, with NULL it is "
       "NULL; `6 % 0` ignores it")


# 4. a malformed hex / binary literal is read as the variable after 0x / 0b
def f4(legacy):
    a = run("def foo = 5; 0xfoo + 1", legacy)
    b = run("def x = 7; 0bx * 2", legacy)
    c = run("0b12", legacy)
    return a[0] == "SYN" and b[0] == "SYN" and c[0] == "SYN"


report(4, both(f4),
       "[doubtful] `def foo = 5; 0xfoo + 1` is 6 and `def x = 7; 0bx * 2` is "
       "14 (0x / 0b followed by a non-digit is dropped and the rest read as "
       "an identifier; `0b12` is \"Symbol '12' not defined\")")


# 5. a spread as operand of an operator is spliced into the operator's call
def f5(legacy):
    a = run("...[1, 2] + ...[]", legacy)
    b = run("...[1] is int", legacy)
    c = run("1 + ...[2]", legacy)
    return all(r[0] in ("SYN", "RT") for r in (a, b)) and c[0] in (
        "SYN", "RT")


report(5, both(f5),
       "[doubtful] `...[1, 2] + ...[]` is 3 and `...[1] is int` is TRUE "
       "(while `1 + ...[2]` is 'Positional arguments need to be placed "
       "before named arguments'): the spread form is accepted as an operand")


# 6. re-check of the items repaired after the first hunt (expected: HOLDS)
def f6(legacy):
    big = str(2 ** 1024)
    x = "1" + "0" * 2200
    rs = [
        ok(run("'a' is 'not'", legacy), "FALSE"),
        run("1 is 'not' 2", legacy)[0] == "SYN",
        run("[] * 9223372036854775808", legacy, 5)[0] in ("OK", "RT"),
        all(run(f"{big} {op} 0.5", legacy)[0] in ("OK", "RT")
            and run(f"0.5 {op} {big}", legacy)[0] in ("OK", "RT")
            for op in "+-*/%"),
        ok(run("9" * 4301 + " > 1", legacy), "TRUE"),
        ok(run("0x" + "f" * 4000 + " > 0", legacy), "TRUE"),
        run(f"def x = {x}; x * x < 'a'", legacy)[0] in ("OK", "RT"),
        run(f"def x = {x}; '' + x * x", legacy)[0] in ("OK", "RT"),
        run(f"def x = {x}; (x * x) / 0", legacy)[0] == "RT",
        run("'' + -(0.0)", legacy) == run("'' + -0.0", legacy),
    ]
    return all(rs)


report(6, both(f6),
       "re-check of the repaired items of the first hunt (`is 'not'`, "
       "list * huge int, 2^1024 with decimals, ints beyond 4300 digits, "
       "-(0.0)); HOLDS = they are repaired")
