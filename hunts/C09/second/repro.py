#!/usr/bin/env python
"""C09 second hunt - no violations found, so there is no FINDING line.
The script re-runs the essential probes and prints RECHECK lines instead.
   cd /tmp/seed4/C09 && PYTHONPATH=/tmp/seed4/C09/src /venv/bin/python hunt/repro.py
"""
import os
import re
import signal
import sys

HERE = os.path.dirname(os.path.abspath(__file__))
SRC = os.path.join(os.path.dirname(HERE), "src")
if os.path.isdir(os.path.join(SRC, "ckl")):
    sys.path.insert(0, SRC)

from ckl.interpreter import Interpreter  # noqa: E402
from ckl.errors import CklRuntimeError, CklSyntaxError  # noqa: E402
import ckl.functions as F  # noqa: E402
import ckl.values as V  # noqa: E402
import ckl.nodes  # noqa: E402

MODDIR = os.path.join(os.path.dirname(os.path.abspath(ckl.nodes.__file__)),
                      "modules")
DATA = os.path.join(HERE, "repro_data")
os.makedirs(DATA, exist_ok=True)
with open(os.path.join(DATA, "c09evil.ckl"), "w", encoding="utf-8") as f:
    f.write('def marker = "EVIL";\n')
REL = os.path.relpath(DATA, MODDIR).replace(os.sep, "/")

EVENTS = []
ON = [False]


def hook(ev, args):
    if ON[0] and (ev == "open" or ev.startswith(("os.", "subprocess",
                                                 "shutil"))):
        p = str(args[0]) if args else ""
        if ev == "open" and p.endswith(".ckl") and \
                os.path.dirname(p) == MODDIR:
            return      # the interpreter reading a bundled module source
        EVENTS.append((ev, p))


sys.addaudithook(hook)


class Timeout(Exception):
    pass


def _alarm(*_):
    raise Timeout()


signal.signal(signal.SIGALRM, _alarm)


def run(it, prog):
    signal.setitimer(signal.ITIMER_REAL, 5, 1)
    ON[0] = True
    try:
        return it.interpret(prog, "repro.ckl").asString().value
    except (CklRuntimeError, CklSyntaxError) as e:
        return "ERR: " + str(e.msg)
    except Timeout:
        return "ERR: timeout"
    except Exception as e:  # noqa
        return "ERR: python " + type(e).__name__
    finally:
        ON[0] = False
        signal.setitimer(signal.ITIMER_REAL, 0)


def insecure_values(it):
    seen, bad = set(), []
    stack = [it.base_environment, it.environment]
    while stack:
        o = stack.pop()
        if id(o) in seen:
            continue
        seen.add(id(o))
        if isinstance(o, F.Environment):
            stack.extend(o.map.values())
            if o.parent is not None:
                stack.append(o.parent)
            else:
                stack.extend(o.modules.values())
        elif isinstance(o, V.ValueFunc):
            if not o.secure:
                bad.append(o.name)
            if isinstance(o, F.FuncLambda):
                stack.append(o.lexicalEnv)
        elif isinstance(o, V.ValueInput) and isinstance(o.input, V.FileInput):
            bad.append("FileInput")
        elif isinstance(o, V.ValueOutput) and \
                isinstance(o.output, V.FileOutput):
            bad.append("FileOutput")
        elif isinstance(o, (V.ValueList, V.ValueSet)):
            stack.extend(o.value)
        elif isinstance(o, V.ValueMap):
            stack.extend(o.value.keys())
            stack.extend(o.value.values())
        elif isinstance(o, V.ValueObject):
            stack.extend(o.value.values())
    return bad


def state_ok(it):
    flag = it.base_environment.map["checkerlang_secure_mode"]
    return flag is V.TRUE and flag.value is True and not insecure_values(it)


# 1. the repaired item: '..' / absolute / nested specs stay in the module dirs
hits = []
for legacy in (True, False):
    for spec in (f"{REL}/c09evil", f"{REL}/c09evil.ckl", f"./{REL}/c09evil",
                 f"io/../{REL}/c09evil", DATA + "/c09evil",
                 f"{REL}/C09EVIL"):
        it = Interpreter(secure=True, legacy=legacy)
        for prog in (f'require "{spec}" as ev; ev->marker',
                     f'def m = "{spec}"; require m unqualified; marker'):
            if run(it, prog) == "EVIL":
                hits.append((legacy, prog))
print("RECHECK 1:", "VIOLATES" if hits or EVENTS else "HOLDS",
      "repaired item: require spec with ../, ./, absolute path cannot load "
      "a .ckl file outside the module directories", hits[:1], EVENTS[:2])
EVENTS.clear()

# 2. every native name, with and without alias, top level / function / eval /
#    comprehension / callback, under flag shadows of every syntactic kind
names = sorted(set(re.findall(r'native == "([^"]+)"',
                              open(F.__file__, encoding="utf-8").read())))
INSEC = {"execute", "file_input", "file_output", "file_copy", "file_delete",
         "file_exists", "file_info", "file_move", "list_dir", "make_dir",
         "run", "read_file"}
shadows = [
    'def checkerlang_secure_mode = FALSE;',
    '"doc" def checkerlang_secure_mode = FALSE;',
    'def [checkerlang_secure_mode] = [FALSE];',
    'def class checkerlang_secure_mode do def x = 1 end;',
    'def class K do def checkerlang_secure_mode = FALSE end;',
    'eval("def checkerlang_secure_mode = FALSE");',
    's("{def checkerlang_secure_mode = FALSE}");',
    'eval(parse("def checkerlang_secure_mode = FALSE"));',
    'require Sys as checkerlang_secure_mode;',
    'require Sys import [checkerlang_version as checkerlang_secure_mode];',
    'bind_native("print", "checkerlang_secure_mode");',
]
wrappers = [
    '{S} {B}',
    '{S} def f() do {B} ls() end; f();',
    'def g(checkerlang_secure_mode...) do {B} ls() end; g(FALSE);',
    'def h(a, checkerlang_secure_mode = FALSE) do {B} 1 end; h(1);',
    'for checkerlang_secure_mode in [FALSE] do {B} end;',
    'for [checkerlang_secure_mode, b] in [[FALSE, 1]] do {B} end;',
    '[do {B} 1 end for checkerlang_secure_mode in [FALSE]];',
    '<* checkerlang_secure_mode = FALSE, go = fn(self) do {B} 1 end *>'
    '->go();',
    '{S} sorted([2, 1], cmp = fn(a, b) do {B} compare(a, b) end);',
]
bad = []
for legacy in (True, False):
    it = Interpreter(secure=True, legacy=legacy)
    binds = "".join(
        f'bind_native("{n}"); bind_native("{n}", "al_{n}"); '
        f'bind_native(native = "{n}", alias = "al2_{n}"); '
        f'bind_native(...["{n}", "al3_{n}"]); '
        for n in names if n in INSEC or n in ("bind_native", "print"))
    for i, w in enumerate(wrappers):
        for S in (shadows if "{S}" in w else [""]):
            prog = w.replace("{S}", S).replace("{B}", binds)
            prog += (' require "io" as io_; require "Io.ckl" as io2_; '
                     'require OS; require "os" as os_; '
                     'def all_ = ls() + ls(io_) + ls(io2_) + ls(OS) + '
                     'ls(os_); [x for x in all_ if x in ' +
                     str(sorted(INSEC)).replace("'", '"') +
                     ' or (length(x) > 3 and x !> substr(0, 2) == "al" and '
                     'x !> find("_") in [2, 3] and x !> substr(find(x, "_")'
                     ' + 1) in ' + str(sorted(INSEC)).replace("'", '"') +
                     ')]')
            r = run(it, prog)
            if r != "[]" or not state_ok(it) or EVENTS:
                bad.append((legacy, i, S, r[:80], EVENTS[:2]))
                EVENTS.clear()
print("RECHECK 2:", "VIOLATES" if bad else "HOLDS",
      "insecure natives unbindable/undefined under every flag shadow and "
      "binding form; base flag stays TRUE; no file/process event", bad[:2])

# 3. assignments to the flag are rejected in every form
bad = []
for legacy in (True, False):
    it = Interpreter(secure=True, legacy=legacy)
    for prog in ('checkerlang_secure_mode = FALSE',
                 'checkerlang_secure_mode += 1',
                 '[checkerlang_secure_mode] = [FALSE]',
                 '[a, checkerlang_secure_mode] = [1, FALSE]',
                 'eval("checkerlang_secure_mode = FALSE")',
                 's("{checkerlang_secure_mode = FALSE}")',
                 'eval(parse("checkerlang_secure_mode = FALSE"))',
                 'def f() checkerlang_secure_mode = FALSE; f()',
                 '(checkerlang_secure_mode = FALSE)'):
        r = run(it, prog)
        if not r.startswith("ERR") or not state_ok(it):
            bad.append((legacy, prog, r))
print("RECHECK 3:", "VIOLATES" if bad else "HOLDS",
      "plain/compound/destructuring/eval/parse/s() assignment to the flag "
      "is rejected", bad[:2])
print("NO FINDINGS")
