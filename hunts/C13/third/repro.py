#!/usr/bin/env python
"""Reproductions for the third C13 hunt ("only language-level errors escape
evaluation").  Run with

    cd /tmp/seed5/C13 && PYTHONPATH=/tmp/seed5/C13/src /venv/bin/python hunt/repro.py [-v]

Every program is evaluated in a child process (so that a hang can be killed);
one line per finding is printed:

    FINDING <n>: <VIOLATES|HOLDS> <short description>

A finding VIOLATES if one of its probes ends in a host exception (anything but
CklRuntimeError), does not come back within PROBE_TIMEOUT seconds, or (for the
two "doubtful" items 5 and 6) shows the behaviour described in FINDINGS.md.
Only the ckl package and the standard library are used.
"""
import json
import os
import shutil
import subprocess
import sys
import tempfile
from concurrent.futures import ThreadPoolExecutor

PROBE_TIMEOUT = 8          # seconds per single program
HERE = os.path.dirname(os.path.abspath(__file__))
SRC = os.path.join(os.path.dirname(HERE), "src")
VERBOSE = "-v" in sys.argv[1:]

WORKER = r'''
import sys, json
sys.path.insert(0, %(src)r)
from ckl.interpreter import Interpreter
from ckl.errors import CklRuntimeError, CklSyntaxError
from ckl.values import Value
source = %(source)r
legacy = %(legacy)r
try:
    it = Interpreter(secure=False, legacy=legacy)
    v = it.interpret(source, "repro.ckl")
    try:
        text = str(v)[:200]
    except Exception as e:          # rendering is not part of the probe
        text = "<unrenderable " + type(e).__name__ + ">"
    out = ["VALUE", text]
except CklRuntimeError as e:
    out = ["RTERR" if isinstance(e.value, Value) else "NOVALUE", str(e.msg)[:200]]
except CklSyntaxError as e:
    out = ["SYNTAX", str(e.msg)[:200]]
except BaseException as e:
    out = ["HOST", type(e).__name__ + ": " + str(e)[:200]]
sys.stderr.write("\n@@RESULT@@" + json.dumps(out) + "\n")
'''


def run_program(source, legacy=True, cwd=None, stdin_bytes=b"", env_extra=None,
                close_stdin=False):
    """-> (kind, text); kind in VALUE RTERR NOVALUE SYNTAX HOST HANG DIED"""
    code = WORKER % {"src": SRC, "source": source, "legacy": legacy}
    env = dict(os.environ)
    env.pop("PYTHONPATH", None)
    if env_extra:
        env.update(env_extra)
    kwargs = {}
    if close_stdin:
        kwargs["preexec_fn"] = lambda: os.close(0)
        kwargs["stdin"] = None
    else:
        kwargs["stdin"] = subprocess.PIPE
    try:
        p = subprocess.Popen(
            [sys.executable, "-c", code], cwd=cwd, env=env,
            stdout=subprocess.DEVNULL, stderr=subprocess.PIPE, **kwargs)
        try:
            _, err = p.communicate(
                None if close_stdin else stdin_bytes, timeout=PROBE_TIMEOUT)
        except subprocess.TimeoutExpired:
            p.kill()
            p.communicate()
            return ("HANG", "no result after %d s" % PROBE_TIMEOUT)
    except OSError as e:
        return ("DIED", str(e))
    err = err.decode("utf-8", "replace")
    if "@@RESULT@@" not in err:
        return ("DIED", err[-200:])
    kind, text = json.loads(err.split("@@RESULT@@")[-1].strip())
    return (kind, text)


def bad(result):
    return result[0] in ("HOST", "HANG", "NOVALUE", "DIED")


# ---------------------------------------------------------------------------

def finding1():
    progs = [
        ("round(decimal('1.7976931348623157e308'), -308)", True),
        ("round(decimal('1.7e308'), -308)", False),
        ("do round(decimal('-1.7e308'), -308) catch all 'caught' end", True),
        ("round(1.5 * decimal('1e308'), digits = -308)", False),
    ]
    return [(s, run_program(s, leg)) for s, leg in progs]


DAG = "def a = [1]; for i in range(60) do a = [a, a] end; "


def finding2():
    progs = [
        (DAG + "a in <<1>>", True),
        (DAG + "def m = <<<>>>; m[a] = 1; length(m)", False),
        (DAG + "length(<<a>>)", False),
        ("def a = [1]; def b = [1]; for i in range(60) do a = [a, a]; "
         "b = [b, b] end; a == b", False),
        (DAG + "do a < 1 catch all 'caught' end", True),
        ("def a = <*x = 1*>; for i in range(60) do a = <*x = a, y = a*> end; "
         "require List; length(List->unique([a, 1]))", False),
        ("def a = <<<1 => 1>>>; for i in range(60) do "
         "a = <<<1 => a, 2 => a>>> end; a in <<1>>", True),
    ]
    with ThreadPoolExecutor(max_workers=len(progs)) as ex:
        results = list(ex.map(lambda j: run_program(j[0], j[1]), progs))
    return [(progs[i][0], results[i]) for i in range(len(progs))]


def finding3():
    out = []
    strict = {"PYTHONIOENCODING": "utf-8:strict"}
    for src, leg in [
        ("process_lines(stdin, fn(line) line)", True),
        ("require IO; do IO->process_lines(stdin, fn(line) line) "
         "catch all 'caught' end", False),
    ]:
        out.append((src + "   [stdin: bytes 61 62 ff 0a]",
                    run_program(src, leg, stdin_bytes=b"ab\xff\ncd\n",
                                env_extra=strict)))
        out.append((src + "   [stdin closed]",
                    run_program(src, leg, close_stdin=True)))
    # for comparison: the other readers convert the same condition
    out.append(("readln()   [stdin: bytes 61 62 ff 0a] (comparison, must be "
                "a runtime error)",
                run_program("readln()", True, stdin_bytes=b"ab\xff\ncd\n",
                            env_extra=strict)))
    return out


def finding4():
    out = []
    for leg in (True, False):
        d = tempfile.mkdtemp(prefix="c13_repro_cwd_", dir=HERE)
        try:
            src = ("%sfile_delete(%s); do run('x.ckl') catch all 'caught' end"
                   % ("" if leg else "require OS; OS->", "'" + d + "'"))
            out.append((src, run_program(src, leg, cwd=d)))
        finally:
            shutil.rmtree(d, ignore_errors=True)
    return out


def nested(n, form):
    return ("def a = %s; " % ("<*k = 0*>" if form == "->k" else "[0]")
            + "(" * n + "a" + (form + " += 1)") * n
            + "; a" + form)


def finding5():
    out = []
    src = nested(3, "->k")
    r = run_program(src, True)
    out.append((src + "   (three increments: 3 expected)", r,
                r == ("VALUE", "7")))
    src = nested(12, "[0]")
    r = run_program(src, False)
    out.append((src[:60] + " ...   (12 increments: 12 expected)", r,
                r == ("VALUE", "4095")))
    src = nested(40, "->k")
    r = run_program(src, True)
    out.append((src[:60] + " ...   (depth 40)", r, bad(r)))
    return out


def finding6():
    # the generator behind random(), after set_seed(<int>), has 233280 states;
    # sample() of 250000 out of 300000 elements needs 250000 different indices
    sys.path.insert(0, SRC)
    import ckl.functions as F
    F.seed = 1                      # what set_seed(1) does
    gen = F.FuncRandom()
    reached = set()
    for _ in range(700000):
        reached.add(gen.getRandomInt(0, 300000))
    text = ("set_seed(1); random(300000) drawn 700000 times reaches %d "
            "different indices; Random->sample(range(300000), 250000) needs "
            "250000" % len(reached))
    return [(text, ("VALUE", str(len(reached))), len(reached) < 250000)]


FINDINGS = [
    (1, "round(x, <negative digits>) for a decimal near the top of the double "
        "range: host OverflowError", finding1),
    (2, "containers that share sub-containers (61 two-element lists): "
        "hashing, equality and ordering take 2^depth steps - `in`, map key, "
        "set element, ==, <, unique never return", finding2),
    (3, "process_lines(stdin, f) lets the host's I/O exceptions through "
        "(UnicodeDecodeError on undecodable input, AttributeError on a closed "
        "stdin); readln / read_all / for convert them", finding3),
    (4, "run('<relative file>') after the working directory was removed: "
        "host FileNotFoundError from os.getcwd()", finding4),
    (5, "(doubtful) compound assignment to a computed target evaluates the "
        "target twice: (((a->k += 1)->k += 1)->k += 1) increments 7 times, "
        "nesting depth 40 does not return", finding5),
    (6, "(doubtful) Random->sample after set_seed(<int>): random() reaches "
        "at most 233280 different indices, a larger sample never completes",
        finding6),
]


def main():
    for number, description, fn in FINDINGS:
        results = fn()
        violated = False
        for item in results:
            if len(item) == 3:
                src, res, flag = item
            else:
                src, res = item
                flag = bad(res) and "(comparison" not in src
            violated = violated or flag
            if VERBOSE:
                print("    %-8s %s\n             <= %s"
                      % (res[0], res[1][:110], src[:150]))
        print("FINDING %d: %s %s"
              % (number, "VIOLATES" if violated else "HOLDS", description))


if __name__ == "__main__":
    main()
