"""C16  Only documented mutators change their arguments; aliases see mutations."""
import itertools
import re
import os

from vf.core import Finding
from vf import sweep
from vf.checks import c13
from vf.gen.chooser import TapeChooser, tapes
from vf import cklrun
from vf.model import values as mv

PROPERTY = "C16"
RULE = (
    "Part 1 (exhaustive sweep): every function object of the base environment "
    "and bundled modules and every syntactic form is applied to argument "
    "tuples (arity <= 3; quick: arity <= 2 + sample of 3) from the 29-value "
    "pool, with a deep structural snapshot of every argument before and "
    "after: only append, append_all, insert_at, delete_at, remove, put and "
    "element/member assignment may change an argument, and only their first "
    "one; and a call that returns a list, set, map or object returns a new "
    "object, not one of its arguments, unless the function is a selector, "
    "an own-kind conversion or a mutator (explicit list). Part 2 (Hypothesis): random alias graphs (variables, parameters, "
    "nested containers, closures) driven by sequences of mutating operations "
    "and non-mutating producers (+ - *, slices, sublist, sorted, reverse, zip, "
    "set algebra, comprehensions, list/set conversion), executed by the "
    "interpreter and by a Python heap model; all variables are read back "
    "after every step. Non-trivial = a call whose arguments include a mutable "
    "container (part 1) / a sequence in which a mutation is observed through "
    ">= 2 access paths or a producer result is mutated afterwards (part 2)."
)
ASSUMPTIONS = [
    "stream objects are not snapshotted (reading consumes them by design)",
    "functions that return one of their arguments (identity, list(l), "
    "if_null, min) are not required to copy",
    "no cycles, no mutable values inside sets or as map keys in part 2",
]

MUTATORS = {"append", "append_all", "insert_at", "delete_at", "remove", "put"}
MUTATING_FORMS = {"A[B] = C", "A[B] += C", "A->a = B",
                  # loops whose body applies a documented mutator to A
                  "for v in values A do A->zz = v end",
                  "for k in keys A do remove(A, k) end",
                  "for x in A do append(A, B); if length(A) > 6 then break end",
                  "find(A, B, key = fn(x) do delete_at(A, 0); x end)",
                  "find_last(A, B, key = fn(x) do delete_at(A, 0); "
                  "delete_at(A, 0); x end)",
                  "sorted(A, key = fn(x) do delete_at(A, 0); x end)",
                  "sorted(A, cmp = fn(a, b) do delete_at(A, 0); "
                  "compare(a, b) end)",
                  "map_list(A, fn(x) do delete_at(A, 0); x end)",
                  "filter(A, fn(x) do remove(A, x); TRUE end)",
                  "for_each(A, fn(x) delete_at(A, 0))",
                  "reduce(A, fn(a, b) do delete_at(A, 0); a end)",
                  "[delete_at(A, 0) for x in A]",
                  "for x in A do delete_at(A, 0) end",
                  "<<remove(A, x) for x in A>>",
                  "for k in A do remove(A, k) end",
                  "for x in A do insert_at(A, 0, x); if length(A) > 9 then "
                  "break end"}

_MUTATES_A = re.compile(
    r"\b(?:append|append_all|insert_at|delete_at|remove|put)\(A\b"
    r"|\bA\[[^\]]*\] *[-+*/%]?= |\bA->\w+ *[-+*/%]?= ")


def mutates_target(form):
    """Does the form apply a documented in-place mutator (or an element /
    member assignment) to its first operand?"""
    return form in MUTATING_FORMS or _MUTATES_A.search(form) is not None


# Functions and forms that may hand back one of their argument objects:
# selectors (the result is *chosen* among the arguments), conversions of a
# value to its own kind, mutators returning their target, and functions that
# pass an argument of a kind they do not apply to straight through.  Every
# other function that returns a list, set, map or object must return a new one
# ("values produced by non-mutating operations are independent of their
# inputs").
RETURNS_ARGUMENT = {
    "identity", "if_empty", "if_null", "if_null_or_empty", "non_empty",
    "non_zero", "min", "max", "map_get", "map_get_pattern", "reduce", "apply",
    "first", "last", "choice", "const", "div0",             # selectors
    "list", "set", "map", "object",                          # own-kind conversion
    "append", "append_all", "insert_at", "delete_at", "remove", "put",
    "esc", "gcd", "basename", "replace",                    # pass-through
}
RETURNS_ARGUMENT_FORMS = {
    "(fn() A)()", "+ A", "A !> identity()", "A(B)", "A->a = B", "A[B] = C",
    "A[B] += C", "do A finally B end", "return A", "A !> B()", "A !> B(C)",
    "A[B, C]", "B !> A(C)", "A(B, C)", "A(...B)", "A(a = B)", "A->a(B)",
    "A->m(B)",
}

# Functions whose result may hold an argument object as an element or member:
# they put a value into a collection (the mutators, `+` with an element, the
# literal forms) or link to it (new: the instance's _proto_ is the class).
CONTAINS_ARGUMENT = {
    "add", "append", "append_all", "insert_at", "put", "new", "identity",
    "if_empty", "if_null", "if_null_or_empty", "non_empty", "non_zero",
    "min", "max", "map_get", "div0", "const", "curry", "apply",
    "substitute",
}


def holds(sw, v, target, depth=0, seen=None):
    """v contains the object `target` (by identity) as an element, key,
    value or member at some depth >= 1."""
    cv = sw.cv
    if seen is None:
        seen = set()
    if id(v) in seen or depth > 8:
        return False
    seen.add(id(v))
    if isinstance(v, (cv.ValueList, cv.ValueSet)):
        kids = list(v.value)
    elif isinstance(v, cv.ValueMap):
        kids = list(v.value.keys()) + list(v.value.values())
    elif isinstance(v, cv.ValueObject):
        kids = list(v.value.values())
    else:
        return False
    for k in kids:
        if k is target or holds(sw, k, target, depth + 1, seen):
            return True
    return False


_SW = {}


def sweeper():
    key = os.getpid()
    if key not in _SW:
        _SW[key] = sweep.Sweeper(True)
    return _SW[key]


def run_snap(case, budget=2.0):
    sw = sweeper()
    args = case["args"]
    vals = [sw.make(i) for i in args]
    shared = bool(case.get("shared")) and len(vals) >= 2
    if shared:
        vals[1] = vals[0]
    bindings = {f"p{k}": v for k, v in enumerate(vals)}
    if case["kind"] == "call":
        fn = None
        for label, f, names in sw.functions:
            if label == case["fn"]:
                fn = f
                break
        if fn is None:
            return None
        bindings["f"] = fn
        src = "f(" + ", ".join(f"p{k}" for k in range(len(vals))) + ")"
        label = case["fn"]
        name = label.split("->")[-1].split(":")[-1]
        target_ok = name in MUTATORS
    else:
        name = None
        src = c13.form_src(case["form"], len(vals))
        label = "form:" + case["form"]
        target_ok = mutates_target(case["form"])
    before = [sw.snapshot(v) for v in vals]
    out = sw.run_src(src, bindings, budget)
    if out[0] == "timeout":
        return None
    after = [sw.snapshot(v) for v in vals]
    if out[0] == "value" and not (
            name in RETURNS_ARGUMENT if case["kind"] == "call"
            else _returns_argument_form(case["form"])):
        for k, v in enumerate(vals):
            if out[1] is v and args[k] in sweep.MUTABLE:
                return Finding(f"{label}|returns-its-argument",
                               f"{c13.describe(case)}: the result is the "
                               f"very object passed as argument {k}, so a "
                               f"later in-place change of either shows in "
                               f"the other")
    if out[0] == "value" and case["kind"] == "call" and \
            name not in CONTAINS_ARGUMENT and name not in RETURNS_ARGUMENT:
        for k, v in enumerate(vals):
            if args[k] in sweep.MUTABLE and out[1] is not v and \
                    holds(sw, out[1], v):
                return Finding(f"{label}|result-holds-its-argument",
                               f"{c13.describe(case)}: the result holds the "
                               f"very object passed as argument {k} as an "
                               f"element, so a later in-place change of it "
                               f"shows in the argument")
    for k, (b, a) in enumerate(zip(before, after)):
        if b == a:
            continue
        if target_ok and (k == 0 or (shared and k == 1)):
            continue
        return Finding(f"{label}|mutates-arg{k}",
                       f"{c13.describe(case)}: argument {k} was "
                       f"{_show(b)} and is {_show(a)} afterwards")
    return None


def run_fuzz_snap(case, budget=2.0):
    """Generated argument values (source text from c13's generator)."""
    sw = sweeper()
    vals = []
    for a in case["args"]:
        o = sw.run_src(a, {}, budget)
        if o[0] != "value":
            return None
        vals.append(o[1])
    if case.get("shared") and len(vals) >= 2:
        vals[1] = vals[0]
    bindings = {f"p{k}": v for k, v in enumerate(vals)}
    if case.get("fn"):
        fn = None
        for label, f, names in sw.functions:
            if label == case["fn"]:
                fn = f
                break
        if fn is None:
            return None
        bindings["f"] = fn
        parts_ = []
        for k in range(len(vals)):
            nm = case["names"][k]
            parts_.append(f"{nm} = p{k}" if nm else f"p{k}")
        src = "f(" + ", ".join(parts_) + ")"
        label = case["fn"]
        name = label.split("->")[-1].split(":")[-1]
        # a named target (append(element = 1, lst = l)) is still the target
        target_ok = name in MUTATORS
        may_return_arg = name in RETURNS_ARGUMENT
        targets = {0}
        if target_ok and case["names"] and any(case["names"]):
            targets = set(range(len(vals)))
    else:
        src = c13.form_src(case["form"], len(vals))
        label = "form:" + case["form"]
        target_ok = mutates_target(case["form"])
        may_return_arg = _returns_argument_form(case["form"])
        targets = {0}
    if case.get("shared"):
        targets = targets | {1}
    before = [sw.snapshot(v) for v in vals]
    out = sw.run_src(src, bindings, budget)
    if out[0] == "timeout":
        return None
    after = [sw.snapshot(v) for v in vals]
    desc = c13.describe_fuzz(case)
    mutable = (sw.cv.ValueList, sw.cv.ValueSet, sw.cv.ValueMap,
               sw.cv.ValueObject)
    if out[0] == "value" and not may_return_arg:
        for k, v in enumerate(vals):
            if out[1] is v and isinstance(v, mutable):
                return Finding(f"{label}|returns-its-argument",
                               f"{desc}: the result is the very object "
                               f"passed as argument {k}")
    if out[0] == "value" and case.get("fn") and \
            name not in CONTAINS_ARGUMENT and name not in RETURNS_ARGUMENT:
        for k, v in enumerate(vals):
            if isinstance(v, mutable) and out[1] is not v and \
                    holds(sw, out[1], v):
                return Finding(f"{label}|result-holds-its-argument",
                               f"{desc}: the result holds the very object "
                               f"passed as argument {k} as an element")
    for k, (b, a) in enumerate(zip(before, after)):
        if b == a:
            continue
        if target_ok and k in targets:
            continue
        return Finding(f"{label}|mutates-arg{k}",
                       f"{desc}: argument {k} was {_show(b)} and is "
                       f"{_show(a)} afterwards")
    return None


def _returns_argument_form(form):
    if form in RETURNS_ARGUMENT_FORMS:
        return True
    # control forms whose value is one of their operands (if/and/or/blocks)
    return any(w in form for w in ("if ", " or ", " and ", "do ", "while ",
                                   "for ", "def ", " = ", "catch"))


def _show(s):
    t = repr(s)
    return t if len(t) < 160 else t[:160] + "..."


# ------------------------------------------------------------------ part 2
#
# A scenario is a list of steps over variables v0..v5 holding lists, sets,
# maps or objects (possibly nested, possibly aliased).  Each step is rendered
# as one source statement and applied to a Python heap model in which
# containers are mutable Python objects shared by reference.

class Cell:
    """A mutable container in the heap model."""
    def __init__(self, kind, data):
        self.kind = kind          # list | set | map | object
        self.data = data          # list | list(unique) | list of pairs | dict


def cell_to_model(x, depth=0):
    if isinstance(x, Cell):
        if x.kind == "list":
            return [cell_to_model(e, depth + 1) for e in x.data]
        if x.kind == "set":
            return mv.MSet([cell_to_model(e, depth + 1) for e in x.data])
        if x.kind == "map":
            return mv.MMap([(k, cell_to_model(v, depth + 1))
                            for k, v in x.data])
        return mv.MObj({k: cell_to_model(v, depth + 1)
                        for k, v in x.data.items()})
    return x


def scalar(ch):
    return ch.choice([0, 1, 2, 3, "a", "b", 2.5, None, True])


class Scenario:
    """Generates steps, keeping the heap model in sync."""
    def __init__(self, ch):
        self.ch = ch
        self.vars = {}            # name -> Cell | scalar
        self.lines = []
        self.paths_seen_mutation = 0
        self.producer_mutated = False
        self.fresh_from_producer = set()
        self.n = 0

    def new_name(self):
        self.n += 1
        return f"v{self.n}"

    def lists(self):
        return [n for n, c in self.vars.items()
                if isinstance(c, Cell) and c.kind == "list"]

    def of_kind(self, kind):
        return [n for n, c in self.vars.items()
                if isinstance(c, Cell) and c.kind == kind]

    def cells(self):
        return [n for n, c in self.vars.items() if isinstance(c, Cell)]

    def aliases_of(self, cell):
        return [n for n, c in self.vars.items() if c is cell]

    def reachable_paths(self, cell):
        """number of variables from which the cell is reachable"""
        cnt = 0
        for n, c in self.vars.items():
            if self._reach(c, cell, 0):
                cnt += 1
        return cnt

    def _reach(self, c, target, d):
        if c is target:
            return True
        if not isinstance(c, Cell) or d > 6:
            return False
        if c.kind in ("list", "set"):
            return any(self._reach(e, target, d + 1) for e in c.data)
        if c.kind == "map":
            return any(self._reach(v, target, d + 1) for _, v in c.data)
        return any(self._reach(v, target, d + 1) for v in c.data.values())

    def note_mutation(self, cell):
        if self.reachable_paths(cell) >= 2:
            self.paths_seen_mutation += 1
        if id(cell) in self.fresh_from_producer:
            self.producer_mutated = True

    # ---- steps
    def step(self):
        ch = self.ch
        choices = ["new"]
        if self.cells():
            choices += ["alias", "nest", "mutate", "mutate", "producer",
                        "producer", "call_mutator", "closure"]
        k = ch.choice(choices)
        getattr(self, "s_" + k)()

    def s_new(self):
        ch = self.ch
        name = self.new_name()
        kind = ch.choice(["list", "list", "set", "map", "object"])
        if kind == "list":
            data = [scalar(ch) for _ in range(ch.int(0, 3))]
            self.vars[name] = Cell("list", data)
            self.lines.append(f"def {name} = {mv.literal(data)}")
        elif kind == "set":
            data = mv.MSet([ch.choice([1, 2, 3, 4]) for _ in range(ch.int(0, 3))]).items
            self.vars[name] = Cell("set", list(data))
            self.lines.append(f"def {name} = set({mv.literal(list(data))})")
        elif kind == "map":
            keys = mv.MSet([ch.choice(["k1", "k2", "k3"])
                            for _ in range(ch.int(0, 2))]).items
            pairs = [(k, scalar(ch)) for k in keys]
            self.vars[name] = Cell("map", pairs)
            self.lines.append(f"def {name} = map({mv.literal([[k, v] for k, v in pairs])})")
        else:
            mem = {m: scalar(ch) for m in
                   mv.MSet([ch.choice(["m1", "m2"]) for _ in range(ch.int(0, 2))]).items}
            data = dict(mem)
            parts_ = [f"{k} = {mv.literal(v)}" for k, v in mem.items()]
            protos = self.of_kind("object")
            if protos and ch.bool(0.5):
                # prototype link: member assignment on the child must create
                # the child's own member and leave the prototype alone
                pn = ch.choice(protos)
                data = {"_proto_": self.vars[pn], **data}
                parts_.insert(0, f"_proto_ = {pn}")
            self.vars[name] = Cell("object", data)
            self.lines.append(f"def {name} = <*{', '.join(parts_)}*>")

    def s_alias(self):
        src = self.ch.choice(self.cells())
        name = self.new_name()
        self.vars[name] = self.vars[src]
        self.lines.append(f"def {name} = {src}")

    def s_nest(self):
        """store a container into a list / map / object container"""
        ch = self.ch
        inner = ch.choice(self.cells())
        outers = [n for n in self.cells()
                  if self.vars[n].kind in ("list", "map", "object")
                  and not self._reach(self.vars[inner], self.vars[n], 0)]
        if not outers:
            return self.s_new()
        outer = ch.choice(outers)
        oc, ic = self.vars[outer], self.vars[inner]
        if oc.kind == "list":
            oc.data.append(ic)
            self.lines.append(f"append({outer}, {inner})")
        elif oc.kind == "map":
            key = ch.choice(["k1", "k2", "k3"])
            self._map_put(oc, key, ic)
            self.lines.append(f"{outer}[{mv.literal(key)}] = {inner}")
        else:
            mem = ch.choice(["m1", "m2", "m3"])
            oc.data[mem] = ic
            self.lines.append(f"{outer}->{mem} = {inner}")
        self.note_mutation(oc)

    @staticmethod
    def _map_put(cell, key, val):
        for i, (k, _) in enumerate(cell.data):
            if k == key:
                cell.data[i] = (k, val)
                return
        cell.data.append((key, val))

    def path_to_cell(self):
        """pick an access path (expression) to some container: a variable or
        one level inside a container."""
        ch = self.ch
        name = ch.choice(self.cells())
        c = self.vars[name]
        if ch.bool(0.4):
            if c.kind == "list":
                idx = [i for i, e in enumerate(c.data) if isinstance(e, Cell)]
                if idx:
                    i = ch.choice(idx)
                    return f"{name}[{i}]", c.data[i]
            if c.kind == "map":
                ks = [k for k, v in c.data if isinstance(v, Cell)]
                if ks:
                    k = ch.choice(ks)
                    return f"{name}[{mv.literal(k)}]", dict(c.data)[k]
            if c.kind == "object":
                ms = [m for m, v in c.data.items() if isinstance(v, Cell)]
                if ms:
                    m = ch.choice(ms)
                    return f"{name}->{m}", c.data[m]
        return name, c

    def s_mutate(self):
        ch = self.ch
        expr, c = self.path_to_cell()
        v = scalar(ch)
        V = mv.literal(v)
        if c.kind == "list":
            op = ch.choice(["append", "insert", "delete", "assign", "remove",
                            "compound"])
            if op == "append":
                c.data.append(v)
                self.lines.append(f"append({expr}, {V})")
            elif op == "insert":
                i = ch.int(0, len(c.data))
                c.data.insert(i, v)
                self.lines.append(f"insert_at({expr}, {i}, {V})")
            elif op == "delete" and c.data:
                i = ch.int(0, len(c.data) - 1)
                del c.data[i]
                self.lines.append(f"delete_at({expr}, {i})")
            elif op == "assign" and c.data:
                i = ch.int(0, len(c.data) - 1)
                c.data[i] = v
                self.lines.append(f"{expr}[{i}] = {V}")
            elif op == "remove" and any(not isinstance(e, Cell)
                                        for e in c.data):
                e = ch.choice([e for e in c.data if not isinstance(e, Cell)])
                for i, x in enumerate(c.data):
                    if not isinstance(x, Cell) and mv.meq(x, e):
                        del c.data[i]
                        break
                self.lines.append(f"remove({expr}, {mv.literal(e)})")
            else:
                c.data.append(v)
                self.lines.append(f"{expr} !> append({V})")
        elif c.kind == "set":
            e = ch.choice([1, 2, 3, 4, 5])
            if ch.bool() or not any(mv.meq(e, x) for x in c.data):
                if not any(mv.meq(e, x) for x in c.data):
                    c.data.append(e)
                self.lines.append(f"append({expr}, {e})")
            else:
                c.data[:] = [x for x in c.data if not mv.meq(x, e)]
                self.lines.append(f"remove({expr}, {e})")
        elif c.kind == "map":
            key = ch.choice(["k1", "k2", "k3"])
            op = ch.choice(["put", "assign", "remove"])
            if op == "put":
                self._map_put(c, key, v)
                self.lines.append(f"put({expr}, {mv.literal(key)}, {V})")
            elif op == "assign":
                self._map_put(c, key, v)
                self.lines.append(f"{expr}[{mv.literal(key)}] = {V}")
            else:
                c.data[:] = [(k, x) for k, x in c.data if k != key]
                self.lines.append(f"remove({expr}, {mv.literal(key)})")
        else:
            mem = ch.choice(["m1", "m2", "m3"])
            c.data[mem] = v
            self.lines.append(f"{expr}->{mem} = {V}")
        self.note_mutation(c)

    def s_call_mutator(self):
        """pass a container to a user function that mutates its parameter"""
        ch = self.ch
        ls = self.lists()
        if not ls:
            return self.s_mutate()
        name = ch.choice(ls)
        c = self.vars[name]
        v = scalar(ch)
        c.data.append(v)
        self.lines.append(f"(fn(p) do append(p, {mv.literal(v)}); 0 end)({name})")
        self.note_mutation(c)

    def s_closure(self):
        """capture a container in a closure, mutate through the closure"""
        ch = self.ch
        ls = self.lists()
        if not ls:
            return self.s_mutate()
        name = ch.choice(ls)
        c = self.vars[name]
        v = scalar(ch)
        fname = self.new_name()
        self.lines.append(
            f"def {fname} = (fn(c) fn(x) do append(c, x); c end)({name})")
        self.vars[fname] = "closure"
        c.data.append(v)
        self.lines.append(f"{fname}({mv.literal(v)})")
        self.note_mutation(c)

    def s_producer(self):
        """non-mutating operation: result is a new top-level container"""
        ch = self.ch
        name = ch.choice(self.cells())
        c = self.vars[name]
        out = self.new_name()
        v = scalar(ch)
        if v is None:
            v = 0
        V = mv.literal(v)
        if c.kind == "list":
            op = ch.choice(["add-elem", "add-list", "sub", "mul", "slice",
                            "sublist", "reverse", "compr", "sorted-copy",
                            "zip", "unique", "list-plus-empty"])
            data = list(c.data)
            if op == "add-elem":
                new = data + [v]
                src = f"{name} + {V}"
            elif op == "add-list":
                new = data + data
                src = f"{name} + {name}"
            elif op == "sub":
                scal = [e for e in data if not isinstance(e, Cell)]
                new = [e for e in data
                       if isinstance(e, Cell) or not mv.meq(e, v)]
                src = f"{name} - [{V}]"
                if any(isinstance(e, Cell) for e in data):
                    # comparing containers with a scalar is fine (unequal)
                    pass
            elif op == "mul":
                new = data * 2
                src = f"{name} * 2"
            elif op == "slice":
                new = data[0:len(data)]
                src = f"{name}[0 to *]"
            elif op == "sublist":
                new = data[0:]
                src = f"sublist({name}, 0)"
            elif op == "reverse":
                new = data[::-1]
                src = f"List->reverse({name})"
            elif op == "compr":
                new = list(data)
                src = f"[e for e in {name}]"
            elif op == "zip":
                new = [Cell("list", [a, b]) for a, b in zip(data, data)]
                src = f"zip({name}, {name})"
            elif op == "unique" and not any(isinstance(e, Cell) for e in data):
                new = []
                for e in data:
                    if not any(mv.meq(e, x) for x in new):
                        new.append(e)
                src = f"List->unique({name})"
            elif op == "sorted-copy" and data and all(
                    isinstance(e, int) and not isinstance(e, bool)
                    for e in data):
                new = sorted(data)
                src = f"sorted({name})"
            else:
                new = data + []
                src = f"{name} + []"
            self.vars[out] = Cell("list", new)
        elif c.kind == "set":
            op = ch.choice(["union", "plus", "minus", "compr", "tolist"])
            data = list(c.data)
            e = ch.choice([1, 2, 3, 4, 5])
            if op == "union":
                new = Cell("set", list(mv.MSet(data + [e]).items))
                src = f"Set->union({name}, <<{e}>>)"
            elif op == "plus":
                new = Cell("set", list(mv.MSet(data + [e]).items))
                src = f"{name} + {e}"
            elif op == "minus":
                new = Cell("set", [x for x in data if not mv.meq(x, e)])
                src = f"{name} - <<{e}>>"
            elif op == "compr":
                new = Cell("set", list(data))
                src = f"<<e for e in {name}>>"
            else:
                new = Cell("list", mv.msorted(data))
                src = f"list({name})"
            self.vars[out] = new
        elif c.kind == "map":
            new = Cell("map", list(c.data))
            src = f"<<<e[0] => e[1] for e in entries {name}>>>"
            self.vars[out] = new
        else:
            new = Cell("map", [(k, x) for k, x in c.data.items()])
            src = f"map({name})"
            self.vars[out] = new
        self.fresh_from_producer.add(id(self.vars[out]))
        self.lines.append(f"def {out} = {src}")

    # ---- rendering / expected
    def observe_names(self):
        return [n for n, c in self.vars.items() if c != "closure"]

    def program(self):
        names = self.observe_names()
        return ("require List; require Set; " + "; ".join(self.lines)
                + "; [" + ", ".join(names) + "]")

    def expected(self):
        return [cell_to_model(self.vars[n]) for n in self.observe_names()]


def run_scenario(lines, names, expected_repr=None, expected=None):
    src = ("require List; require Set; " + "; ".join(lines)
           + "; [" + ", ".join(names) + "]")
    out = cklrun.run(src, budget=20)
    if out[0] != "value":
        return Finding(f"heap|{out[0]}" + (f"-{out[1]}" if out[0] == "host"
                                           else ""),
                       f"{src} -> {cklrun.short(out)}")
    try:
        got = cklrun.to_model(out[1])
    except cklrun.BadValue as e:
        return Finding("heap|badvalue", f"{src}: {e}")
    want = expected
    if not (isinstance(got, list) and len(got) == len(want)):
        return Finding("heap|shape", f"{src} -> {got!r}")
    for n, g, w in zip(names, got, want):
        if not (mv.meq(g, w) and mv.deep_type(g) == mv.deep_type(w)):
            # attribute the divergence to the last statement that names n or
            # an operation keyword
            op = _last_op(lines)
            return Finding(f"heap|alias-divergence|{op}",
                           f"{src}\n  variable {n} is {g!r}, heap model says "
                           f"{w!r}")
    return None


def _last_op(lines):
    import re
    for ln in reversed(lines):
        m = re.search(r"(append|insert_at|delete_at|remove|put|sorted|"
                      r"reverse|unique|zip|sublist|union|list|map|"
                      r"entries|\[0 to \*\]|\* 2| \+ | - |->\w+ =|\] =)", ln)
        if m:
            return m.group(1).strip()
    return "?"


def literal_sharing_prop():
    """A function with a string literal evaluated twice: element assignment
    on the result must not leak into the next evaluation."""
    src = ("def f() do def s = 'a'; s[0] = 'b'; s end; def g() 'a'; "
           "def x = g(); x[0] = 'z'; [f(), f(), g()]")
    out = cklrun.run(src, budget=20)
    if out[0] != "value":
        return Finding(f"literal|{out[0]}", f"{src} -> {cklrun.short(out)}")
    got = cklrun.to_model(out[1])
    if got != ["b", "b", "a"]:
        return Finding("literal|string-literal-object-shared-and-mutated",
                       f"{src} = {got!r}, expected ['b', 'b', 'a']: element "
                       f"assignment changed the literal itself")
    return None


def prop(case):
    k = case["kind"]
    if k in ("call", "form"):
        budget = float(os.environ.get("VF_CASE_BUDGET", "20"))
        return run_snap(case, budget)
    if k == "probe":
        return probe_prop(case["name"])
    if k == "fuzz":
        return run_fuzz_snap(case, float(os.environ.get("VF_CASE_BUDGET",
                                                        "20")))
    if k == "heap":
        want = [c13_dec(x) for x in case["expected"]]
        return run_scenario(case["lines"], case["names"], expected=want)
    if k == "literal":
        return literal_sharing_prop()
    raise ValueError(k)


def c13_dec(s):
    return eval(s, {"MSet": mv.MSet, "MMap": mv.MMap, "MObj": mv.MObj,
                    "__builtins__": {}}, {})


# --------------------------------------------------------------------- parts

def part_sweep_functions(part, shard, nshards, sample3):
    sw = sweeper()
    import random
    rnd = random.Random(part.seed)
    idx = 0
    for label, fn, names in sw.functions:
        idx += 1
        if idx % nshards != shard:
            continue
        declared = len([x for x in names if not x.endswith("...")])
        top = 3 if any(x.endswith("...") for x in names) else min(3, declared)
        for arity in range(1, top + 1):
            for args, shared in c13.tuples(sweep.N, arity):
                if not any(a in sweep.MUTABLE for a in args):
                    continue
                if arity == 3 and sample3 < 1.0 and rnd.random() >= sample3:
                    continue
                case = {"kind": "call", "fn": label, "args": args}
                if shared:
                    case["shared"] = True
                part.count()
                part.distinct()
                part.collect(run_snap(case), case)
        part.cls("function-swept", label if idx % 23 == 0 else None)
    part.exhaustive = sample3 >= 1.0
    sw.close()


def part_sweep_forms(part, shard, nshards, sample3):
    sw = sweeper()
    import random
    rnd = random.Random(part.seed)
    for k, form in enumerate(c13.FORMS):
        if k % nshards != shard:
            continue
        arity = c13.form_arity(form)
        for args, shared in c13.tuples(sweep.N, arity):
            if not any(a in sweep.MUTABLE for a in args):
                continue
            if arity == 3 and sample3 < 1.0 and rnd.random() >= sample3:
                continue
            case = {"kind": "form", "form": form, "args": args}
            if shared:
                case["shared"] = True
            part.count()
            part.distinct()
            part.collect(run_snap(case), case)
        part.cls("form-swept", form if k % 9 == 0 else None)
    part.exhaustive = sample3 >= 1.0
    sw.close()


def part_heap(part, n, steps):
    def body(tape):
        ch = TapeChooser(tape)
        sc = Scenario(ch)
        sc.s_new()
        for _ in range(ch.int(3, steps)):
            sc.step()
        names = sc.observe_names()
        want = sc.expected()
        part.count()
        if sc.paths_seen_mutation or sc.producer_mutated:
            part.nontriv(tuple(sc.lines))
        part.cls("heap:" + ("aliased-mutation" if sc.paths_seen_mutation
                            else "plain") +
                 (":producer-then-mutated" if sc.producer_mutated else ""),
                 "; ".join(sc.lines) if len(sc.lines) < 9 else None)
        f = run_scenario(sc.lines, names, expected=want)
        if f:
            return f, {"kind": "heap", "lines": sc.lines, "names": names,
                       "expected": [repr(w) for w in want]}
    part.hyp(tapes(600), body, n)


def part_fuzz(part, n):
    """Functions and forms applied to generated argument values (nested
    containers, containers of containers, callbacks that see the elements),
    snapshotted before and after."""
    sw = sweeper()
    fns = [(label, names) for label, f, names in sw.functions
           if label.split("->")[-1].split(":")[-1] not in c13.NO_FUZZ]

    def container_arg(ch):
        return ch.choice(c13.RICH_COLLECTIONS[:-2])

    def body(tape):
        ch = TapeChooser(tape)
        if ch.bool(0.75):
            label, names = fns[ch.int(0, len(fns) - 1)]
            declared = [x for x in names if not x.endswith("...")]
            rest = any(x.endswith("...") for x in names)
            top = 3 if rest else min(3, len(declared))
            k = ch.int(1, max(1, top))
            args = [container_arg(ch) if ch.bool(0.5) else c13.gen_arg(ch)
                    for _ in range(k)]
            argnames = [None] * k
            if ch.bool(0.15) and declared:
                # all arguments by name, in a shuffled order
                order = ch.shuffle(declared[:k])
                if len(order) == k:
                    argnames = order
            case = {"kind": "fuzz", "fn": label, "args": args,
                    "names": argnames}
        else:
            form = ch.choice(c13.FORMS)
            args = [container_arg(ch) if ch.bool(0.5) else c13.gen_arg(ch)
                    for _ in range(c13.form_arity(form))]
            case = {"kind": "fuzz", "form": form, "args": args}
        if len(case["args"]) >= 2 and ch.bool(0.1):
            case["shared"] = True
        part.count()
        part.nontriv((case.get("fn") or case.get("form"),
                      tuple(case["args"]), tuple(case.get("names") or ())))
        part.cls("fuzz:" + ("call" if case.get("fn") else "form"),
                 c13.describe_fuzz(case) if part.evaluations % 50 == 0
                 else None)
        f = run_fuzz_snap(case)
        if f is not None:
            part.collect(f, case)
        return None
    part.hyp(tapes(64), body, n, shrink=False)
    sw.close()


PROBES = [
    # (name, program, expected value)
    ("function-alias-keeps-hash",
     "def f = fn(x) x; def s = <<f>>; def m = <<<identity(f) => 1>>>; "
     "def g = f; [f in s, m[f], length(<<f, g>>), g in s]",
     [True, 1, 1, True]),
    ("builtin-alias-keeps-hash",
     "def s = <<length>>; def g = length; [length in s, g in s]",
     [True, True]),
    # shared by reference: a mutation is visible through every holder, also
    # through a set / a map that holds the value as element / key
    ("element-mutated-inside-set",
     "def l = [1]; def st = <<l>>; append(l, 2); "
     "[l in st, [1, 2] in st, length(remove(st, l))]", [True, True, 0]),
    ("key-mutated-inside-map",
     "def l = [1]; def m = <<<>>>; m[l] = 'v'; append(l, 2); "
     "[l in m, m[l], string(m)]", [True, "v", "<<<[1, 2] => 'v'>>>"]),
    # values produced by non-mutating operations are independent of their
    # inputs - also strings, which element assignment changes in place
    ("string-result-independent-of-input",
     "def s = 'abc'; def t = replace(s, 'zz', 'y'); t[0] = 'X'; [s, t]",
     ["abc", "Xbc"]),
    ("string-key-handed-out-by-iteration",
     "def m = <<<'abc' => 1>>>; for k in keys m do k[0] = 'X' end; "
     "['abc' in m, string(m)]", [True, "<<<'abc' => 1>>>"]),
]


def probe_prop(name):
    for n, src, want in PROBES:
        if n != name:
            continue
        out = cklrun.run(src, budget=20)
        if out[0] != "value":
            return Finding(f"C16|probe|{name}|{out[0]}",
                           f"{src} -> {cklrun.short(out)}; expected {want!r}")
        got = cklrun.to_model(out[1])
        if got != want:
            return Finding(f"C16|probe|{name}",
                           f"{src} -> {got!r}; expected {want!r}")
        return None
    raise ValueError(name)


def part_probes(part):
    for name, src, want in PROBES:
        part.count()
        part.distinct()
        part.cls("probe:" + name, src)
        part.collect(probe_prop(name), {"kind": "probe", "name": name})
    part.exhaustive = True


def part_literal(part):
    part.count()
    part.distinct(2)
    part.cls("literal-sharing", "def f() do def s = 'a'; s[0] = 'b'; s end")
    part.collect(literal_sharing_prop(), {"kind": "literal"})


def parts(tier, seed):
    if tier == "quick":
        ps = [(f"sweep-fn-{i}", part_sweep_functions,
               {"shard": i, "nshards": 8, "sample3": 0.05}) for i in range(8)]
        ps += [(f"sweep-forms-{i}", part_sweep_forms,
                {"shard": i, "nshards": 3, "sample3": 0.1}) for i in range(3)]
        ps += [(f"heap-{i}", part_heap, {"n": 1500, "steps": 16})
               for i in range(5)]
        ps += [("literal", part_literal, {}), ("probes", part_probes, {})]
        ps += [(f"fuzz-{i}", part_fuzz, {"n": 5000}) for i in range(6)]
    else:
        ps = [(f"sweep-fn-{i}", part_sweep_functions,
               {"shard": i, "nshards": 20, "sample3": 1.0})
              for i in range(20)]
        ps += [(f"sweep-forms-{i}", part_sweep_forms,
                {"shard": i, "nshards": 6, "sample3": 1.0}) for i in range(6)]
        ps += [(f"heap-{i}", part_heap, {"n": 20000, "steps": 24})
               for i in range(6)]
        ps += [("literal", part_literal, {}), ("probes", part_probes, {})]
        ps += [(f"fuzz-{i}", part_fuzz, {"n": 120000}) for i in range(8)]
    return ps
