"""C14 third hunt - reproductions.

Run:  cd /tmp/seed5/C14 && PYTHONPATH=/tmp/seed5/C14/src /venv/bin/python hunt/repro.py

Prints one line per finding: FINDING <n>: <VIOLATES|HOLDS> <description>
(plus RECHECK lines for the items of the second report that were repaired).
Behaviour of a program = (kind, rendered result or error value, stdout) where
kind is ok / rt (CklRuntimeError) / syn (CklSyntaxError) / pyexc / timeout.
"""
import io
import os
import signal
import sys

sys.path.insert(0, os.path.join(os.path.dirname(os.path.abspath(__file__)), "..", "src"))

from ckl.interpreter import Interpreter  # noqa: E402
from ckl.errors import CklRuntimeError, CklSyntaxError  # noqa: E402


class _Timeout(Exception):
    pass


def _alarm(signum, frame):
    raise _Timeout()


signal.signal(signal.SIGALRM, _alarm)


def run(src, legacy=True, secs=5):
    it = Interpreter(secure=False, legacy=legacy)
    out = io.StringIO()
    it.setStandardOutput(out)
    signal.alarm(secs)
    try:
        try:
            r = ("ok", str(it.interpret(src, "t.ckl")))
        except CklRuntimeError as e:
            r = ("rt", str(e.value))
        except CklSyntaxError:
            r = ("syn", "")
        except _Timeout:
            r = ("timeout", "")
        except RecursionError:
            r = ("pyexc", "RecursionError")
        except Exception as e:  # noqa: BLE001
            r = ("pyexc", type(e).__name__)
    finally:
        signal.alarm(0)
    return r + (out.getvalue(),)


def differs(pairs):
    """number of (a, b) pairs whose behaviour differs in legacy or non-legacy mode"""
    n = 0
    for a, b in pairs:
        if any(run(a, legacy=m) != run(b, legacy=m) for m in (True, False)):
            n += 1
    return n


def report(n, pairs, text):
    d = differs(pairs)
    print(f"FINDING {n}: {'VIOLATES' if d else 'HOLDS'} {text} ({d}/{len(pairs)} pairs differ)")


PRE = "def a = 0; def b = [1, 2, 3]; def t = TRUE; "

# 1 - parentheses around an expression whose first token is `do`
F1 = [
    ("def x = do 1; 2 end + 1; x", "def x = (do 1; 2 end + 1); x"),
    ("[do 1 end + 1]", "[(do 1 end + 1)]"),
    ("string(do 1 end + 1)", "string((do 1 end + 1))"),
    ("def f() return do 1 end + 1; f()", "def f() return (do 1 end + 1); f()"),
    ("if do TRUE end and TRUE then 1 else 2", "if (do TRUE end and TRUE) then 1 else 2"),
    ("1 + do 1; 2 end * 3", "1 + (do 1; 2 end * 3)"),
]

# 2 - the tail of an assignment / return / error / lambda ends at `end`; parentheses extend it
F2 = [
    (PRE + "a = if t then do 1 end else do 2 end + 10; a",
     PRE + "a = (if t then do 1 end else do 2 end) + 10; a"),
    (PRE + "a += if t then do 1 end else do 2 end * 5; a",
     PRE + "a += (if t then do 1 end else do 2 end) * 5; a"),
    (PRE + "b[0] = if t then do 1 end else do 2 end + 10; b",
     PRE + "b[0] = (if t then do 1 end else do 2 end) + 10; b"),
    (PRE + "def f(x) do return if x then do 1 end else do 2 end + 10 end; f(TRUE)",
     PRE + "def f(x) do return (if x then do 1 end else do 2 end) + 10 end; f(TRUE)"),
    (PRE + "do error if t then do 1 end else do 2 end + 10 catch 11 'eleven' catch 1 'one' end",
     PRE + "do error (if t then do 1 end else do 2 end) + 10 catch 11 'eleven' catch 1 'one' end"),
    (PRE + "a = if FALSE then do 1 end else do 2 end + 10; a",
     PRE + "a = if FALSE then do 1 end else (do 2 end) + 10; a"),
    ("def z = fn(x) do x end != 1; z", "def z = fn(x) (do x end) != 1; z"),
    ("fn() do 1 end is func", "fn() (do 1 end) is func"),
    ("def f = fn() 1; fn() do 1 end == f", "def f = fn() 1; fn() (do 1 end) == f"),
]

# 3 - a postfix predicate is applied once, to a primary only
F3 = [
    (PRE + "1 in b is boolean", PRE + "(1 in b) is boolean"),
    ("'' is empty is boolean", "('' is empty) is boolean"),
    (PRE + "a is zero is not boolean", PRE + "(a is zero) is not boolean"),
    (PRE + "a is zero is zero", PRE + "(a is zero) is zero"),
    (PRE + "a = 1 in b in [FALSE]; a", PRE + "a = (1 in b) in [FALSE]; a"),
    (PRE + "b[0] = 1 in b in [FALSE]; b", PRE + "b[0] = (1 in b) in [FALSE]; b"),
]

# 4 - value-less return in front of a closing token the repair does not list
F4 = [
    ("def o = <* f(self) (return) *>; o->f()", "def o = <* f(self) return *>; o->f()"),
    ("def m = <<<1 => fn() (return)>>>; m[1]()", "def m = <<<1 => fn() return>>>; m[1]()"),
    ("def s = <<fn() (return)>>; 1", "def s = <<fn() return>>; 1"),
    ("def l = [fn() (return) for x in [1]]; l[0]()", "def l = [fn() return for x in [1]]; l[0]()"),
]

report(1, F1, "parentheses around an expression that starts with a do block are a syntax error")
report(2, F2, "parentheses around the value of an assignment/return/error or the body of a lambda "
              "that ends in `end` change what the following operator applies to")
report(3, F3, "parentheses around `x in l` / `x is empty` change a following `is <type>` / `in` / "
              "`contains` from comparison-with-variable (or predicate on the assignment) to predicate")
report(4, F4, "value-less return before `*>`, `>>`, `>>>`, `for` needs parentheses "
              "(neighbour of the repaired (return) item)")

# 5 - doubtful: the same text gives different results from run to run
prog = "[f() for f in <<fn() 1, fn() 2, fn() 3, fn() 4>>]"
layouts = [prog, prog.replace(", ", ",\n"), prog.replace("<<", "<< # c\n"), "(" + prog + ")"]
seen = set()
for _ in range(6):
    for p in layouts:
        seen.add(run(p))
print(f"FINDING 5: {'VIOLATES' if len(seen) > 1 else 'HOLDS'} (doubtful) iteration order of a set of "
      f"anonymous functions varies between runs and renderings ({len(seen)} different results)")

# repaired items of the second report
R = [
    ("def f(x) do if x then return; 1 end; f(TRUE)", "def f(x) do if x then (return); 1 end; f(TRUE)"),
    ("def f(x) do if x then return; 1 end; f(TRUE)", "def f(x) do (if x then return); 1 end; f(TRUE)"),
    ("def f() return; f()", "def f() (return); f()"),
    ("def f() return; f()", "(def f() return); f()"),
    ("return", "(return)"),
    ("def f(x) if x then return else 5; f(TRUE)", "def f(x) if x then (return) else 5; f(TRUE)"),
    ("-0.0", "-(0.0)"),
    ("def f() do if TRUE then do return; end; 1 end; f()", "def f() do if TRUE then do return end; 1 end; f()"),
]
d = differs(R)
print(f"RECHECK: {'FAILS' if d else 'HOLDS'} repaired items of the first/second report "
      f"((return), -(0.0), return before end) ({d}/{len(R)} pairs differ)")
