"""C18  String functions satisfy the algebra of strings."""
import itertools
import re

from vf.core import Finding
from vf.gen.chooser import TapeChooser, tapes
from vf.model import values as mv
from vf import cklrun

PROPERTY = "C18"
RULE = (
    "Strings of length 0-12 over an adversarial alphabet (separators, regex "
    "metacharacters, both quotes, backslash, TAB, LF, CR, braces, #, "
    "non-ASCII) in pairs (s, t) where t is often a substring, a self-"
    "overlapping part or a separator of s, plus all pairs from the "
    "exhaustive set of strings of length <= 2 (quick) / 3 (thorough) over "
    "{a, |, ', TAB}. Oracles are host-string definitions and mutual "
    "consistency: split/join inverse on literal separators, replace = "
    "left-to-right non-overlapping substitution, reverse involution, "
    "upper/lower/trim idempotent (trim removes exactly surrounding white "
    "space), contains <=> find >= 0 <=> in <=> decomposition, starts_with / "
    "ends_with, length(a+b), chr(ord(c)), lines/unlines, words/unwords; "
    "s/sprintf: text outside placeholders unchanged, placeholder replaced by "
    "the value's string form, padded / rounded / hex as the format says. "
    "Non-trivial = the part contains a quote, TAB, backslash, regex "
    "metacharacter or brace, or overlaps itself."
)
ASSUMPTIONS = [
    "separators and replaced parts are non-empty",
    "split(join(parts, sep)) is checked for non-empty lists of sep-free "
    "parts other than ['']",
    "s/sprintf placeholders are variables / argument indices; the text "
    "between placeholders contains no braces",
]

ALPHABET = list("ab|.,; *+?()[]{}^$\\'\"\t\n\r#-<>/&é") + ["ab", "||", "\\|",
                                                             "{0}", "''"]
META = set("|.*+?()[]{}^$\\'\"\t\n\r#")
WS = " \t\n\r"


def gen_str(ch, maxlen=12, alphabet=ALPHABET):
    n = ch.weighted([(1, 0), (2, 1), (2, 2), (6, None)])
    if n is None:
        n = ch.int(0, maxlen)
    out = ""
    while len(out) < n:
        out += ch.choice(alphabet)
    return out[:maxlen]


def L(s):
    return mv.render_string(s)


def py_replace(s, a, b):
    return s.replace(a, b)


def judge_batch(label_prefix, pre, items):
    """items: [(label, expr, predicate or expected value)]"""
    res = cklrun.run_batch(pre, [e for _, e, _ in items])
    for (label, e, want), r in zip(items, res):
        if r[0] != "ok":
            return Finding(f"C18|{label}|{r[0]}" +
                           (f"-{r[1]}" if r[0] == "host" else ""),
                           f"{pre}; {e} -> {r}")
        got = r[1]
        if callable(want):
            ok, why = want(got)
            if not ok:
                return Finding(f"C18|{label}", f"{pre}; {e} = {got!r}: {why}")
        elif not (type(got) is type(want) and got == want):
            return Finding(f"C18|{label}", f"{pre}; {e} = {got!r}, "
                           f"expected {want!r}")
    return None


def check_pair(s, t):
    """Laws over a string s and a part t."""
    pre = f"def s = {L(s)}; def t = {L(t)}"
    items = []
    idx = s.find(t)
    items += [
        ("contains", "contains(s, t)", t in s),
        ("in", "t in s", t in s),
        ("find", "find(s, t)", idx),
        ("contains-iff-find", "contains(s, t) == (find(s, t) >= 0)", True),
        ("starts_with", "starts_with(s, t)", s.startswith(t)),
        ("ends_with", "ends_with(s, t)", s.endswith(t)),
        ("starts-with-concat", "starts_with(t + s, t)", True),
        ("ends-with-concat", "ends_with(s + t, t)", True),
        ("contains-concat", "contains(s + t + s, t)", True),
        ("length-add", "length(s + t)", len(s) + len(t)),
        ("length", "length(s)", len(s)),
        ("reverse", "reverse(s)", s[::-1]),
        ("reverse-involution", "reverse(reverse(s)) == s", True),
        ("upper-idempotent", "upper(upper(s)) == upper(s)", True),
        ("lower-idempotent", "lower(lower(s)) == lower(s)", True),
        ("trim-idempotent", "trim(trim(s)) == trim(s)", True),
        ("trim", "trim(s)", lambda g: _trim_ok(s, g)),
        ("upper-ascii", "upper(s)", lambda g: _case_ok(s, g, str.upper)),
        ("lower-ascii", "lower(s)", lambda g: _case_ok(s, g, str.lower)),
        ("is-starts-with", "s starts with t", s.startswith(t)),
        ("is-ends-with", "s ends with t", s.endswith(t)),
        ("is-contains", "s contains t", t in s),
    ]
    if idx >= 0:
        items.append(("decomposition",
                      "substr(s, 0, find(s, t)) + t + "
                      "substr(s, find(s, t) + length(t)) == s", True))
    if t != "":
        items += [
            ("find_last", "find_last(s, t)", s.rfind(t)),
            ("replace", f"replace(s, t, {L('<>')})", py_replace(s, t, "<>")),
            ("replace-grow", "replace(s, t, t + t)", py_replace(s, t, t + t)),
            ("replace-delete", "replace(s, t, '')", py_replace(s, t, "")),
            ("replace-identity", "replace(s, t, t) == s", True),
            ("split-join", "join(split(s, escape_pattern(t)), t) == s", True),
            ("split", "split(s, escape_pattern(t))",
             [] if s == "" else s.split(t)),
            ("count-via-split",
             "length(split(t + s + t, escape_pattern(t)))",
             len((t + s + t).split(t))),
            ("matches-escaped", "matches(t, escape_pattern(t))", True),
        ]
    if s != "":
        items += [
            ("chr-ord", "chr(ord(s))", s[0]),
            ("ord", "ord(s)", ord(s[0])),
            ("first-char", "s[0]", s[0]),
        ]
    return judge_batch("pair", pre, items)


def _trim_ok(s, g):
    if not isinstance(g, str):
        return False, "not a string"
    if g and (g[0].isspace() or g[-1].isspace()):
        return False, "result has surrounding white space"
    i = s.find(g) if g else 0
    if g:
        if i < 0:
            return False, "result is not a part of the input"
        if s[:i].strip() != "" or s[i + len(g):].strip() != "":
            return False, "removed something other than white space"
    elif s.strip() != "":
        return False, "removed non white space"
    return True, ""


def _case_ok(s, g, fn):
    if not isinstance(g, str):
        return False, "not a string"
    if s.isascii():
        return g == fn(s), f"expected {fn(s)!r}"
    return True, ""


def check_parts(parts_, sep):
    """parts_: non-empty list of sep-free strings, not ['']."""
    pre = f"def parts = {mv.literal(parts_)}; def sep = {L(sep)}"
    joined = sep.join(parts_)
    items = [
        ("join", "join(parts, sep)", joined),
        ("join-split", "split(join(parts, sep), escape_pattern(sep)) == parts",
         True),
        ("join-length", "length(join(parts, sep))", len(joined)),
        ("join-swapped-args", "join(sep, parts) == join(parts, sep)", True),
    ]
    return judge_batch("parts", pre, items)


def check_lines(lines_):
    """lines_: non-empty list of strings without CR/LF, not ['']."""
    pre = f"def ls = {mv.literal(lines_)}"
    items = [
        ("unlines", "unlines(ls)", "\n".join(lines_)),
        ("lines-unlines", "lines(unlines(ls)) == ls", True),
        ("lines-crlf", f"lines(join(ls, {L(chr(13) + chr(10))})) == ls", True),
    ]
    words_ = [w for w in (re.sub(r"[ \t\r\n]+", "", x) for x in lines_) if w]
    if words_:
        items += [("words-unwords",
                   f"words(unwords({mv.literal(words_)})) == "
                   f"{mv.literal(words_)}", True),
                  ("unwords", f"unwords({mv.literal(words_)})",
                   " ".join(words_))]
    return judge_batch("lines", pre, items)


# ---------------------------------------------------------------- s / sprintf

def fmt_expect(value, spec):
    """Acceptable outputs for one placeholder, as a predicate on the produced
    field text.  value: str | int | float."""
    base = value if isinstance(value, str) else (
        str(value) if isinstance(value, int) else None)
    left = spec.get("left", False)
    zero = spec.get("zero", False)
    width = spec.get("width", 0)
    digits = spec.get("digits")
    hexa = spec.get("hex", False)

    def pred(field):
        core = field
        if len(field) < width:
            return False, f"shorter than the width {width}"
        if len(field) > width:
            pad = ""
        else:
            pad = None
        # strip padding
        if hexa:
            want = format(value, "x")
            body = _strip_pad(field, want, left, zero)
            return (body == want, f"expected hexadecimal {want!r}")
        if digits is not None:
            import re as _re
            if not _re.fullmatch(r" *-?[0-9]+(\.[0-9]+)? *", field):
                # a padded field is still a positional numeral: blanks
                # outside, sign first, then digits (zeroes after the sign)
                return False, "not a positional numeral"
            body = field.strip(" ")
            if zero:
                sign = "-" if body.startswith("-") else ""
                body = sign + (body[len(sign):].lstrip("0") or "0")
            if zero and body.lstrip("-").startswith("."):
                body = body.replace(".", "0.", 1)
            try:
                x = float(body)
            except ValueError:
                return False, "not a numeral"
            frac = body.split(".")[1] if "." in body else ""
            if len(frac) > max(digits, 1):
                return False, f"more than {digits} fractional digits"
            tol = 0.5 * 10 ** (-digits) * (1 + 1e-9) + abs(value) * 1e-15
            return (abs(x - value) <= tol,
                    f"not within half a unit of the last place of {value!r}")
        want = base if base is not None else None
        if want is None:      # decimal without precision: rendered value
            want = mv.decimal_literal(value)
        body = _strip_pad(field, want, left, zero)
        return (body == want, f"expected the text {want!r} padded to {width}")
    return pred


def _strip_pad(field, want, left, zero):
    if len(field) <= len(want):
        return field
    extra = len(field) - len(want)
    if zero:
        if want.startswith("-"):      # zeroes go between sign and digits
            return want if field == "-" + "0" * extra + want[1:] else field
        return field[extra:] if field[:extra] == "0" * extra else field
    if left:
        return field[:len(want)] if field[len(want):] == " " * extra else field
    return field[extra:] if field[:extra] == " " * extra else field


def spec_text(spec):
    t = ""
    if spec.get("left"):
        t += "-"
    if spec.get("zero"):
        t += "0"
    if spec.get("width"):
        t += str(spec["width"])
    if spec.get("digits") is not None:
        t += "." + str(spec["digits"])
    if spec.get("hex"):
        t += "x"
    return ("#" + t) if t else ""


def check_interp(texts, fields, via):
    """texts: len(fields)+1 brace-free literal pieces; fields: list of
    (value, spec).  via: 's' (variables v0..) or 'sprintf' (indices)."""
    fmt = texts[0]
    for i, (val, spec) in enumerate(fields):
        name = f"v{i}" if via == "s" else str(i)
        fmt += "{" + name + spec_text(spec) + "}" + texts[i + 1]
    if via == "s":
        defs = "; ".join(f"def v{i} = {mv.literal(v)}"
                         for i, (v, _) in enumerate(fields))
        src_pre = defs
        expr = f"s({L(fmt)})"
    else:
        src_pre = ""
        expr = f"sprintf({L(fmt)}" + "".join(
            ", " + mv.literal(v) for v, _ in fields) + ")"
    r = cklrun.run_batch(src_pre, [expr])[0]
    label = via
    if r[0] != "ok":
        return Finding(f"C18|{label}|{r[0]}" +
                       (f"-{r[1]}" if r[0] == "host" else ""),
                       f"{src_pre}; {expr} -> {r}")
    got = r[1]
    if not isinstance(got, str):
        return Finding(f"C18|{label}|not-a-string", f"{expr} = {got!r}")
    # match: texts are literal anchors; backtrack over the split points
    if not got.startswith(texts[0]):
        return Finding(f"C18|{label}|text-outside-placeholders-changed",
                       f"{src_pre}; {expr} = {got!r}")
    fail = {"i": -1, "why": ""}

    def match(i, pos):
        if i == len(fields):
            return pos == len(got)
        val, spec = fields[i]
        nxt = texts[i + 1]
        pred = fmt_expect(val, spec)
        for e in range(pos, len(got) + 1):
            if not got.startswith(nxt, e):
                continue
            good, why = pred(got[pos:e])
            if good:
                if match(i + 1, e + len(nxt)):
                    return True
            elif i >= fail["i"]:
                fail["i"], fail["why"] = i, why
        return False

    if not match(0, len(texts[0])):
        i = max(fail["i"], 0)
        val, spec = fields[i]
        anchors_ok = _rest_ok(got, len(texts[0]), texts, fields, 0)
        if not anchors_ok:
            return Finding(f"C18|{label}|text-outside-placeholders-changed",
                           f"{src_pre}; {expr} = {got!r}")
        return Finding(
            f"C18|{label}|placeholder-" +
            ("format" if spec_text(spec) else "value"),
            f"{src_pre}; {expr} = {got!r}; field {i} "
            f"({val!r}{spec_text(spec)}): {fail['why']}")
    return None


def _rest_ok(got, pos, texts, fields, i):
    # cheap lookahead: the remaining literal pieces occur in order
    for j in range(i, len(fields)):
        k = got.find(texts[j + 1], pos)
        if k < 0:
            return False
        pos = k + len(texts[j + 1])
    return True


def gen_field(ch, via):
    k = ch.int(0, 3)
    spec = {}
    if k == 0:
        val = gen_str(ch, 6)
        if ch.bool(0.5):
            spec["width"] = ch.int(1, 9)
            spec["left"] = ch.bool()
    elif k == 1:
        val = ch.int(-1000, 100000)
        w = ch.int(0, 3)
        if w == 1:
            spec["width"] = ch.int(1, 8)
            spec["left"] = ch.bool()
        elif w == 2:
            spec["width"] = ch.int(1, 8)
            spec["zero"] = True
        elif w == 3:
            spec["hex"] = True
            if ch.bool():
                spec["width"] = ch.int(1, 8)
                spec["zero"] = True
    elif k == 2:
        val = ch.choice([1.2345678, 3.14159, 0.5, 2.0, 10.25, 99.999, 0.125,
                         123.456, 1.005, 7.0, -3.14159, -0.5, -99.999,
                         0.0000123, 0.00001234, -0.000002, 123456789.125,
                         1e15, 999.999, 12, -7, 12345678901234567890,
                         9007199254740993])
        if ch.bool(0.7):
            spec["digits"] = ch.int(0, 4)
            if ch.bool(0.4):
                spec["width"] = ch.int(1, 9)
                spec["zero"] = ch.bool()
    else:
        val = ch.int(0, 9)
    return val, spec


def prop(case):
    k = case["kind"]
    if k == "pair":
        return check_pair(case["s"], case["t"])
    if k == "parts":
        return check_parts(case["parts"], case["sep"])
    if k == "lines":
        return check_lines(case["lines"])
    if k == "interp":
        return check_interp(case["texts"],
                            [(v, sp) for v, sp in case["fields"]],
                            case["via"])
    raise ValueError(k)


def nontrivial_part(t):
    return any(c in META for c in t) or (len(t) >= 2 and (t + t).find(t, 1) < len(t))


# --------------------------------------------------------------------- parts

def part_pairs(part, n):
    def body(tape):
        ch = TapeChooser(tape)
        s = gen_str(ch)
        k = ch.int(0, 4)
        if k == 0 and s:
            a = ch.int(0, len(s) - 1)
            t = s[a:a + ch.int(1, 3)]
        elif k == 1:
            t = gen_str(ch, 3)
        elif k == 2:
            t = ch.choice(ALPHABET)
            if ch.bool():
                s = t.join(gen_str(ch, 4) for _ in range(ch.int(1, 4)))
        elif k == 3:
            u = ch.choice(["a", "ab", "|", "'", "\\", ".", "aa", "aba", "\t"])
            t = u
            s = "".join(ch.choice([u, u, "a", "b", "x"])
                        for _ in range(ch.int(0, 6)))
        else:
            t = gen_str(ch, 2)
        s = s[:12]
        part.count()
        if nontrivial_part(t):
            part.nontriv((s, t))
        part.cls("pair", repr((s, t)))
        f = check_pair(s, t)
        if f:
            return f, {"kind": "pair", "s": s, "t": t}
    part.hyp(tapes(200), body, n)


def part_long(part):
    """"On all strings": the same pair checks on long strings with many
    occurrences (the statement's laws do not depend on the length)."""
    cases = []
    for n in (100, 246, 247, 248, 600, 3000):
        cases += [("a" * n, "a"), ("ab" * n, "ab"), ("a" * n, "aa"),
                  ("<" * n, "<"), ("x|" * n, "|"), ("a" * n + "b", "b"),
                  ("ab" * n, "ba"), (" " * n, " ")]
    for s_, t in cases:
        part.count()
        part.distinct()
        part.cls("long-pair", repr((s_[:6] + "...", len(s_), t)))
        part.collect(check_pair(s_, t), {"kind": "pair", "s": s_, "t": t})
    part.exhaustive = True


def part_exhaustive(part, maxlen, shard, nshards):
    al = ["a", "|", "'", "\t"]
    strs = [""]
    for n in range(1, maxlen + 1):
        strs += ["".join(p) for p in itertools.product(al, repeat=n)]
    k = 0
    for s in strs:
        for t in strs:
            k += 1
            if k % nshards != shard:
                continue
            part.count()
            if nontrivial_part(t):
                part.distinct()
            part.collect(check_pair(s, t), {"kind": "pair", "s": s, "t": t})
    part.cls(f"exhaustive-pairs<= {maxlen}", "all (s, t) over {a | ' TAB}")
    part.exhaustive = True


def part_parts(part, n):
    def body(tape):
        ch = TapeChooser(tape)
        sep = ch.choice(ALPHABET + [",", "|", ".", "--", "\t", " ", "a"])
        if sep == "":
            sep = ","
        m = ch.int(1, 5)
        ps = []
        for _ in range(m):
            p = gen_str(ch, 5)
            while sep in p:
                p = p.replace(sep, "")
            ps.append(p)
        # joined parts must not create new separator occurrences
        joined = sep.join(ps)
        if ps == [""] or joined.split(sep) != ps:
            part.excluded["by-construction:ambiguous-join"] += 1
            return None
        part.count()
        if nontrivial_part(sep):
            part.nontriv((ps, sep))
        part.cls("parts", repr((ps, sep)))
        f = check_parts(ps, sep)
        if f:
            return f, {"kind": "parts", "parts": ps, "sep": sep}
        if ch.bool(0.3):
            ls = [re.sub(r"[\r\n]", "", p) for p in ps]
            if ls != [""] and not any(l == "" for l in ls[-1:]):
                f = check_lines(ls)
                part.count()
                if f:
                    return f, {"kind": "lines", "lines": ls}
    part.hyp(tapes(200), body, n)


def part_interp(part, n):
    text_al = list("ab .,:;|'\"\\\t#-<>/&é=()[]") + ["x ", " = "]

    def body(tape):
        ch = TapeChooser(tape)
        via = ch.choice(["s", "sprintf"])
        nf = ch.int(1, 3)
        fields = [gen_field(ch, via) for _ in range(nf)]
        texts = [gen_str(ch, 4, text_al) for _ in range(nf + 1)]
        # keep the literal anchors unambiguous: non-empty between fields
        for i in range(1, nf):
            if texts[i] == "":
                texts[i] = "|"
        part.count()
        strs = [v for v, _ in fields if isinstance(v, str)]
        if any(nontrivial_part(v) for v in strs) or \
                any(spec_text(sp) for _, sp in fields):
            part.nontriv((via, texts, repr(fields)))
        part.cls("interp:" + via, repr((texts, fields)))
        f = check_interp(texts, fields, via)
        if f:
            return f, {"kind": "interp", "texts": texts,
                       "fields": [[v, sp] for v, sp in fields], "via": via}
    part.hyp(tapes(200), body, n)


def parts(tier, seed):
    if tier == "quick":
        ps = [("long", part_long, {})]
        ps += [(f"pairs-{i}", part_pairs, {"n": 1000}) for i in range(5)]
        ps += [(f"exh-{i}", part_exhaustive,
                {"maxlen": 2, "shard": i, "nshards": 3}) for i in range(3)]
        ps += [(f"parts-{i}", part_parts, {"n": 1500}) for i in range(3)]
        ps += [(f"interp-{i}", part_interp, {"n": 1500}) for i in range(4)]
    else:
        ps = [("long", part_long, {})]
        ps += [(f"pairs-{i}", part_pairs, {"n": 30000}) for i in range(5)]
        ps += [(f"exh-{i}", part_exhaustive,
                {"maxlen": 3, "shard": i, "nshards": 4}) for i in range(4)]
        ps += [(f"parts-{i}", part_parts, {"n": 40000}) for i in range(3)]
        ps += [(f"interp-{i}", part_interp, {"n": 40000}) for i in range(4)]
    return ps
