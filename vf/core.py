"""Runner core: parts, accumulation, known findings, evidence, replay files.

A check module (vf/checks/cXX.py) provides

    PROPERTY   = "C07"
    RULE       = "how cases are generated and what makes one non-trivial"
    ASSUMPTIONS = [...]
    def parts(tier, seed) -> list of (name, function, kwargs)
    def prop(case) -> None | Finding          (case is a JSON-able dict)

Each part runs in its own worker process with its own seed and fills a `Part`
accumulator; the parent merges the parts, re-executes regression inputs and
known findings, writes evidence/<ID>.json and decides the exit status.
"""
import collections
import hashlib
import importlib
import json
import multiprocessing
import os
import signal
import sys
import time
import traceback

from vf.repo import VERIF_DIR, HarnessError

EXIT_OK, EXIT_VIOLATION, EXIT_HARNESS = 0, 1, 2
NCPU = 16


class CaseTimeout(BaseException):
    """Raised by time_limit; BaseException so that `except Exception` in the
    code under test cannot swallow it."""


class time_limit:
    def __init__(self, seconds):
        self.seconds = seconds

    def _handler(self, signum, frame):
        raise CaseTimeout()

    def __enter__(self):
        self.old = signal.signal(signal.SIGALRM, self._handler)
        # re-armed every 0.1 s: an exception raised by the handler while the
        # host runs a gc callback or a __del__ is swallowed ("Exception
        # ignored in ..."), so a single shot could be lost
        signal.setitimer(signal.ITIMER_REAL, self.seconds, 0.1)
        return self

    def __exit__(self, *exc):
        signal.setitimer(signal.ITIMER_REAL, 0)
        signal.signal(signal.SIGALRM, self.old)
        return False


class Finding:
    def __init__(self, signature, detail=""):
        self.signature = signature
        self.detail = detail

    def __repr__(self):
        return f"Finding({self.signature!r}, {self.detail!r})"


def h64(obj):
    if not isinstance(obj, (str, bytes)):
        obj = json.dumps(obj, sort_keys=True, default=repr)
    if isinstance(obj, str):
        obj = obj.encode("utf-8", "surrogatepass")
    return int.from_bytes(hashlib.blake2b(obj, digest_size=8).digest(), "big")


# --------------------------------------------------------------------------
# known findings

def load_known(property_id):
    path = os.path.join(VERIF_DIR, "known_findings.json")
    if not os.path.exists(path):
        return [], []
    with open(path, encoding="utf-8") as f:
        data = json.load(f)
    open_, fixed = [], []
    for e in data.get("findings", []):
        if e.get("property") != property_id:
            continue
        (open_ if e.get("status") == "open" else fixed).append(e)
    return open_, fixed


# --------------------------------------------------------------------------
# per-part accumulator

class _Fail(Exception):
    pass


class Part:
    MAX_SAMPLES_PER_CLASS = 2

    def __init__(self, property_id, name, tier, seed, known_signatures=()):
        self.property_id = property_id
        self.name = name
        self.tier = tier
        self.seed = seed
        self.known = set(known_signatures)
        self.evaluations = 0
        self.nontrivial = set()
        self.distinct_extra = 0        # distinct-by-construction cases
        self.classes = collections.Counter()
        self.samples = {}
        self.excluded = collections.Counter()
        self.timeouts = 0
        self.violations = []           # (signature, case, detail)
        self.notes = {}
        self.exhaustive = None
        self._last_fail = None

    # ---- counting
    def count(self, n=1):
        self.evaluations += n

    def nontriv(self, key):
        self.nontrivial.add(h64(key))

    def distinct(self, n=1):
        """n more non-trivial cases that are distinct by construction."""
        self.distinct_extra += n

    def cls(self, label, sample=None):
        self.classes[label] += 1
        if sample is not None:
            lst = self.samples.setdefault(label, [])
            if len(lst) < self.MAX_SAMPLES_PER_CLASS:
                lst.append(sample)

    def note(self, key, value):
        self.notes[key] = value

    # ---- verdicts
    def judge(self, finding, case):
        """Filter a finding through the known-findings list.  Returns the
        finding if it is a new violation, else None."""
        if finding is None:
            return None
        if finding.signature in self.known:
            self.excluded[finding.signature] += 1
            return None
        return finding

    def check(self, prop, case):
        """Evaluate prop(case) -> Finding|None, count it, filter known."""
        self.evaluations += 1
        return self.judge(prop(case), case)

    def violation(self, finding, case):
        self.violations.append((finding.signature, case, finding.detail))

    # ---- collect-all style (exhaustive sweeps): keep smallest per signature
    def collect(self, finding, case):
        f = self.judge(finding, case)
        if f is None:
            return
        size = len(json.dumps(case, default=repr))
        for i, (sig, c, d) in enumerate(self.violations):
            if sig == f.signature:
                if size < len(json.dumps(c, default=repr)):
                    self.violations[i] = (sig, case, f.detail)
                return
        self.violations.append((f.signature, case, f.detail))

    # ---- Hypothesis driver
    def hyp(self, strategy, body, max_examples, shrink=True, seed_offset=0,
            size_hint=None):
        """Run body(x) over the strategy.  body returns (finding, case) or
        None.  The first unknown finding is shrunk and recorded."""
        import hypothesis
        from hypothesis import given, settings, HealthCheck, Phase

        phases = [Phase.generate]
        if shrink:
            phases.append(Phase.shrink)
        part = self

        @hypothesis.seed(self.seed * 7919 + seed_offset)
        @settings(
            max_examples=max_examples,
            deadline=None,
            database=None,
            derandomize=False,
            report_multiple_bugs=False,
            phases=phases,
            suppress_health_check=list(HealthCheck),
            print_blob=False,
        )
        @given(strategy)
        def test(x):
            r = body(x)
            if r is None:
                return
            finding, case = r
            f = part.judge(finding, case)
            if f is not None:
                part._last_fail = (f, case)
                raise _Fail()

        self._last_fail = None
        try:
            test()
        except _Fail:
            f, case = self._last_fail
            self.violation(f, case)
        except CaseTimeout:
            raise
        except BaseException as e:  # hypothesis wraps / other errors
            if self._last_fail is not None and _is_fail(e):
                f, case = self._last_fail
                self.violation(f, case)
            else:
                raise

    def hyp_machine(self, machine_cls, max_examples, step_count, seed_offset=0):
        """Run a RuleBasedStateMachine class whose rules call
        self.part_fail(finding, case) on failure."""
        import hypothesis
        from hypothesis import settings, HealthCheck, Phase
        from hypothesis.stateful import run_state_machine_as_test

        self._last_fail = None
        st = settings(
            max_examples=max_examples,
            stateful_step_count=step_count,
            deadline=None,
            database=None,
            derandomize=False,
            report_multiple_bugs=False,
            suppress_health_check=list(HealthCheck),
            print_blob=False,
        )
        try:
            run_state_machine_as_test(
                hypothesis.seed(self.seed * 7919 + seed_offset)(machine_cls),
                settings=st,
            )
        except _Fail:
            f, case = self._last_fail
            self.violation(f, case)
        except CaseTimeout:
            raise
        except BaseException as e:
            if self._last_fail is not None and _is_fail(e):
                f, case = self._last_fail
                self.violation(f, case)
            else:
                raise

    def machine_fail(self, finding, case):
        f = self.judge(finding, case)
        if f is not None:
            self._last_fail = (f, case)
            raise _Fail()

    # ---- transport
    def to_dict(self):
        samples = []
        for label, lst in self.samples.items():
            for s in lst:
                samples.append({"class": label, "case": s})
        return {
            "name": self.name,
            "seed": self.seed,
            "evaluations": self.evaluations,
            "nontrivial": self.nontrivial,
            "distinct_extra": self.distinct_extra,
            "classes": dict(self.classes),
            "samples": samples,
            "excluded": dict(self.excluded),
            "timeouts": self.timeouts,
            "violations": self.violations,
            "notes": self.notes,
            "exhaustive": self.exhaustive,
        }


def _is_fail(e):
    seen = set()
    while e is not None and id(e) not in seen:
        seen.add(id(e))
        if isinstance(e, _Fail):
            return True
        subs = getattr(e, "exceptions", None)
        if subs:
            for s in subs:
                if _is_fail(s):
                    return True
        e = e.__cause__ or e.__context__
    return False


# --------------------------------------------------------------------------
# worker side

def _run_part(job):
    (modname, index, name, kwargs, tier, seed, known_sigs) = job
    t0 = time.time()
    try:
        from vf import repo
        repo.bootstrap()
        mod = importlib.import_module(modname)
        fn = None
        for n, f, kw in mod.parts(tier, seed):
            if n == name:
                fn = f
                kwargs = kw
                break
        if fn is None:
            raise HarnessError(f"part {name} not found in {modname}")
        part = Part(mod.PROPERTY, name, tier, seed * 1000 + index, known_sigs)
        fn(part, **kwargs)
        d = part.to_dict()
        d["wall_s"] = round(time.time() - t0, 2)
        return ("ok", d)
    except BaseException:
        return ("error", name + "\n" + traceback.format_exc())


# --------------------------------------------------------------------------
# parent side

def _write_violation(property_id, signature, case, detail, tier, seed):
    body = {
        "property": property_id,
        "signature": signature,
        "detail": detail,
        "case": case,
        "tier": tier,
        "seed": seed,
    }
    text = json.dumps(body, indent=1, sort_keys=True, default=repr)
    sha = hashlib.sha1(
        json.dumps({"s": signature, "c": case}, sort_keys=True,
                   default=repr).encode()
    ).hexdigest()[:12]
    d = os.path.join(VERIF_DIR, "findings", property_id)
    os.makedirs(d, exist_ok=True)
    path = os.path.join(d, sha + ".json")
    with open(path, "w", encoding="utf-8") as f:
        f.write(text + "\n")
    return os.path.relpath(path, VERIF_DIR)


def _guarded_prop(mod, case, budget=30.0):
    try:
        with time_limit(budget):
            return mod.prop(case)
    except CaseTimeout:
        return Finding("replay|timeout", f"no result within {budget}s")


def run_check(property_id, tier, seed, only_parts=None, survey=False,
              procs=NCPU):
    """Run one check inside a private scratch directory that is removed
    afterwards (workers may be terminated without running their cleanup)."""
    import shutil
    import tempfile
    scratch = tempfile.mkdtemp(prefix="vf_run_")
    os.environ["VF_SCRATCH"] = scratch
    tempfile.tempdir = scratch
    try:
        return _run_check(property_id, tier, seed, only_parts, survey, procs)
    finally:
        try:
            os.chdir(VERIF_DIR)
        except OSError:
            pass
        shutil.rmtree(scratch, ignore_errors=True)


def _run_check(property_id, tier, seed, only_parts=None, survey=False,
               procs=NCPU):
    t0 = time.time()
    modname = f"vf.checks.{property_id.lower()}"
    from vf import repo
    repo.bootstrap()
    mod = importlib.import_module(modname)
    open_known, fixed_known = load_known(property_id)
    known_sigs = [] if survey else [e["signature"] for e in open_known]

    out_violations = []   # (signature, case, detail, origin)
    lines = []

    # 1. regression inputs (fixed findings and saved cases): must pass
    regdir = os.path.join(VERIF_DIR, "replay", property_id)
    n_regress = 0
    if os.path.isdir(regdir):
        for fn in sorted(os.listdir(regdir)):
            if not fn.endswith(".json"):
                continue
            with open(os.path.join(regdir, fn), encoding="utf-8") as f:
                body = json.load(f)
            n_regress += 1
            fnd = _guarded_prop(mod, body["case"])
            if fnd is not None and fnd.signature not in known_sigs:
                out_violations.append(
                    (fnd.signature, body["case"], fnd.detail,
                     os.path.join("replay", property_id, fn)))

    # 2. open known findings: report the ones that still fail
    known_report = []
    for e in open_known:
        still = False
        for ex in e.get("examples", [e.get("example")]):
            if ex is None:
                continue
            fnd = _guarded_prop(mod, ex)
            if fnd is not None and fnd.signature == e["signature"]:
                still = True
                break
        known_report.append({"signature": e["signature"], "still_fails": still})
        if still:
            lines.append(
                f"KNOWN-FINDING: property={property_id} {e['what']}")

    # 3. the parts
    plist = mod.parts(tier, seed)
    jobs = []
    for i, (name, fn, kw) in enumerate(plist):
        if only_parts and name not in only_parts:
            continue
        jobs.append((modname, i, name, kw, tier, seed, known_sigs))
    results = []
    errors = []
    budget = float(os.environ.get(
        "VERIF_PART_BUDGET", "900" if tier == "quick" else "14400"))
    if jobs:
        ctx = multiprocessing.get_context("fork")
        nproc = max(1, min(procs, len(jobs)))
        pool = ctx.Pool(nproc, maxtasksperchild=1)
        try:
            asyncs = [(j, pool.apply_async(_run_part, (j,))) for j in jobs]
            deadline = time.time() + budget
            for j, a in asyncs:
                try:
                    status, payload = a.get(max(1.0, deadline - time.time()))
                except multiprocessing.TimeoutError:
                    errors.append(f"part {j[2]}: no result within {budget}s")
                    continue
                if status == "ok":
                    results.append(payload)
                else:
                    errors.append(payload)
        finally:
            pool.terminate()
            pool.join()

    # 4. merge
    evaluations = n_regress
    nontrivial = set()
    distinct_extra = 0
    classes = collections.Counter()
    samples = []
    excluded = collections.Counter()
    timeouts = 0
    part_summaries = []
    notes = {}
    exhaustive_flags = []
    for d in results:
        evaluations += d["evaluations"]
        nontrivial |= d["nontrivial"]
        distinct_extra += d["distinct_extra"]
        classes.update(d["classes"])
        samples.extend(d["samples"])
        excluded.update(d["excluded"])
        timeouts += d["timeouts"]
        for (sig, case, detail) in d["violations"]:
            out_violations.append((sig, case, detail, None))
        part_summaries.append({
            "part": d["name"], "evaluations": d["evaluations"],
            "distinct_nontrivial": len(d["nontrivial"]) + d["distinct_extra"],
            "wall_s": d["wall_s"], "exhaustive": d["exhaustive"],
        })
        if d["notes"]:
            notes[d["name"]] = d["notes"]
        if d["exhaustive"] is not None:
            exhaustive_flags.append(d["exhaustive"])

    # one violation per signature
    seen = set()
    vio_paths = []
    for (sig, case, detail, origin) in out_violations:
        if sig in seen:
            continue
        seen.add(sig)
        path = origin or _write_violation(
            property_id, sig, case, detail, tier, seed)
        vio_paths.append((sig, path, detail))

    # keep evidence samples small: at most 12, spread over classes
    picked = []
    by_class = collections.OrderedDict()
    for s in samples:
        by_class.setdefault(s["class"], []).append(s)
    while len(picked) < 12 and any(by_class.values()):
        for k in list(by_class):
            if by_class[k] and len(picked) < 12:
                picked.append(by_class[k].pop(0))

    coverage = {
        "evaluations": int(evaluations),
        "distinct_nontrivial": int(len(nontrivial) + distinct_extra),
        "rule": mod.RULE,
        "samples": picked,
        "classes": dict(sorted(classes.items())),
        "excluded_known": dict(excluded),
        "inconclusive_timeouts": int(timeouts),
        "regression_inputs_replayed": n_regress,
        "known_findings": known_report,
        "parts": part_summaries,
    }
    if exhaustive_flags:
        coverage["exhaustive"] = bool(all(exhaustive_flags)) and \
            len(exhaustive_flags) == len(part_summaries)
        coverage["exhaustive_parts"] = [
            p["part"] for p in part_summaries if p["exhaustive"]]
    if notes:
        coverage["notes"] = notes
    if errors:
        coverage["harness_errors"] = [e[-2000:] for e in errors]
    evidence = {
        "property_id": property_id,
        "tier": tier,
        "seed": int(seed),
        "level": "exploration",
        "coverage": coverage,
        "assumptions": list(getattr(mod, "ASSUMPTIONS", [])),
        "wall_s": round(time.time() - t0, 2),
        "violations": len(vio_paths),
    }
    if not only_parts and not survey:
        os.makedirs(os.path.join(VERIF_DIR, "evidence"), exist_ok=True)
        with open(os.path.join(VERIF_DIR, "evidence", property_id + ".json"),
                  "w", encoding="utf-8") as f:
            json.dump(evidence, f, indent=1, sort_keys=True, default=repr)
            f.write("\n")

    for ln in lines:
        print(ln)
    for sig, path, detail in vio_paths:
        print(f"VIOLATION property={property_id} replay={path}")
        print(f"  signature: {sig}")
        print(f"  detail: {str(detail)[:600]}")
    print(f"{property_id} tier={tier} seed={seed}: evaluations={evaluations} "
          f"distinct_nontrivial={coverage['distinct_nontrivial']} "
          f"excluded_known={sum(excluded.values())} timeouts={timeouts} "
          f"violations={len(vio_paths)} wall={evidence['wall_s']}s")
    if errors:
        for e in errors:
            print("HARNESS-ERROR:", e, file=sys.stderr)
        if not vio_paths:
            return EXIT_HARNESS
    return EXIT_VIOLATION if vio_paths else EXIT_OK


def replay_file(path):
    from vf import repo
    repo.bootstrap()
    with open(path, encoding="utf-8") as f:
        body = json.load(f)
    mod = importlib.import_module(f"vf.checks.{body['property'].lower()}")
    fnd = _guarded_prop(mod, body["case"], budget=60.0)
    if fnd is None:
        print(f"replay {path}: property {body['property']} holds on this case")
        return EXIT_OK
    print(f"VIOLATION property={body['property']} replay={path}")
    print(f"  signature: {fnd.signature}")
    print(f"  detail: {str(fnd.detail)[:2000]}")
    return EXIT_VIOLATION
