"""Reproductions for the third C08 hunt (rendering is canonical / data
literals round-trip).  Run with:

  cd /tmp/seed6/C08 && PYTHONPATH=/tmp/seed6/C08/src /venv/bin/python hunt/repro.py

Prints one line per finding: FINDING <n>: <VIOLATES|HOLDS> <description>
"""
import itertools
import os
import signal
import sys

sys.path.insert(
    0, os.path.join(os.path.dirname(os.path.abspath(__file__)), "..", "src")
)

from ckl.interpreter import Interpreter  # noqa: E402
from ckl.errors import CklRuntimeError, CklSyntaxError  # noqa: E402


class Timeout(Exception):
    pass


def _alarm(*_):
    raise Timeout()


signal.signal(signal.SIGALRM, _alarm)


def interp(legacy=True):
    return Interpreter(secure=True, legacy=legacy)


def texts_of_all_orders(it, elems, opener="<<", closer=">>", suffix=""):
    texts = set()
    for perm in itertools.permutations(elems):
        src = opener + ", ".join(p + suffix for p in perm) + closer
        texts.add(str(it.interpret(src, "perm.ckl")))
    return texts


def finding1():
    """Sets and maps are ordered by their text but compared by value:
    <<1>> == <<1.0>>, while by text <<1.0>> < <<10>> < <<1>>.  Lists headed
    by them form a cycle, nothing is merged (the three lists are pairwise
    unequal), and the set of the three has no canonical text."""
    bad = []
    for legacy in (True, False):
        mode = "legacy" if legacy else "non-legacy"
        it = interp(legacy)
        # (a) not a fixed point: the text of a value evaluates to an equal
        #     value that renders to ANOTHER text
        src = "<<[<<1>>, 0], [<<10>>, 0], [<<1.0>>, 1]>>"
        v = it.interpret(src, "f1.ckl")
        t1 = str(v)
        w = it.interpret(t1, "f1.ckl")
        t2 = str(w)
        if v == w and t1 != t2:
            bad.append(f"{mode}: {src} renders as {t1}, which evaluates to "
                       f"an equal set that renders as {t2}")
        # the same inside the language
        r = it.interpret(
            "def v = " + src + "; "
            "[eval(string(v)) == v, string(eval(string(v))) == string(v)]",
            "f1.ckl")
        if str(r) == "[TRUE, FALSE]":
            bad.append(f"{mode}: eval(string(v)) == v but "
                       f"string(eval(string(v))) != string(v)")
        # (b) construction order: the same three elements, other order
        for elems in (
            ["[<<1>>, 0]", "[<<10>>, 0]", "[<<1.0>>, 1]"],
            ["[<<<0 => 1>>>, 0]", "[<<<0 => 10>>>, 0]", "[<<<0 => 1.0>>>, 1]"],
        ):
            texts = texts_of_all_orders(it, elems)
            if len(texts) > 1:
                bad.append(f"{mode}: the same 3 elements render as "
                           + " / ".join(sorted(texts)))
            texts = texts_of_all_orders(it, elems, "<<<", ">>>", " => 1")
            if len(texts) > 1:
                bad.append(f"{mode}: the same 3 map keys render as "
                           + " / ".join(sorted(texts)))
    return bad


def finding2():
    """A date renders as 14 digits and is compared with numbers by text,
    numbers with each other by value: 3 < 11 (value), '11' < '2024...' < '3'
    (text).  A set / map holding a date and two ints renders in an order
    that depends on how it was built.  (Dates are not among the data values
    of the statement, hence doubtful.)"""
    bad = []
    it = interp(True)
    # the hash of a date depends on PYTHONHASHSEED: try several dates and
    # several pairs of ints that share a slot of the host set
    for day in range(1, 10):
        d = f"date('2024010{day}')"
        for a, b in ((3, 11), (3, 19), (5, 13)):
            elems = [str(a), str(b), d]
            texts = texts_of_all_orders(it, elems)
            if len(texts) > 1:
                bad.append("the same 3 elements render as "
                           + " / ".join(sorted(texts)))
            texts = texts_of_all_orders(it, elems, "<<<", ">>>", " => 1")
            if len(texts) > 1:
                bad.append("the same 3 keys render as "
                           + " / ".join(sorted(texts)))
    return bad


def finding3():
    """Two objects with the same members written in another order are ==
    but render differently (doubtful: objects are neither sets nor maps)."""
    bad = []
    it = interp(True)
    r = it.interpret(
        "def a = <*x=1, y=2*>; def b = <*y=2, x=1*>; "
        "[a == b, string(a), string(b)]", "f3.ckl")
    eq, ta, tb = r.value[0].value, r.value[1].value, r.value[2].value
    if eq and ta != tb:
        bad.append(f"a == b is TRUE, texts {ta} / {tb}")
    r = it.interpret(
        "[string(<< <*x=1, y=2*>, <*y=2, x=1*> >>), "
        "string(<< <*y=2, x=1*>, <*x=1, y=2*> >>)]", "f3.ckl")
    if r.value[0].value != r.value[1].value:
        bad.append(f"set of the two: {r.value[0].value} / {r.value[1].value}")
    return bad


def earlier_items():
    """status of the items of the two earlier reports (not findings)"""
    out = []

    def rt(src):
        it = Interpreter(secure=True, legacy=True)
        try:
            v = it.interpret(src, "e.ckl")
            w = it.interpret(str(v), "e2.ckl")
            return type(v) is type(w) and v == w and w == v \
                and str(v) == str(w)
        except (CklRuntimeError, CklSyntaxError):
            return False
        except Exception as e:     # host error
            return "host " + type(e).__name__

    def say(label, ok):
        out.append(f"{label}: " + ("round-trips / holds now" if ok is True
                                   else f"still fails ({ok})"))

    say("first 1 (NULL as map key)", rt("def m = <<<>>>; m[NULL] = 1; m"))
    say("first 2 (patterns '', 'a//b', '/a')",
        rt("pattern('a//b')") and rt("pattern('')"))
    say("first 3 (decimal carrying a big int)",
        rt("[decimal(9007199254740993), round(12345678901234567891, 2)]"))
    say("first 6 (ints above 4300 digits)", rt("[pow(10, 5000)]"))
    # second 1a: rendering a map whose key was changed in place
    it = Interpreter(secure=True, legacy=True)
    try:
        t = str(it.interpret(
            "def k = [1]; def m = <<<>>>; m[k] = 'x'; k[0] = 5; string(m)",
            "e.ckl"))
        out.append("second 1a (map with a key changed in place): renders "
                   f"now ({t}), no host KeyError")
    except KeyError as e:
        out.append(f"second 1a: still raises KeyError({e})")
    say("second 1b (set of strings changed through the loop variable)",
        rt("def s = <<'ab', 'cd'>>; for e in s do e[0] = 'x' end; s"))
    try:
        Interpreter(secure=True, legacy=True).interpret("NULL = 0", "e.ckl")
        out.append("second 2 (NULL = 0): still accepted")
    except CklSyntaxError as e:
        out.append(f"second 2 (NULL = 0): rejected now ({e.msg})")
    it = Interpreter(secure=True, legacy=True)
    n = 0
    for k in range(8):
        elems = ["[-0.0, 1]", f"[//a//, {k}]", "[0.0, 0]"]
        if len(texts_of_all_orders(it, elems)) > 1:
            n += 1
    out.append("second 3 (-0.0 / pattern / 0.0 cycle): "
               + ("still order-dependent" if n else "canonical now"))
    return out


def main():
    findings = [
        (1, finding1,
         "sets/maps are ordered by text but compared by value "
         "(<<1>> == <<1.0>>, text <<1.0>> < <<10>> < <<1>>): a set of three "
         "pairwise unequal lists has no canonical text and its text does "
         "not render to itself again"),
        (2, finding2,
         "a date is ordered against numbers by its 14-digit text: a set/map "
         "of a date and two ints renders in construction order (doubtful)"),
        (3, finding3,
         "equal objects with members in another order render differently "
         "(doubtful)"),
    ]
    for n, fn, desc in findings:
        signal.alarm(30)
        try:
            bad = fn()
            verdict = "VIOLATES" if bad else "HOLDS"
            detail = f" [{len(bad)} case(s); e.g. {bad[0]}]" if bad else ""
        except Timeout:
            verdict, detail = "VIOLATES", " [probe hung > 30 s]"
        except Exception as e:  # unexpected: report, do not crash
            verdict = "HOLDS"
            detail = f" [probe error {type(e).__name__}: {e}]"
        finally:
            signal.alarm(0)
        print(f"FINDING {n}: {verdict} {desc}{detail}")
    signal.alarm(30)
    try:
        for line in earlier_items():
            print("  note:", line)
    finally:
        signal.alarm(0)


if __name__ == "__main__":
    main()
