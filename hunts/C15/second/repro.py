#!/usr/bin/env python
"""Reproductions for the second C15 hunt.  Run with
   cd /tmp/seed4/C15 && PYTHONPATH=/tmp/seed4/C15/src /venv/bin/python hunt/repro.py
Prints one line per finding: FINDING <n>: <VIOLATES|HOLDS> <description>."""
import signal

from ckl.interpreter import Interpreter
from ckl.errors import CklRuntimeError, CklSyntaxError


class Timeout(Exception):
    pass


def _alarm(signum, frame):
    raise Timeout()


signal.signal(signal.SIGALRM, _alarm)


def conv(v):
    """checkerlang value -> plain python value"""
    inner = getattr(v, "value", None)
    if type(v).__name__ == "ValueList":
        return [conv(x) for x in inner]
    if type(v).__name__ == "ValueNull":
        return None
    return inner


def run(src, legacy=True):
    signal.alarm(10)
    try:
        it = Interpreter(secure=False, legacy=legacy)
        return conv(it.interpret(src, "repro.ckl"))
    except (CklRuntimeError, CklSyntaxError) as e:
        return "ERROR:" + str(e.msg)
    except Timeout:
        return "TIMEOUT"
    except Exception as e:  # python-level crash leaking out of the interpreter
        return "PYEXC:" + type(e).__name__
    finally:
        signal.alarm(0)


def finding1():
    # a key callback that shrinks the list makes find / find_last index past
    # the end of the host list: a raw python IndexError escapes instead of a
    # position, -1 or a CklRuntimeError
    progs = [
        ("def l = [1,2,3,4]; "
         "find(l, 9, key = fn(x) do delete_at(l, 0); x end)", True),
        ("def l = [1,2,3,4,5,6]; find_last(l, 9, key = "
         "fn(x) do delete_at(l, 0); delete_at(l, 0); x end)", True),
        ("require List; def l = [1,2,3,4]; "
         "List->find(l, 9, key = fn(x) do delete_at(l, 0); x end)", False),
    ]
    res = [run(p, legacy) for p, legacy in progs]
    bad = any(isinstance(r, str) and r.startswith("PYEXC") for r in res)
    return bad, "find/find_last with a key callback that shrinks the list " \
        "-> %r (host exception, neither position, -1 nor runtime error)" \
        % (res,)


def finding2():
    # substitute(obj, -1, v): idx + 1 == 0, so the "tail" is the whole
    # sequence again; every other in-range index (also -2, -3 ...) works
    r = [
        run("substitute('abcd', -1, 'x')", True),
        run("substitute([1, 2, 3, 4], -1, 'x')", True),
        run("require Core; Core->substitute('abcd', -1, 'x')", False),
        run("substitute('abcd', -2, 'x')", True),   # control: 'abxd'
    ]
    bad = (r[0] != "abcx" or r[1] != [1, 2, 3, "x"] or r[2] != "abcx")
    return bad, "substitute(seq, -1, v) returns %r / %r (expected 'abcx' / " \
        "[1, 2, 3, 'x']; index -2 gives %r)" % (r[0], r[1], r[3])


def finding3():
    # doubtful: substitute does not replace exactly one position when the
    # value is a list (spliced), when idx >= length (appended) or when the
    # value is NULL (whole result NULL)
    r = [
        run("substitute([1, 2, 3], 1, [8, 9])", True),
        run("substitute([1, 2, 3], 5, 'x')", True),
        run("substitute('abc', 5, 'x')", True),
        run("substitute([1, 2, 3], 1, NULL)", True),
    ]
    bad = (r[0] != [1, [8, 9], 3] or r[1] == [1, 2, 3, "x"]
           or r[2] == "abcx" or r[3] != [1, None, 3])
    return bad, "(doubtful) substitute with list value / idx >= length / " \
        "NULL value -> %r" % (r,)


def finding4():
    # doubtful: first_n with negative n (counterpart of the repaired last_n)
    r1 = run("first_n([1, 2, 3], -1)", True)
    r2 = run("require List; List->first_n([1, 2, 3], -1)", False)
    r3 = run("last_n([1, 2, 3], -1)", True)
    bad = (r1 != [] or r2 != [])
    return bad, "(doubtful) first_n([1,2,3], -1) returns %r (last_n gives " \
        "%r)" % (r1, r3)


def finding5():
    # doubtful: s[i] / s[a to b] silently accept non-integer index values
    # (decimals truncated toward zero, numeric strings, booleans) instead of
    # raising a runtime error; substr / sublist reject the same values
    r = [
        run("[1, 2, 3][-0.5]", True),
        run("'abc'[1.9]", True),
        run("'abc'['1']", True),
        run("'abcdefghijklmnop'['1_0']", True),
        run("'abc'[TRUE]", True),
        run("'abc'[1 to '2']", True),
        run("sublist([1, 2, 3], 1.0)", True),     # control: error
    ]
    bad = any(not (isinstance(x, str) and x.startswith("ERROR"))
              for x in r[:6])
    return bad, "(doubtful) non-integer index values are accepted: %r" % (r,)


def finding6():
    # control: the item repaired after the first hunt
    r1 = run("last_n([1, 2, 3], 0)", True)
    r2 = run("require List; List->last_n([1, 2, 3], 0)", False)
    bad = (r1 != [] or r2 != [])
    return bad, "(repaired item, re-check) last_n([1,2,3], 0) returns %r" \
        % (r1,)


if __name__ == "__main__":
    fs = (finding1, finding2, finding3, finding4, finding5, finding6)
    for n, f in enumerate(fs, 1):
        try:
            bad, desc = f()
        except Exception as e:
            bad, desc = True, "probe crashed: %r" % (e,)
        print("FINDING %d: %s %s" % (n, "VIOLATES" if bad else "HOLDS", desc))
