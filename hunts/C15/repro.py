#!/usr/bin/env python
"""Reproductions for the C15 hunt.  Run with
   cd /tmp/seed3/C15 && PYTHONPATH=/tmp/seed3/C15/src /venv/bin/python hunt/repro.py
Prints one line per finding: FINDING <n>: <VIOLATES|HOLDS> <description>."""
import signal

from ckl.interpreter import Interpreter
from ckl.errors import CklRuntimeError, CklSyntaxError


class Timeout(Exception):
    pass


def _alarm(signum, frame):
    raise Timeout()


signal.signal(signal.SIGALRM, _alarm)


def run(src, legacy=True):
    signal.alarm(10)
    try:
        it = Interpreter(secure=False, legacy=legacy)
        v = it.interpret(src, "repro.ckl")
        return getattr(v, "value", None)
    except (CklRuntimeError, CklSyntaxError) as e:
        return "ERROR:" + str(e.msg)
    except Timeout:
        return "TIMEOUT"
    except Exception as e:  # python-level crash
        return "PYEXC:" + type(e).__name__
    finally:
        signal.alarm(0)


def finding1():
    # negative `start` in find/find_last: strings wrap around (python
    # slice semantics leak through), lists clamp / return -1, and the string
    # find_last is not even monotone in start.
    bad = []
    for legacy in (True, False):
        obs = {
            "find_str": run("find('ab', 'a', start = -1)", legacy),
            "find_lst": run("find(['a', 'b'], 'a', start = -1)", legacy),
            "find_str_wrap": run("find('abcabc', 'a', start = -3)", legacy),
            "find_lst_wrap": run(
                "find(['a','b','c','a','b','c'], 'a', start = -3)", legacy),
            "fl_str_m2": run("find_last('abc', 'b', start = -2)", legacy),
            "fl_str_m1": run("find_last('abc', 'b', start = -1)", legacy),
            "fl_lst_m2": run(
                "find_last(['a','b','c'], 'b', start = -2)", legacy),
        }
        # a consistent model needs string and list variants to agree and
        # find_last(..., start=-1) >= find_last(..., start=-2)
        if obs["find_str"] != obs["find_lst"]:
            bad.append("find str/list disagree")
        if obs["find_str_wrap"] != obs["find_lst_wrap"]:
            bad.append("find wraps on str")
        if obs["fl_str_m2"] != obs["fl_lst_m2"]:
            bad.append("find_last str/list disagree")
        if obs["fl_str_m2"] > obs["fl_str_m1"]:
            bad.append("find_last not monotone in start")
    return bool(bad), "negative start in find/find_last wraps on strings, " \
        "disagrees with lists (" + ", ".join(sorted(set(bad))) + ")"


def finding2():
    # last position at which '' occurs in 'abc' is 3 (= length), cf. find -> 0
    bad = False
    for legacy in (True, False):
        r = run("find_last('abc', '')", legacy)
        if r != 3:
            bad = True
    return bad, "find_last('abc', '') returns %r, last occurrence of the " \
        "empty part is at 3" % (run("find_last('abc', '')"),)


def finding3():
    r1 = run("last_n([1, 2, 3], 0)", True)
    r2 = run("require List; List->last_n([1, 2, 3], 0)", False)
    bad = (r1 != [] or r2 != [])
    return bad, "last_n([1,2,3], 0) returns the whole list " \
        "(len %s) instead of []" % (len(r1) if isinstance(r1, list) else r1)


if __name__ == "__main__":
    for n, f in enumerate((finding1, finding2, finding3), 1):
        try:
            bad, desc = f()
        except Exception as e:
            bad, desc = True, "probe crashed: %r" % (e,)
        print("FINDING %d: %s %s" % (n, "VIOLATES" if bad else "HOLDS", desc))
