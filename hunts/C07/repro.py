#!/usr/bin/env python
"""Reproductions for the C07 hunt (comparison is a total order, sorting agrees).

Run:  cd /tmp/seed3/C07 && PYTHONPATH=/tmp/seed3/C07/src /venv/bin/python hunt/repro.py
Prints one line per finding: FINDING <n>: <VIOLATES|HOLDS> <short description>
"""
import signal
import sys


class Timeout(Exception):
    pass


def _alarm(signum, frame):
    raise Timeout()


signal.signal(signal.SIGALRM, _alarm)

from ckl.interpreter import Interpreter  # noqa: E402
from ckl.errors import CklRuntimeError, CklSyntaxError  # noqa: E402


def run(src, legacy=True, seconds=10):
    """Returns ("ok", text) | ("rte", msg) | ("syn", msg) | ("pyexc", repr) |
    ("timeout", "")"""
    signal.alarm(seconds)
    try:
        it = Interpreter(secure=False, legacy=legacy)
        return ("ok", str(it.interpret(src, "repro.ckl")))
    except CklRuntimeError as e:
        return ("rte", str(e.msg))
    except CklSyntaxError as e:
        return ("syn", str(e.msg))
    except Timeout:
        return ("timeout", "")
    except Exception as e:  # a raw Python exception escaping the interpreter
        return ("pyexc", repr(e))
    finally:
        signal.alarm(0)


def report(n, violates, text, details):
    print(f"FINDING {n}: {'VIOLATES' if violates else 'HOLDS'} {text}")
    for d in details:
        print(f"    {d}")


# ---------------------------------------------------------------- finding 1
def finding1():
    # NaN is an ordinary decimal value, reachable by plain arithmetic
    # (literal overflow gives inf, inf - inf gives nan), decimal('nan') and
    # parse_json('NaN').
    pre = ("def inf = 10.0 * 1" + "0" * 308 + ".0; def n = inf - inf; ")
    details = []
    bad = False

    def check(src, expected_if_ok, why):
        nonlocal bad
        for legacy in (True, False):
            kind, out = run(pre + src, legacy)
            if (kind, out) != ("ok", expected_if_ok):
                bad = True
                details.append(
                    f"{src}  =>  {out if kind == 'ok' else kind + ': ' + out}"
                    f"   (required: {expected_if_ok}; {why})"
                    f" [legacy={legacy}]"
                )
                break

    check("type(n)", "'decimal'", "sanity: the value is of kind decimal")
    check("[n < n, n == n, n > n]", "[FALSE, TRUE, FALSE]",
          "a value equals itself, > is irreflexive")
    check("[n <= n, n >= n, n != n]", "[TRUE, TRUE, FALSE]",
          "<=, >=, != consistent with <")
    check("[n > 1, 1 > n]", "[FALSE, TRUE]",
          "asymmetry; any consistent answer has exactly one TRUE"
          " (here we list one of the two admissible answers)")
    check("[compare(n, 1) , compare(1, n)]", "[-1, 1]",
          "compare(a,b) and compare(b,a) must have opposite signs"
          " (one of the two admissible answers listed)")
    check("[min(n, 1) == min(1, n), max(n, 1) == max(1, n)]", "[TRUE, TRUE]",
          "min/max must not depend on the argument order")
    check("[n == n, [n] == [n], [n] == [inf - inf], [n] > [inf - inf]]",
          "[TRUE, TRUE, TRUE, FALSE]",
          "element-wise list comparison must agree with the comparison of "
          "the elements and must not depend on object identity")
    # the asymmetry check above lists one admissible answer; accept the other
    kind, out = run(pre + "[n > 1, 1 > n]")
    if out in ("[FALSE, TRUE]", "[TRUE, FALSE]"):
        details[:] = [d for d in details if not d.startswith("[n > 1")]
    kind, out = run(pre + "[compare(n, 1) , compare(1, n)]")
    if out in ("[-1, 1]", "[1, -1]"):
        details[:] = [d for d in details if not d.startswith("[compare(n")]

    # sorted is not ordered on the non-NaN elements
    kind, out = run(pre + "sorted([2, n, 1])")
    if kind == "ok":
        pos1, pos2 = out.find("1"), out.find("2")
        if pos2 < pos1:
            bad = True
            details.append(
                f"sorted([2, n, 1])  =>  {out}   (2 is placed before 1)")
    # sets: enumeration order of the other elements breaks (depends on the
    # hash of the NaN object, so try a number of sets)
    import random
    rnd = random.Random(3)
    signal.alarm(60)
    try:
        it = Interpreter(secure=False, legacy=True)
        it.interpret(pre, "repro.ckl")
        for _ in range(300):
            xs = rnd.sample(range(40), 6)
            src = ("list(<<" + ", ".join(map(str, xs[:3])) + ", n, "
                   + ", ".join(map(str, xs[3:])) + ">>)")
            r = it.interpret(src, "repro.ckl")
            vals = [v.value for v in r.value if v.value == v.value]
            if vals != sorted(vals):
                bad = True
                details.append(f"{src}  =>  {r}   (set enumeration is not "
                               "ascending on the ordinary numbers)")
                break
    except Timeout:
        details.append("set search timed out")
    finally:
        signal.alarm(0)
    report(1, bad and len(details) > 0,
           "NaN decimal (inf - inf, decimal('nan'), parse_json('NaN')) breaks "
           "trichotomy/asymmetry of the comparison operators, compare, "
           "min/max, sorted and set enumeration", details)


# ---------------------------------------------------------------- finding 2
def finding2():
    details = []
    bad = False
    cases = [
        # a local variable / parameter / loop variable that happens to be
        # called compare or identity changes what sorted(lst) does
        ("def f(lst) do def identity = fn(x) 0; sorted(lst) end; "
         "f([3, 1, 2])", "[1, 2, 3]"),
        ("def mysort(lst, compare) sorted(lst); "
         "mysort([3, 1, 2], fn(a, b) 0)", "[1, 2, 3]"),
        ("def f(fs) do def r = []; for identity in fs do "
         "append(r, sorted([3, 1, 2])) end; r end; f([fn(x) -x])",
         "[[1, 2, 3]]"),
        ("def f(fs) [sorted([3, 1, 2]) for compare in fs]; "
         "f([fn(a, b) 0])", "[[1, 2, 3]]"),
        # ... and when the value is not a function, a raw Python
        # AttributeError escapes the interpreter
        ("def f(lst, identity) sorted(lst); f([3, 1, 2], 5)", "[1, 2, 3]"),
        ("def f(compare = 1) sorted([2, 1]); f()", "[1, 2]"),
    ]
    for src, expected in cases:
        for legacy in (True, False):
            kind, out = run(src, legacy)
            if (kind, out) != ("ok", expected):
                bad = True
                details.append(
                    f"{src}  =>  {out if kind == 'ok' else kind + ': ' + out}"
                    f"   (required: {expected}) [legacy={legacy}]")
                break
    report(2, bad,
           "sorted() without cmp/key looks its defaults up by the names "
           "'compare'/'identity' in the caller's scope: a local of that name "
           "changes the order or crashes with a Python AttributeError",
           details)


# ---------------------------------------------------------------- finding 3
def finding3():
    details = []
    bad = False
    cases = [
        ("def f(less) [1 < 2, 2 < 1, 1 < 1]; f(fn(a, b) TRUE)",
         "[TRUE, FALSE, FALSE]"),
        ("def f() do def greater = fn(a, b) FALSE; "
         "[2 > 1, compare(2, 1), max(1, 2)] end; f()",
         "[TRUE, 1, 2]"),
        ("def f(equals) [1 == 1, compare(1, 1)]; f(fn(a, b) FALSE)",
         "[TRUE, 0]"),
    ]
    for src, expected in cases:
        kind, out = run(src)
        if (kind, out) != ("ok", expected):
            bad = True
            details.append(
                f"{src}  =>  {out if kind == 'ok' else kind + ': ' + out}"
                f"   (required: {expected})")
    report(3, bad,
           "(doubtful) the operators < > <= >= == != are calls of "
           "less/greater/.../equals resolved by name at the use site, so a "
           "parameter or local of that name makes the operator disagree "
           "with compare/min/max/sorted", details)


if __name__ == "__main__":
    for f in (finding1, finding2, finding3):
        try:
            f()
        except Exception as e:  # keep going, one line per finding
            print(f"FINDING {f.__name__[-1]}: ERROR in repro itself: {e!r}")
    sys.exit(0)
