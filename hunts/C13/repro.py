#!/usr/bin/env python
"""Reproductions for the C13 hunt ("only language-level errors escape
evaluation").  Run with

    cd /tmp/seed3/C13 && PYTHONPATH=/tmp/seed3/C13/src /venv/bin/python hunt/repro.py

Every finding is evaluated in a child process (so that a hang inside C code
can be killed) and one line per finding is printed:

    FINDING <n>: <VIOLATES|HOLDS> <short description>

Only the ckl package and the standard library are used.
"""
import json
import os
import shutil
import subprocess
import sys
import tempfile
from concurrent.futures import ThreadPoolExecutor

PROBE_TIMEOUT = 8          # seconds per single program
HERE = os.path.dirname(os.path.abspath(__file__))
SRC = os.path.join(os.path.dirname(HERE), "src")

BIG400 = "1" + "0" * 400    # an int literal beyond the float range
E31 = "1" + "0" * 31

# (number, description, kind, programs)
#   kind "host":   VIOLATES if any program ends in a host exception or hangs
#   kind "caught": every program is `do ...; catch all 'caught' end`;
#                  VIOLATES if the runtime error escapes the catch-all
# a program is (source, legacy) - legacy=True gives the full function set
FINDINGS = [
    (1, "_proto_ chain that is cyclic: member lookup / rendering never ends",
     "host", [
         ("def o = <*a=1*>; o->_proto_ = o; o->b", False),
         ("def o = <*a=1*>; o->_proto_ = o; string(o)", False),
     ]),
    (2, "_proto_ member that is not an object: AttributeError",
     "host", [
         ("<*_proto_=1*>->b", False),
         ("<*_proto_=NULL*>->b()", False),
         ("string(<*_proto_=[1]*>)", False),
     ]),
    (3, "_str_ member: rendering an object raises TypeError/AttributeError",
     "host", [
         ("string(<*_str_=fn(self) 'S'*>)", False),
         ("string(<*_str_=1*>)", False),
         ("def o = <*_str_=fn(self) 'S'*>; 1 + o", False),
     ]),
    (4, "ints with more than 4300 digits: rendering raises ValueError",
     "host", [
         ("require List; string(List->prod(range(1, 2000)))", False),
         ("require Math; Math->pow(10, 5000) < 'a'", False),
         ("s('{' + '1' * 5000 + '}')", False),
     ]),
    (5, "int beyond the float range mixed with a decimal: OverflowError",
     "host", [
         (BIG400 + " + 1.5", False),
         ("1.5 * " + BIG400, False),
         (BIG400 + " / 2.0", False),
         (BIG400 + " % 1.5", False),
         ("sum([" + BIG400 + ", 1.5])", False),
         ("int(decimal(" + BIG400 + "))", False),
         ("date('20200101') + " + BIG400, False),
         ("mean([" + BIG400 + ", 1])", True),
     ]),
    (6, "parse_date / 'is date' / 'is time' on non-decimal Unicode digits: "
        "ValueError",
     "host", [
         ("'²²²²0101' is date", False),
         ("'²²' is time", False),
         ("parse_date('2020010¹')", True),
     ]),
    (7, "round(int, hugely negative digits) never ends",
     "host", [
         ("round(1, -" + E31 + ")", False),
     ]),
    (8, "[] * n loops n times: empty list times 10^11 never ends",
     "host", [
         ("[] * 100000000000", False),
     ]),
    (9, "split with an optional capture group yields strings without text: "
        "TypeError/AttributeError",
     "host", [
         ("split2('ab', //(x)?b//, ',')", False),
         ("string(split('ab', //(x)?b//))", False),
         ("length(split('ab', //(x)?b//)[1])", False),
     ]),
    (10, "for loop over an object whose body adds/removes a member: "
         "RuntimeError",
     "host", [
         ("def o = <*a=1*>; for k in o do o[k + 'x'] = 1 end", False),
         ("def o = <*a=1, b=2*>; for v in values o do remove(o, 'b') end",
          False),
     ]),
    (11, "for [] in <string>: IndexError",
     "host", [
         ("for [] in 'abc' do 1 end", False),
     ]),
    (12, "string()/comparison of the body of a lambda containing a for loop: "
         "TypeError",
     "host", [
         ("string(body(fn(x) do for y in x do y end; end))", False),
         ("def f(x) do for [a, b] in x do a end; end; body(f) == body(f)",
          False),
     ]),
    (13, "ls('<name of something that is not a module>'): "
         "AttributeError/TypeError",
     "host", [
         ("ls('int')", False),
         ("ls('NULL')", False),
         ("def x = [1, 2]; string(ls('x'))", False),
     ]),
    (14, "sorted() after the program defined its own compare/identity: "
         "AttributeError",
     "host", [
         ("def compare = 5; sorted([2, 1])", False),
         ("def identity = 'x'; sorted([2, 1])", False),
     ]),
    (15, "OS built-ins only expect OSError: NUL / lone surrogate in a name, "
         "undecodable program output",
     "host", [
         ("file_copy('a' + chr(0), 'b')", True),
         ("file_move('a' + chr(0), 'b')", True),
         ("list_dir('a' + chr(0))", True),
         ("execute('a' + chr(0), [])", True),
         ("get_env(chr(55296))", True),
         ("execute('printf', ['\\\\xff'], output_file='repro_o.txt')", True),
     ]),
    (16, "process_lines(stdin, f) and get_output_string(<not a string "
         "output>): AttributeError",
     "host", [
         ("process_lines(stdin, fn(x) x)", True),
         ("get_output_string(stdout)", True),
         ("get_output_string(console)", True),
     ]),
    (17, "bit_shift_left by 10^31: OverflowError",
     "host", [
         ("bit_shift_left(1, " + E31 + ")", True),
     ]),
    (18, "'Maximum recursion depth exceeded' raised outside a function call "
         "is not intercepted by catch",
     "caught", [
         ("def l = [1]; append(l, l); do <<l>>; catch all 'caught' end",
          False),
         ("def l = [1]; append(l, l); def m = <<<1 => 2>>>; "
          "do m[l]; catch all 'caught' end", False),
         ("def l = [1]; append(l, l); def f(x) error 'e'; "
          "do f(l); catch all 'caught' end", False),
         ("do " + "+".join(["1"] * 3000) + "; catch all 'caught' end", False),
     ]),
    (19, "(doubtful) require of an over-long / NUL / surrogate module name, "
         "ill-typed checkerlang_module_path: OSError/ValueError/TypeError",
     "host", [
         ("require 'x' * 300", False),
         ("def m = 'a' + chr(0); require m", True),
         ("def m = chr(55296); require m", True),
         ("def checkerlang_module_path = [1]; require foo", False),
         ("def checkerlang_module_path = ['.']; require c13badenc", False),
         ("def checkerlang_module_path = ['.']; require c13adir", False),
     ]),
    (20, "(doubtful) resource-bound non-termination on tiny data: "
         "range(10^31), pow(2, 10^31), s('{1#3000000}'), regex backtracking",
     "host", [
         ("range(" + E31 + ")", False),
         ("require Math; Math->pow(2, " + E31 + ")", False),
         ("s('{1#3000000}')", False),
         ("'aaaaaaaaaaaaaaaaaaaaaaaaaaaaaaaaaaaa!' matches //(a+)+$//", False),
     ]),
    (21, "run() / require of a file with a syntax error: a syntax error "
         "escapes evaluation and catch does not intercept it",
     "caught", [
         ("do run('c13bad.ckl'); catch all 'caught' end", False),
         ("def checkerlang_module_path = ['.']; "
          "do require c13bad; catch all 'caught' end", False),
     ]),
]


WORKER = r"""
import io, json, os, resource, sys
sys.path.insert(0, %(src)r)
resource.setrlimit(resource.RLIMIT_AS, (3 * 1024 ** 3, 3 * 1024 ** 3))
os.chdir(%(cwd)r)
from ckl.interpreter import Interpreter
from ckl.errors import CklRuntimeError, CklSyntaxError
source, legacy = json.loads(sys.stdin.read())
sys.stdin = io.StringIO("line 1\nline 2\n")
real_stdout = sys.stdout
sys.stdout = io.StringIO()
try:
    it = Interpreter(secure=False, legacy=legacy)
    value = it.interpret(source, "repro.ckl")
    try:
        text = str(value)
    except BaseException:
        text = "<value>"
    outcome = ["VALUE", text[:60]]
except CklRuntimeError as e:
    ok = e.value is not None
    outcome = ["RT" if ok else "RT-WITHOUT-VALUE", (e.msg if isinstance(e.msg, str) else "")[:80]]
except CklSyntaxError as e:
    outcome = ["SYN", str(e)[:80]]
except BaseException as e:
    outcome = ["HOST", type(e).__name__ + ": " + str(e)[:80]]
real_stdout.write(json.dumps(outcome))
"""


def run_program(source, legacy, cwd):
    code = WORKER % {"src": SRC, "cwd": cwd}
    try:
        p = subprocess.run(
            [sys.executable, "-c", code],
            input=json.dumps([source, legacy]),
            capture_output=True, text=True, timeout=PROBE_TIMEOUT,
        )
    except subprocess.TimeoutExpired:
        return ["HANG", "no result after %d s" % PROBE_TIMEOUT]
    try:
        return json.loads(p.stdout)
    except ValueError:
        return ["HOST", "worker died: " + (p.stderr or "")[-120:]]


def main():
    verbose = "-v" in sys.argv
    cwd = tempfile.mkdtemp(prefix="c13_repro_", dir=HERE)
    with open(os.path.join(cwd, "c13bad.ckl"), "w") as f:
        f.write("def x = (")
    with open(os.path.join(cwd, "c13badenc.ckl"), "wb") as f:
        f.write(b"\xff\xfe")
    os.mkdir(os.path.join(cwd, "c13adir.ckl"))
    jobs = []
    for number, desc, kind, programs in FINDINGS:
        for source, legacy in programs:
            jobs.append((number, kind, source, legacy))
    with ThreadPoolExecutor(8) as ex:
        outcomes = list(ex.map(
            lambda j: run_program(j[2], j[3], cwd), jobs))
    by_number = {}
    for job, outcome in zip(jobs, outcomes):
        by_number.setdefault(job[0], []).append((job, outcome))
    for number, desc, kind, programs in FINDINGS:
        violates = False
        details = []
        for (num, knd, source, legacy), outcome in by_number[number]:
            if kind == "host":
                bad = outcome[0] in ("HOST", "HANG", "RT-WITHOUT-VALUE")
            else:
                bad = not (outcome[0] == "VALUE" and "caught" in outcome[1])
            violates = violates or bad
            details.append("    %s %s -> %s" % (
                "!!" if bad else "ok", source[:70].replace("\n", " "),
                outcome))
        print("FINDING %d: %s %s" % (
            number, "VIOLATES" if violates else "HOLDS", desc))
        if verbose:
            print("\n".join(details))
    shutil.rmtree(cwd, ignore_errors=True)


if __name__ == "__main__":
    main()
