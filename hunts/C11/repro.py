#!/usr/bin/env python
"""Reproductions for the C11 hunt (require binds exactly the requested names,
modules are evaluated once).  Run with
  cd /tmp/seed3/C11 && PYTHONPATH=/tmp/seed3/C11/src /venv/bin/python hunt/repro.py
"""
import os
import shutil
import signal
import tempfile

from ckl.interpreter import Interpreter
from ckl.errors import CklRuntimeError, CklSyntaxError
from ckl.values import ValueList, ValueString

MODS = {
    "cnt": 'def loads = [];',
    "a": 'require cnt; append(cnt->loads, "a"); def x = 1; def _p = 2; '
         'def f() x; def setx(v) do x = v; end;',
    "b": 'require cnt; append(cnt->loads, "b"); require a; '
         'require a as helper; def alias = a; def y = 2;',
    "counter": 'def counter = 0; def inc() do counter += 1; counter end;',
    "nm": 'def nm = "cnt"; def other = 1;',
    "sum": 'def v = 1;',
    "bad": 'require cnt; append(cnt->loads, "bad"); error "boom";',
    "c1": 'require cnt; append(cnt->loads, "c1"); require c2; def v = 1;',
    "c2": 'require cnt; append(cnt->loads, "c2"); require c1; def v = 2;',
    "inner": 'def v = 1;',
    "outer": 'require inner; def w = inner->v + 1;',
    "Math": 'def mine = 1;',
}

TMPDIRS = []


class Timeout(Exception):
    pass


def _alarm(signum, frame):
    raise Timeout()


signal.signal(signal.SIGALRM, _alarm)


def mk(legacy, where="base"):
    d = tempfile.mkdtemp(prefix="c11_")
    TMPDIRS.append(d)
    for n, src in MODS.items():
        with open(os.path.join(d, n + ".ckl"), "w", encoding="utf-8") as f:
            f.write(src)
    it = Interpreter(secure=False, legacy=legacy)
    mp = ValueList()
    mp.addItem(ValueString(d))
    if where == "base":
        it.base_environment.put("checkerlang_module_path", mp)
    else:  # the way ckl/run.py and ckl/repl.py do it
        it.environment.put("checkerlang_module_path", mp)
    return it


def run(it, src):
    signal.alarm(10)
    try:
        return "OK " + str(it.interpret(src, "main.ckl"))
    except CklRuntimeError as e:
        return "RTE " + str(e.msg)
    except CklSyntaxError as e:
        return "SYN " + str(e.msg)
    except Timeout:
        return "TIMEOUT"
    except Exception as e:  # noqa
        return "PYEXC " + type(e).__name__ + ": " + str(e)
    finally:
        signal.alarm(0)


def scope(it):
    return sorted(it.environment.map.keys())


def f1(legacy):
    # duplicate source symbol in the import list: only the last alias is bound
    it = mk(legacy)
    r = run(it, 'require a import [x as b1, x as c1]; 1')
    return r == "OK 1" and scope(it) != ["b1", "c1"], f"{r} scope={scope(it)}"


def f2(legacy):
    # empty import list binds the module object
    it = mk(legacy)
    r = run(it, 'require a import []; 1')
    return r == "OK 1" and scope(it) != [], f"{r} scope={scope(it)}"


def f3(legacy):
    # module exports a symbol with its own name: second require fails /
    # loads a different module
    it = mk(legacy)
    r1 = run(it, 'require counter unqualified; require counter unqualified; 1')
    it2 = mk(legacy)
    r2 = run(it2, 'require nm unqualified; require nm; 1')
    bad1 = r1 != "OK 1"
    bad2 = "cnt" in scope(it2)
    return bad1 or bad2, f"{r1} | {r2} scope={scope(it2)}"


def f4(legacy):
    # user module named like a visible function cannot be required by name
    it = mk(legacy)
    r = run(it, 'require sum; sum->v')
    return r != "OK 1", r


def f5(legacy):
    # module path defined as run.py does: nested require of a user module
    it = mk(legacy, where="env")
    r1 = run(it, 'require outer; outer->w')
    it2 = mk(legacy, where="env")
    r2 = run(it2, 'require inner; require outer; outer->w')
    return r1 != "OK 2", f"outer first: {r1} | inner first: {r2}"


def f6(legacy):
    # module objects are snapshots: two bindings of the one instance disagree
    it = mk(legacy)
    r = run(it, 'require a; a->setx(9); require a as a3; [a->x, a3->x, a->f()]')
    return r != "OK [9, 9, 9]", r


def f7(legacy):
    # unqualified leaks the module's own required modules, object form hides
    # even an explicit public def that holds a module
    it = mk(legacy)
    r = run(it, 'require b unqualified; 1')
    s = scope(it)
    it2 = mk(legacy)
    r2 = run(it2, 'require b; b')
    return s != ["alias", "y"] or "alias" not in r2, f"unqualified scope={s} | object form: {r2}"


def f8(legacy):
    # failed loads (error, cycle) are retried: top-level code runs again
    it = mk(legacy)
    r = run(it, 'do require bad; catch all 0; end; do require bad; catch all 0; end; '
                'do require c1; catch all 0; end; do require c2; catch all 0; end; '
                'require cnt; cnt->loads')
    return r != "OK ['bad', 'c1', 'c2']", r


def f9(legacy):
    # built-in modules: looked up case-insensitively, registered case-sensitively
    it = mk(legacy)
    r = run(it, 'require Math; require math; require MATH; Math->mine')
    inst = sorted(k for k in it.base_environment.modules if k.lower() == "math")
    ids = {id(it.base_environment.modules[k]) for k in inst}
    return len(ids) > 1 or r != "OK 1", f"{r} instances={inst}"


FINDINGS = [
    (1, f1, "import [x as b1, x as c1] binds only the last alias of a repeated symbol"),
    (2, f2, "import [] binds the module object instead of nothing"),
    (3, f3, "repeated require fails / loads another module when the module exports a symbol named like itself"),
    (4, f4, "user module named like a visible function (sum) cannot be required by identifier (doubtful)"),
    (5, f5, "require inside a module cannot find user modules when the module path is set as ckl/run.py sets it"),
    (6, f6, "module objects are snapshots, two bindings of one instance disagree (doubtful)"),
    (7, f7, "unqualified leaks nested module objects, object form hides module-valued defs (doubtful)"),
    (8, f8, "failed/cyclic loads are retried and re-run top-level code (doubtful)"),
    (9, f9, "built-in modules evaluated once per spelling (Math/math/MATH), user Math.ckl unreachable (doubtful)"),
]

if __name__ == "__main__":
    try:
        for n, fn, desc in FINDINGS:
            viol = False
            details = []
            for legacy in (True, False):
                try:
                    signal.alarm(20)
                    v, d = fn(legacy)
                except Timeout:
                    v, d = True, "TIMEOUT"
                except Exception as e:  # noqa
                    v, d = True, "PYEXC " + type(e).__name__ + ": " + str(e)
                finally:
                    signal.alarm(0)
                viol = viol or v
                details.append(("legacy" if legacy else "base") + ": " + d)
            print(f"FINDING {n}: {'VIOLATES' if viol else 'HOLDS'} {desc} [{' || '.join(details)}]")
    finally:
        for d in TMPDIRS:
            shutil.rmtree(d, ignore_errors=True)
