#!/usr/bin/env python
"""C09 hunt - reproductions.  Run:
   cd /tmp/seed3/C09 && PYTHONPATH=/tmp/seed3/C09/src /venv/bin/python hunt/repro.py
Prints one line per finding: FINDING <n>: <VIOLATES|HOLDS> <description>.
"""
import os
import signal
import sys

HERE = os.path.dirname(os.path.abspath(__file__))
SRC = os.path.join(os.path.dirname(HERE), "src")
if os.path.isdir(os.path.join(SRC, "ckl")):
    sys.path.insert(0, SRC)

from ckl.interpreter import Interpreter  # noqa: E402
from ckl.errors import CklRuntimeError, CklSyntaxError  # noqa: E402
from ckl.values import ValueList, ValueString  # noqa: E402
import ckl.nodes  # noqa: E402

DATA = os.path.join(HERE, "repro_data")
os.makedirs(DATA, exist_ok=True)
MARK = "loaded-from-outside-module-dirs"
with open(os.path.join(DATA, "c09evil.ckl"), "w", encoding="utf-8") as f:
    f.write('def marker = "' + MARK + '";\n')

MODDIR = os.path.join(os.path.dirname(os.path.abspath(ckl.nodes.__file__)),
                      "modules")
REL = os.path.relpath(DATA, MODDIR).replace(os.sep, "/")


class Timeout(Exception):
    pass


def _alarm(*_):
    raise Timeout()


signal.signal(signal.SIGALRM, _alarm)


def run(prog, legacy, host_module_path=False):
    """Returns the string form of the result, or 'ERR: ...'."""
    it = Interpreter(secure=True, legacy=legacy)
    if host_module_path:
        # what ckl.run / ckl.repl do with -m: a host supplied module path
        mp = ValueList()
        mp.addItem(ValueString("/nonexistent-module-dir"))
        it.environment.put("checkerlang_module_path", mp)
    signal.alarm(10)
    try:
        return it.interpret(prog, "repro.ckl").asString().value
    except (CklRuntimeError, CklSyntaxError) as e:
        return "ERR: " + str(e.msg)
    except Timeout:
        return "ERR: timeout"
    except Exception as e:  # noqa
        return "ERR: python " + type(e).__name__ + " " + str(e)
    finally:
        signal.alarm(0)


def report(n, progs, desc, **kw):
    hits = []
    for legacy in (True, False):
        for prog in progs:
            r = run(prog, legacy, **kw)
            if r == MARK:
                hits.append((legacy, prog))
    verdict = "VIOLATES" if hits else "HOLDS"
    print(f"FINDING {n}: {verdict} {desc}"
          + (f" [{len(hits)}/{2 * len(progs)} variants, e.g. legacy={hits[0][0]}: {hits[0][1]}]" if hits else ""))


# 1. '..' traversal in the module spec escapes the bundled module directory
report(1, [
    f'require "{REL}/c09evil.ckl" as ev; ev->marker',
    f'require "{REL}/c09evil" as ev; ev->marker',
    f'require "{REL}/c09evil" unqualified; marker',
    f'def m = "{REL}/c09evil"; require m as ev; ev->marker',
], "secure-mode program loads and runs an arbitrary *.ckl script file anywhere "
   "on disk via '..' in the require module spec")

# 2. the program defines checkerlang_module_path itself
report(2, [
    f'def checkerlang_module_path = ["{DATA}"]; require c09evil; c09evil->marker',
    f'def [checkerlang_module_path] = [["{DATA}"]]; require c09evil; c09evil->marker',
    f'def f(checkerlang_module_path) do require c09evil; c09evil->marker end; f(["{DATA}"])',
    f'def r = NULL; for checkerlang_module_path in [["{DATA}"]] do require c09evil; r = c09evil->marker; end; r',
], "secure-mode program chooses the directories require reads from by "
   "defining checkerlang_module_path (def / parameter / loop variable)")

# 3. the program mutates the host supplied checkerlang_module_path in place
report(3, [
    f'append(checkerlang_module_path, "{DATA}"); require c09evil; c09evil->marker',
    f'checkerlang_module_path[0] = "{DATA}"; require c09evil; c09evil->marker',
    f'def p = checkerlang_module_path; insert_at(p, 0, "{DATA}"); require c09evil; c09evil->marker',
], "secure-mode program redirects require by mutating the host's "
   "checkerlang_module_path list in place (plain assignment is rejected)",
   host_module_path=True)
