"""C11  require binds exactly the requested names and evaluates each module once."""
import io
import os
import shutil
import tempfile

from vf.core import Finding, time_limit, CaseTimeout
from vf.gen.chooser import TapeChooser, tapes
from vf import cklrun

PROPERTY = "C11"
RULE = (
    "Hypothesis-generated module graphs: up to 5 user modules written to a "
    "scratch module path, each with a load marker printed at top level, "
    "random public values and functions, private (_underscore) definitions, "
    "mutable state behind bump()/peek(), a probe that reads an importer "
    "variable, and dependencies on other generated modules (chains, "
    "diamonds, cycles; inner requires use `as _alias`). Importer sessions "
    "apply every form (require M, as A, import [a, b as c] incl. a private "
    "name, an empty list and a symbol listed twice under different aliases, "
    "unqualified, inside a function, repeated, several modules; some "
    "modules define a public symbol with their own name) in "
    "random order. Oracle: a Python model of the module system: the set of "
    "names visible in the importer (ls()) after each step is the set before "
    "plus exactly the requested names; module objects expose exactly the "
    "public names; load markers appear once per module per interpreter and in "
    "dependency order; bump() through one binding is visible through every "
    "other binding and through dependants; the probe fails although the "
    "importer defines the variable; a cycle yields a runtime error. Module "
    "files are found via $HOME/.ckl/modules or a checkerlang_module_path in "
    "the base environment. Non-trivial = graph with a module reached by >= 2 "
    "paths or a cycle, and an importer using >= 2 forms on one module."
)
ASSUMPTIONS = [
    "state of imported non-function values is a snapshot: module state is "
    "read only through functions",
    "'at most once' is asserted for modules whose load succeeds",
]

PUBLIC = ["alpha", "beta", "gamma", "delta", "eps"]
PRIVATE = ["_hidden", "_secret"]


class ModSpec:
    def __init__(self, name):
        self.name = name
        self.values = {}        # public value defs name -> int
        self.funcs = {}         # public function defs name -> int (returns)
        self.private = []
        self.deps = []          # names of required modules (in order)
        self.cls = None         # name of a class defined in the module

    def public_names(self):
        names = set(self.values) | set(self.funcs) | {
            "bump", "peek", "probe", "pv", "setpv", "getpv"}
        for d in self.deps:
            names.add("via_" + d)
        if self.cls and not self.cls.startswith("_"):
            names.add(self.cls)     # the class, not its members
        return names

    def source(self):
        lines = [f"println('LOAD {self.name}');"]
        for d in self.deps:
            lines.append(f"require {d} as _d_{d};")
        lines.append("def _state = 0;")
        for p in self.private:
            lines.append(f"def {p} = 'private';")
        for n, v in self.values.items():
            lines.append(f"def {n} = {v};")
        for n, v in self.funcs.items():
            lines.append(f"def {n}() {v};")
        if self.cls:
            lines.append(f"def class {self.cls} do def member_fn(self) 1; "
                         f"def member_val = 2; def _init_(self) do "
                         f"self->made = TRUE end end;")
        lines.append("def bump() do _state += 1; _state end;")
        lines.append("def peek() _state;")
        lines.append("def probe() importer_var;")
        lines.append("def pv = 0;")
        lines.append("def setpv(n) do pv = n; pv end;")
        lines.append("def getpv() pv;")
        for d in self.deps:
            lines.append(f"def via_{d}() _d_{d}->bump();")
        return "\n".join(lines) + "\n"


def gen_graph(ch):
    n = ch.int(1, 5)
    mods = [ModSpec(f"gm{i}") for i in range(1, n + 1)]
    cyclic = n >= 2 and ch.bool(0.25)
    for i, m in enumerate(mods):
        for p in ch.sample(PUBLIC, ch.int(1, 3)):
            if ch.bool():
                m.values[p] = ch.int(0, 99)
            else:
                m.funcs[p] = ch.int(100, 199)
        if ch.bool(0.3):
            m.cls = "Kls" if ch.bool(0.8) else "_Kls"
        if ch.bool(0.25):
            # a public definition with the module's own name
            m.values[m.name] = ch.int(0, 99)
        m.private = ch.sample(PRIVATE, ch.int(0, 2))
        # acyclic dependencies point to higher-numbered modules
        later = mods[i + 1:]
        if later:
            for d in ch.sample(later, ch.int(0, min(2, len(later)))):
                m.deps.append(d.name)
    cycle_members = set()
    if cyclic:
        a, b = ch.sample(range(n), 2)
        lo, hi = min(a, b), max(a, b)
        # make hi depend back on lo and lo on hi
        if mods[hi].name not in mods[lo].deps:
            mods[lo].deps.append(mods[hi].name)
        mods[hi].deps.append(mods[lo].name)
        cycle_members = {mods[lo].name, mods[hi].name}
    return mods, cycle_members


def reaches_cycle(mods, name, cycle_members, seen=None):
    if not cycle_members:
        return False
    seen = seen or set()
    if name in seen:
        return False
    seen.add(name)
    if name in cycle_members:
        return True
    spec = {m.name: m for m in mods}[name]
    return any(reaches_cycle(mods, d, cycle_members, seen) for d in spec.deps)


class ModuleModel:
    def __init__(self, mods, cycle_members):
        self.specs = {m.name: m for m in mods}
        self.mods = mods
        self.cycle = cycle_members
        self.loaded = []        # in load-start order
        self.state = {}
        self.pv = {}            # current value of the public variable pv

    def load(self, name, out, stack=None):
        """Simulate loading; appends markers to out; raises Cycle.  Modules
        that were completely loaded before a failure stay cached."""
        stack = stack if stack is not None else []
        if name in self.state:
            return
        if name in stack:
            raise Cycle(name)
        out.append(f"LOAD {name}\n")
        stack.append(name)
        try:
            for d in self.specs[name].deps:
                self.load(d, out, stack)
        finally:
            stack.pop()
        self.loaded.append(name)
        self.state[name] = 0
        self.pv[name] = 0


class Cycle(Exception):
    pass


def run_session(mods, cycle_members, steps, use_path):
    """Returns Finding or None."""
    from ckl.interpreter import Interpreter
    from ckl.errors import CklRuntimeError, CklSyntaxError
    from ckl import values as cv
    home = tempfile.mkdtemp(prefix="vf_c11_home_")
    old_home = os.environ.get("HOME")
    text = []
    try:
        moddir = os.path.join(home, "mods") if use_path else \
            os.path.join(home, ".ckl", "modules")
        os.makedirs(moddir)
        for m in mods:
            with open(os.path.join(moddir, m.name + ".ckl"), "w") as f:
                f.write(m.source())
        os.environ["HOME"] = home
        it = Interpreter(False, True)
        if use_path:
            lst = cv.ValueList()
            lst.addItem(cv.ValueString(moddir))
            it.base_environment.put("checkerlang_module_path", lst)
        model = ModuleModel(mods, cycle_members)
        bound = {}      # importer name -> ("module", m) | ("sym", m, n)
        poked = set()   # module-object bindings the importer added a member to

        def run(src):
            out = io.StringIO()
            it.setStandardOutput(out)
            try:
                with time_limit(10):
                    v = it.interpret(src, "imp.ckl")
                return ("value", cklrun.to_model(v), out.getvalue())
            except CklRuntimeError as e:
                return ("error", cklrun.to_model(e.value), out.getvalue())
            except CklSyntaxError as e:
                return ("syntax", e.msg, out.getvalue())
            except CaseTimeout:
                return ("timeout", None, out.getvalue())
            except BaseException as e:
                return ("host:" + type(e).__name__, str(e)[:200],
                        out.getvalue())

        def fail(sig, msg):
            desc = "\n  ".join(
                [f"--- {m.name}.ckl: " + m.source().replace("\n", " ")
                 for m in mods] + text)
            return Finding(f"C11|{sig}", desc + "\n  " + msg)

        r = run("def importer_var = 123")
        for step in steps:
            form, mname = step[0], step[1]
            spec = model.specs[mname]
            before = run("ls()")
            if before[0] != "value":
                return fail("ls-fails", f"ls() -> {before}")
            before_names = set(before[1])
            expect_new = set()
            if form == "plain":
                style = step[2] if len(step) > 2 else "ident"
                if style == "str":
                    src = f"require '{mname}'"
                elif style == "strext":
                    src = f"require '{mname}.ckl'"
                elif style == "var":
                    run(f"def spec_{mname} = '{mname}'")
                    before = run("ls()")
                    before_names = set(before[1])
                    src = f"require spec_{mname}"
                else:
                    src = f"require {mname}"
                expect_new = {mname}
            elif form == "as":
                alias = step[2]
                src = f"require {mname} as {alias}"
                expect_new = {alias}
            elif form == "import":
                items = step[2]      # list of (name, alias|None)
                src = f"require {mname} import [" + ", ".join(
                    n if a is None else f"{n} as {a}" for n, a in items) + "]"
                pub = spec.public_names()
                expect_new = {(a or n) for n, a in items if n in pub}
            elif form == "unqualified":
                src = f"require {mname} unqualified"
                expect_new = set(spec.public_names())
            elif form == "infunction":
                src = (f"def imp_fn() do require {mname} as loc_b; "
                       f"loc_b->peek() end; imp_fn()")
                expect_new = {"imp_fn"}
            else:
                raise ValueError(form)
            text.append(src)
            want_out = []
            try:
                model.load(mname, want_out)
                cyc = False
            except Cycle:
                cyc = True
            res = run(src)
            if cyc:
                if res[0] != "error":
                    return fail("cycle-not-reported",
                                f"{src} -> {res[:2]}; the dependency graph "
                                f"of {mname} contains a cycle")
                if res[2] != "".join(want_out):
                    return fail("cycle|load-markers",
                                f"{src} printed {res[2]!r}, the model says "
                                f"{''.join(want_out)!r}")
                after = run("ls()")
                extra = set(after[1]) - before_names - \
                    ({"imp_fn"} if form == "infunction" else set())
                if extra:
                    return fail("names-bound-after-failed-require",
                                f"after failing {src}: {sorted(extra)}")
                continue
            if res[0] != "value":
                return fail(f"{form}|require-fails", f"{src} -> {res}")
            if res[2] != "".join(want_out):
                return fail(f"{form}|load-markers",
                            f"{src} printed {res[2]!r}, the model says "
                            f"{''.join(want_out)!r} (each module's top-level "
                            f"code runs at most once)")
            if form == "infunction" and res[1] != model.state[mname]:
                return fail("infunction|state", f"{src} -> {res[1]!r}, "
                            f"model {model.state[mname]}")
            after = run("ls()")
            after_names = set(after[1])
            if after_names != before_names | expect_new:
                return fail(
                    f"{form}|names",
                    f"after {src} the importer sees "
                    f"+{sorted(after_names - before_names)} "
                    f"-{sorted(before_names - after_names)}; requested "
                    f"{sorted(expect_new - before_names)}")
            # record bindings
            if form == "plain":
                bound[mname] = ("module", mname)
            elif form == "as":
                bound[step[2]] = ("module", mname)
            elif form == "import":
                for n, a in step[2]:
                    if n in spec.public_names():
                        bound[a or n] = ("sym", mname, n)
            elif form == "unqualified":
                for n in spec.public_names():
                    bound[n] = ("sym", mname, n)
            # a fresh binding exposes the module's definitions as they are now
            fresh = None
            if form == "plain":
                fresh = mname
            elif form == "as":
                fresh = step[2]
            if fresh is not None:
                r = run(f"[{fresh}->pv, {fresh}->getpv()]")
                cur = model.pv[mname]
                if r[:2] != ("value", [cur, cur]):
                    return fail("fresh-binding-stale-value",
                                f"right after {src}: [{fresh}->pv, "
                                f"{fresh}->getpv()] = {r[:2]}, the module's "
                                f"pv is {cur}")
                if fresh in poked:
                    poked.discard(fresh)
            elif form == "import":
                for n, a in step[2]:
                    if n == "pv":
                        r = run(a or n)
                        if r[:2] != ("value", model.pv[mname]):
                            return fail("fresh-binding-stale-value",
                                        f"after {src}: {a or n} = {r[:2]}, "
                                        f"the module's pv is "
                                        f"{model.pv[mname]}")
            elif form == "unqualified":
                r = run("pv")
                if r[:2] != ("value", model.pv[mname]):
                    return fail("fresh-binding-stale-value",
                                f"after {src}: pv = {r[:2]}, the module's pv "
                                f"is {model.pv[mname]}")
            # exercise the bindings of this module
            for bname, b in list(bound.items()):
                if b[1] != mname:
                    continue
                if b[0] == "module":
                    r = run(f"sorted(ls({bname}))")
                    want = sorted(spec.public_names() |
                                  ({"extra_q"} if bname in poked else set()))
                    if r[0] != "value" or r[1] != want:
                        return fail("module-members",
                                    f"ls({bname}) = {r[:2]}, public names of "
                                    f"{mname} are {want}")
                    if bname not in poked:
                        r = run(f"sorted(ls({bname}))")
                    # the module re-assigns a public variable
                    newpv = 10 + len(text)
                    text.append(f"{bname}->setpv({newpv})")
                    r = run(f"{bname}->setpv({newpv})")
                    model.pv[mname] = newpv
                    r = run(f"{bname}->getpv()")
                    if r[:2] != ("value", newpv):
                        return fail("module-state",
                                    f"{bname}->getpv() -> {r[:2]} after "
                                    f"setpv({newpv})")
                    # the importer adds a member to ITS module object
                    if len(text) % 3 == 0:
                        text.append(f"{bname}->extra_q = 7")
                        run(f"{bname}->extra_q = 7")
                        poked.add(bname)
                    text.append(f"{bname}->bump()")
                    r = run(f"{bname}->bump()")
                    model.state[mname] += 1
                    if r[:2] != ("value", model.state[mname]) or r[2]:
                        return fail("shared-state",
                                    f"{bname}->bump() -> {r}, the model's "
                                    f"single instance of {mname} is at "
                                    f"{model.state[mname]}")
                    r = run(f"do {bname}->probe() catch all 'E' end")
                    if r[:2] != ("value", "E"):
                        return fail("module-sees-importer-variable",
                                    f"{bname}->probe() -> {r[:2]} although "
                                    f"importer_var is only defined in the "
                                    f"importer")
                    for p in PRIVATE:
                        r = run(f"'{p}' in ls({bname})")
                        if r[:2] != ("value", False):
                            return fail("private-exported",
                                        f"{p} is a member of {bname}")
                    for d in spec.deps:
                        text.append(f"{bname}->via_{d}()")
                        r = run(f"{bname}->via_{d}()")
                        model.state[d] += 1
                        if r[:2] != ("value", model.state[d]):
                            return fail("shared-state-through-dependency",
                                        f"{bname}->via_{d}() -> {r[:2]}, "
                                        f"model {model.state[d]}")
                else:
                    n = b[2]
                    if n == "bump":
                        text.append(f"{bname}()")
                        r = run(f"{bname}()")
                        model.state[mname] += 1
                        if r[:2] != ("value", model.state[mname]):
                            return fail("shared-state",
                                        f"{bname}() -> {r[:2]}, model "
                                        f"{model.state[mname]}")
                    elif n == "peek":
                        r = run(f"{bname}()")
                        if r[:2] != ("value", model.state[mname]):
                            return fail("shared-state",
                                        f"{bname}() (peek of {mname}) -> "
                                        f"{r[:2]}, model {model.state[mname]}")
                    elif n == "probe":
                        r = run(f"do {bname}() catch all 'E' end")
                        if r[:2] != ("value", "E"):
                            return fail("module-sees-importer-variable",
                                        f"{bname}() -> {r[:2]}")
                    elif n in ("pv", "setpv", "getpv"):
                        pass
                    elif n in spec.values:
                        r = run(bname)
                        if r[:2] != ("value", spec.values[n]):
                            return fail("imported-value",
                                        f"{bname} -> {r[:2]}, {mname} "
                                        f"defines {spec.values[n]}")
                    elif n in spec.funcs:
                        r = run(f"{bname}()")
                        if r[:2] != ("value", spec.funcs[n]):
                            return fail("imported-function",
                                        f"{bname}() -> {r[:2]}")
            for p in PRIVATE:
                r = run(f"'{p}' in ls()")
                if r[:2] != ("value", False):
                    return fail("private-exported",
                                f"{p} is visible in the importer after {src}")
        # every successfully loaded module printed its marker exactly once:
        # implied by the per-step comparison of stdout
        return None
    finally:
        if old_home is None:
            os.environ.pop("HOME", None)
        else:
            os.environ["HOME"] = old_home
        shutil.rmtree(home, ignore_errors=True)


def gen_steps(ch, mods):
    steps = []
    names = [m.name for m in mods]
    specs = {m.name: m for m in mods}
    used_alias = 0
    for _ in range(ch.int(2, 7)):
        m = ch.choice(names)
        form = ch.choice(["plain", "as", "import", "unqualified",
                          "infunction", "plain", "as"])
        if form == "as":
            used_alias += 1
            steps.append(("as", m, f"al{used_alias}"))
        elif form == "import":
            pub = sorted(specs[m].public_names())
            items = []
            for n in ch.sample(pub, ch.int(0, min(3, len(pub)))):
                used_alias += 1
                items.append((n, f"im{used_alias}" if ch.bool() else None))
            if items and ch.bool(0.35):
                # the same symbol once more, under another alias
                used_alias += 1
                items.insert(ch.int(0, len(items)),
                             (ch.choice(items)[0], f"im{used_alias}"))
            if ch.bool(0.3):
                items.append((ch.choice(PRIVATE), None))
            steps.append(("import", m, items))
        elif form == "plain":
            steps.append(("plain", m, ch.choice(["ident", "ident", "str",
                                                 "strext", "var"])))
        else:
            steps.append((form, m))
    return steps


def encode(mods, cycle, steps, use_path):
    return {
        "mods": [{"name": m.name, "values": m.values, "funcs": m.funcs,
                  "private": m.private, "deps": m.deps, "cls": m.cls}
                 for m in mods],
        "cycle": sorted(cycle),
        "steps": [list(s[:2]) + ([s[2]] if len(s) > 2 else [])
                  for s in steps],
        "use_path": use_path,
    }


def prop(case):
    mods = []
    for d in case["mods"]:
        m = ModSpec(d["name"])
        m.values, m.funcs = dict(d["values"]), dict(d["funcs"])
        m.private, m.deps = list(d["private"]), list(d["deps"])
        m.cls = d.get("cls")
        mods.append(m)
    steps = []
    for s in case["steps"]:
        if s[0] == "import":
            steps.append(("import", s[1], [tuple(x) for x in s[2]]))
        else:
            steps.append(tuple(s))
    return run_session(mods, set(case["cycle"]), steps, case["use_path"])


def part_graphs(part, n):
    def body(tape):
        ch = TapeChooser(tape)
        mods, cycle = gen_graph(ch)
        steps = gen_steps(ch, mods)
        use_path = ch.bool(0.3)
        part.count()
        indeg = {}
        for m in mods:
            for d in m.deps:
                indeg[d] = indeg.get(d, 0) + 1
        forms_per_mod = {}
        for s in steps:
            forms_per_mod.setdefault(s[1], set()).add(s[0])
        multi_path = any(v >= 2 for v in indeg.values()) or bool(cycle)
        multi_form = any(len(v) >= 2 for v in forms_per_mod.values())
        if multi_path and multi_form:
            part.nontriv(repr(encode(mods, cycle, steps, use_path)))
        part.cls("graph:" + ("cyclic" if cycle else "acyclic") +
                 (":module-path" if use_path else ":home"),
                 "; ".join(f"{m.name}->{m.deps}" for m in mods))
        for s in steps:
            part.cls("form:" + s[0])
        f = run_session(mods, cycle, steps, use_path)
        if f:
            return f, encode(mods, cycle, steps, use_path)
    part.hyp(tapes(400), body, n)


def parts(tier, seed):
    if tier == "quick":
        return [(f"graphs-{i}", part_graphs, {"n": 120}) for i in range(12)]
    return [(f"graphs-{i}", part_graphs, {"n": 1200}) for i in range(12)]
