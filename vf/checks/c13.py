"""C13  Only language-level errors escape evaluation."""
import itertools
import os

from vf.core import Finding
from vf import sweep

PROPERTY = "C13"
RULE = (
    "Exhaustive pool sweep: every distinct function object of the legacy base "
    "environment and of every bundled module (about 220) is called with all "
    "argument tuples of arity 0..min(3, declared arity) from a pool of 28 "
    "values (NULL TRUE FALSE 0 1 -1 3 2.5 0.0 '' 'a' 'abc' '1' [] [1,2,3] "
    "['a','b'] [[1,2],[3,4]] <<>> <<1,2>> <<<>>> <<<'a'=>1>>> <*a=1*> //a// a "
    "date, a lambda, a native, string input and output streams), fresh objects "
    "per position plus the diagonal with one shared object; the non-legacy "
    "environment for arity <= 2; and about 90 syntactic forms (operators, "
    "in / is forms, indexing, slicing, element and member assignment, method "
    "and pipeline calls, for / comprehension / spread / destructuring forms, "
    "if / while / error / catch). quick: arity <= 2 exhaustive and a seeded "
    "sample of arity 3; thorough: everything. Oracle: a value that is a "
    "proper language value, or CklRuntimeError carrying a language value, or "
    "CklSyntaxError (text-evaluating built-ins), within 2 s (confirmed alone "
    "with 20 s). Non-trivial = distinct (function or form, argument kinds) "
    "that got past argument binding."
)
ASSUMPTIONS = [
    "non-secure interpreter; cwd and HOME are scratch directories; stdin is "
    "a two-line string",
    "the pool's largest int is 3, so time-outs mean loops without progress, "
    "not big outputs",
    "open findings are identified by <function or form>|<exception class or "
    "BADVALUE or TIMEOUT>|<innermost repository frame>",
]

FORMS = [
    # binary operators
    "A + B", "A - B", "A * B", "A / B", "A % B", "A == B", "A != B", "A <> B",
    "A < B", "A <= B", "A > B", "A >= B", "A and B", "A or B", "A in B",
    "A not in B", "A is B", "A is not B", "A is in B", "A is not in B",
    "A < B < C", "A == B != C",
    "A starts with B", "A starts not with B", "A ends with B",
    "A ends not with B", "A contains B", "A contains not B", "A matches B",
    "A matches not B",
    # unary and predicate forms
    "not A", "- A", "+ A", "A is empty", "A is not empty", "A is zero",
    "A is not zero", "A is negative", "A is not negative", "A is numerical",
    "A is not numerical", "A is alphanumerical", "A is date",
    "A is date with hour", "A is time", "A is string", "A is int",
    "A is decimal", "A is boolean", "A is pattern", "A is None", "A is func",
    "A is input", "A is output", "A is list", "A is set", "A is map",
    "A is object", "A is node", "A is not list",
    "A is numerical min_len B", "A is numerical max_len B",
    "A is alphanumerical exact_len B",
    # indexing, slicing, assignment
    "A[B]", "A[B, C]", "A[B to C]", "A[B to *]", "A[B] = C", "A[B] += C",
    "A->a", "A->a = B", "A->a(B)", "A->m(B)", "B !> A(C)", "A(B)", "A(B, C)",
    "A(...B)", "A(a = B)", "A !> identity()",
    # iteration forms
    "for x in A do x end", "for [x, y] in A do x end",
    "for x in keys A do x end", "for x in values A do x end",
    "for x in entries A do x end", "for [x, y] in entries A do y end",
    "[x for x in A]", "[x for x in keys A]", "[x for x in values A]",
    "[x for x in entries A]", "[x for x in A if B]",
    "[[x, y] for x in A for y in B]", "[[x, y] for x in A also for y in B]",
    "<<x for x in A>>", "<<[x, y] for x in A for y in B>>",
    "<<[x, y] for x in A also for y in B>>",
    "<<<x => B for x in A>>>", "<<<B => x for x in A>>>",
    # spread, literals, destructuring
    "[...A]", "[...A, ...B]", "(fn(r...) r...)(...A)",
    "(fn(a = 1, b = 2) [a, b])(...A)", "[A, B]", "<<A, B>>",
    "<<<identity(A) => B>>>", "<*a = A*>",
    "def [x, y] = A; [x, y]", "def x = 1; def y = 2; [x, y] = A; [x, y]",
    # more names than elements (the missing ones are NULL)
    "for [x, y, z] in A do z end", "for [x, y, z] in entries A do z end",
    "def [x, y, z] = A; z", "def x = 1; def y = 2; def z = 3; [x, y, z] = A; z",
    "(fn(a, b = 2, c = 3) c)(...A)",
    # control
    "if A then 1 else 2", "if B then 1 elif A then 2", "while A do break end",
    "error A", "do error B catch A 1 end", "do error A catch all 2 end",
    "do A finally B end", "return A", "(fn() A)()",
    "require A", "s(A)", "eval(A)", "string(A) + B",
]


def form_src(form, nargs):
    src = form
    for ph, var in (("A", "p0"), ("B", "p1"), ("C", "p2")):
        src = _replace_placeholder(src, ph, var)
    return src


def _replace_placeholder(src, ph, var):
    out = []
    i = 0
    n = len(src)
    while i < n:
        c = src[i]
        if c == ph and (i == 0 or not (src[i - 1].isalnum() or src[i - 1] == "_")) \
                and (i + 1 == n or not (src[i + 1].isalnum() or src[i + 1] == "_")):
            out.append(var)
        else:
            out.append(c)
        i += 1
    return "".join(out)


def form_arity(form):
    n = 0
    for k, ph in enumerate("ABC"):
        if _replace_placeholder(form, ph, "\0") != form:
            n = k + 1
    return n


_SW = {}


def sweeper(legacy=True):
    key = (os.getpid(), legacy)
    if key not in _SW:
        _SW[key] = sweep.Sweeper(legacy)
    return _SW[key]


def run_case(case, budget=2.0):
    """Returns (outcome, label)."""
    sw = sweeper(case.get("legacy", True))
    args = case["args"]
    vals = [sw.make(i) for i in args]
    if case.get("shared") and len(vals) >= 2:
        vals[1] = vals[0]
    bindings = {f"p{k}": v for k, v in enumerate(vals)}
    if case["kind"] == "call":
        fn = None
        for label, f, names in sw.functions:
            if label == case["fn"]:
                fn = f
                break
        if fn is None:
            return ("missing",), case["fn"]
        bindings["f"] = fn
        src = "f(" + ", ".join(f"p{k}" for k in range(len(vals))) + ")"
        label = case["fn"]
    else:
        src = form_src(case["form"], len(vals))
        label = "form:" + case["form"]
    out = sw.run_src(src, bindings, budget)
    if out[0] not in ("value", "error", "syntax"):
        sw.reset_cwd()
    return out, label


def verdict(out, label):
    if out[0] == "host":
        return Finding(f"{label}|{out[1]}|{out[2]}", f"{out[1]}: {out[3]}")
    if out[0] == "badvalue":
        return Finding(f"{label}|BADVALUE", out[1])
    if out[0] == "timeout":
        return Finding(f"{label}|TIMEOUT", "no result within the budget")
    return None


def prop(case):
    budget = float(os.environ.get("VF_CASE_BUDGET", "20"))
    out, label = run_case(case, budget)
    if out[0] == "missing":
        return None
    return verdict(out, label)


def describe(case):
    a = ", ".join(sweep.POOL_SRC[i] for i in case["args"])
    if case["kind"] == "call":
        return f"{case['fn']}({a})" + (" [shared]" if case.get("shared")
                                       else "")
    return f"{case['form']}  with  {a}"


def _handle(part, case, state):
    part.count()
    out, label = run_case(case)
    kinds = tuple(sweep.POOL_KIND[i] for i in case["args"])
    if out[0] == "error":
        msg = ""
    if len(case["args"]) > 0 and out[0] != "missing":
        part.nontriv((label, kinds))
    f = verdict(out, label)
    if f is None:
        return
    f.detail = describe(case) + " -> " + f.detail
    if out[0] == "timeout":
        # confirm once per label, afterwards only count
        if part.judge(Finding(f.signature), case) is None:
            return
        if label in state["timed_out"]:
            part.timeouts += 1
            return
        state["timed_out"].add(label)
        if not sweep.confirm_timeout(PROPERTY, case):
            part.timeouts += 1
            return
        f.detail = describe(case) + " -> no result within 20 s in a " \
            "fresh process"
    part.collect(f, case)
    part.cls("finding-bucket:" + f.signature.split("|")[1])


def tuples(n, arity, diagonal=True):
    for t in itertools.product(range(n), repeat=arity):
        yield list(t), False
    if diagonal and arity >= 2:
        for i in sorted(sweep.MUTABLE):
            for rest in itertools.product(range(n), repeat=arity - 2):
                yield [i, i] + list(rest), True


def part_functions(part, shard, nshards, max_arity, sample3, legacy=True):
    sw = sweeper(legacy)
    state = {"timed_out": set()}
    n = sweep.N
    import random
    rnd = random.Random(part.seed)
    idx = 0
    for label, fn, names in sw.functions:
        idx += 1
        if idx % nshards != shard:
            continue
        declared = len([x for x in names if not x.endswith("...")])
        top = 3 if any(x.endswith("...") for x in names) else min(3, declared)
        top = min(top, max_arity)
        for arity in range(0, top + 1):
            for args, shared in tuples(n, arity):
                if arity == 3 and sample3 < 1.0 and rnd.random() >= sample3:
                    continue
                case = {"kind": "call", "fn": label, "args": args,
                        "legacy": legacy}
                if shared:
                    case["shared"] = True
                _handle(part, case, state)
        part.cls("function-swept", label if idx % 23 == 0 else None)
    part.exhaustive = (sample3 >= 1.0 and max_arity >= 3)
    sw.close()


def part_forms(part, shard, nshards, sample3):
    sw = sweeper(True)
    state = {"timed_out": set()}
    import random
    rnd = random.Random(part.seed)
    for k, form in enumerate(FORMS):
        if k % nshards != shard:
            continue
        arity = form_arity(form)
        for args, shared in tuples(sweep.N, arity):
            if arity == 3 and sample3 < 1.0 and rnd.random() >= sample3:
                continue
            case = {"kind": "form", "form": form, "args": args}
            if shared:
                case["shared"] = True
            _handle(part, case, state)
        part.cls("form-swept", form if k % 9 == 0 else None)
    part.exhaustive = sample3 >= 1.0
    sw.close()


def parts(tier, seed):
    ps = []
    if tier == "quick":
        ps += [(f"fn-{i}", part_functions,
                {"shard": i, "nshards": 10, "max_arity": 3, "sample3": 0.05})
               for i in range(10)]
        ps += [(f"forms-{i}", part_forms,
                {"shard": i, "nshards": 4, "sample3": 0.1})
               for i in range(4)]
        ps += [(f"nonlegacy-{i}", part_functions,
                {"shard": i, "nshards": 2, "max_arity": 2, "sample3": 0.0,
                 "legacy": False}) for i in range(2)]
    else:
        ps += [(f"fn-{i}", part_functions,
                {"shard": i, "nshards": 24, "max_arity": 3, "sample3": 1.0})
               for i in range(24)]
        ps += [(f"forms-{i}", part_forms,
                {"shard": i, "nshards": 6, "sample3": 1.0})
               for i in range(6)]
        ps += [(f"nonlegacy-{i}", part_functions,
                {"shard": i, "nshards": 2, "max_arity": 2, "sample3": 0.0,
                 "legacy": False}) for i in range(2)]
    return ps
