"""Reproductions for the C20 hunt (reported source lines).

Run with:
  cd /tmp/seed3/C20 && PYTHONPATH=/tmp/seed3/C20/src /venv/bin/python hunt/repro.py

Prints one line per finding: FINDING <n>: <VIOLATES|HOLDS> <description>
Only the ckl package and the standard library are used.
"""
import os
import signal
import sys

sys.path.insert(0, os.path.join(os.path.dirname(os.path.abspath(__file__)),
                                "..", "src"))

from ckl.interpreter import Interpreter  # noqa: E402
from ckl.errors import CklRuntimeError, CklSyntaxError  # noqa: E402

sys.setrecursionlimit(max(sys.getrecursionlimit(), 1000))


class Timeout(Exception):
    pass


def _alarm(*_):
    raise Timeout()


signal.signal(signal.SIGALRM, _alarm)


def run(src, legacy=True, name="t.ckl"):
    """returns (kind, msg, pos-object-or-None, stacktrace)"""
    signal.alarm(8)
    try:
        it = Interpreter(secure=False, legacy=legacy)
        v = it.interpret(src, name)
        return ("OK", str(v), None, [])
    except CklRuntimeError as e:
        return ("RT", str(e.msg), e.pos, list(e.stacktrace))
    except CklSyntaxError as e:
        return ("SY", str(e.msg), e.pos, [])
    except Timeout:
        return ("TIMEOUT", "", None, [])
    except BaseException as e:  # noqa
        return ("PY", type(e).__name__ + ": " + str(e), None, [])
    finally:
        signal.alarm(0)


def line_of(r):
    return None if r[2] is None else r[2].line


def report(n, violates, desc):
    print(f"FINDING {n}: {'VIOLATES' if violates else 'HOLDS'} {desc}")


def both(fn):
    """a probe violates if it violates in legacy or in non-legacy mode"""
    return any(fn(legacy) for legacy in (True, False))


# ---------------------------------------------------------------- finding 1
def f1(legacy):
    pre = ("def inp = str_input('a\\nb');\n" if legacy
           else "require IO;\ndef inp = IO->str_input('a\\nb');\n")
    base = pre.count("\n")
    bad = 0
    for body in ["undefined_name", "error 'boom'", "1 + [1] * 'a'"]:
        src = pre + "\nfor line in inp do\n  1;\n  " + body + "\nend"
        r = run(src, legacy)
        # the fault is on line base+4, the `for` keyword on base+2
        if r[0] == "RT" and line_of(r) != base + 4:
            bad += 1
    return bad > 0


report(1, both(f1),
       "fault inside the body of a for-loop over an input object is "
       "reported as 'Cannot read from input' at the line of `for`")


# ---------------------------------------------------------------- finding 2
def f2(legacy):
    progs = [
        "\n\n[x for x in 5]",
        "\n\n[x + y for x in [1] for y in 5]",
        "\n\n[x + y for x in [1] also for y in 5]",
        "\n\n<<x for x in 5>>",
        "\n\n<<x + y for x in [1] for y in 5>>",
        "\n\n<<x + y for x in [1] also for y in 5>>",
        "\n\n<<<x => x for x in 5>>>",
        "\n\nbind_native('nosuch')",
        "\n\nls(1)",
    ]
    if legacy:
        progs += ["\n\npow('a', 2)", "\n\npow(2, 'a')",
                  "\n\nprocess_lines(['a'], 5)",
                  "\n\ngrep(1, 1, 1)", "\n\nmap_list(1, 1)"]
    else:
        progs += ["require Math;\n\nMath->pow('a', 2)",
                  "require IO;\n\nIO->process_lines(['a'], 5)",
                  "require List;\n\nList->map_list(1, 1)"]
    bad = 0
    for p in progs:
        r = run(p, legacy)
        if r[0] == "RT" and r[2] is None:
            bad += 1
    return bad > 0


report(2, both(f2),
       "runtime errors that carry no position at all (comprehension over a "
       "non-iterable value, pow/process_lines/ls/bind_native argument errors)")


def f2b(legacy):
    r = run("\n\n" + "[" * 600 + "1" + "]" * 600, legacy)
    return r[0] == "RT" and r[2] is None


report("2b", both(f2b),
       "'Maximum recursion depth exceeded' for a deeply nested expression "
       "carries no position")


# ---------------------------------------------------------------- finding 3
def f3(legacy):
    # line 2: `1 !> (fn(a, b) a + b`, line 3: `)`, line 4: `()`
    r = run("\n1 !> (fn(a, b) a + b\n)\n()", legacy)
    # the construct begins on line 2 (operand / `!>`), the argument list on 4
    v1 = r[0] == "RT" and line_of(r) == 3 and \
        any(s.endswith("t.ckl:3:1") for s in r[3])
    # error inside the lambda: stack entry for the call names the `)` line
    r = run("\n1 !> (fn(a)\n a + foo\n)\n()", legacy)
    v2 = r[0] == "RT" and any(":4:" in s for s in r[3])
    return v1 or v2


report(3, both(f3),
       "`x !> (fn ...)(...)`: runtime error and stack-trace entry name the "
       "line of the `)` that closes the lambda (where it ends)")


def f3b(legacy):
    src = ("def o = <*a = <*f = fn(x, y) x*>*>;\n"
           "1 !>\no\n->\na\n->\nf\n(\n)")
    r = run(src, legacy)
    # `!>` on 2, designator starts on 3, `f` on 7, `(` on 8
    return r[0] == "RT" and line_of(r) == 7


report("3b", both(f3b),
       "(doubtful) `x !> o->a->f()`: position is the LAST identifier of the "
       "function designator, not `!>`, its first token or `(`")


# ---------------------------------------------------------------- finding 4
def f4(legacy):
    # string starts on line 2, the escape `\xg<newline>` starts on line 2
    r = run("\n'abc\\xg\n'", legacy)
    return r[0] == "SY" and line_of(r) == 3


report(4, both(f4),
       "invalid hex escape whose second digit is a line break is reported on "
       "the following line (column 0); token and escape begin one line above")


def f4b(legacy):
    r = run('\n"abc\n\n\\xZZ"', legacy)
    return r[0] == "SY" and line_of(r) == 4  # the string token begins on 2


report("4b", both(f4b),
       "(doubtful) invalid hex escape in a multi-line string: line of the "
       "escape, not the line where the string token begins")


# ---------------------------------------------------------------- finding 5
def f5(legacy):
    r = run("\n\ns('{foo}')", legacy)
    v1 = r[0] == "RT" and str(r[2]) == "t.ckl:1:1"
    r = run("\n\ns('{1 * \"a\"}')", legacy)
    v2 = r[0] == "RT" and line_of(r) == 1 and \
        any(s.startswith("mul(") and "t.ckl:1:" in s for s in r[3])
    return v1 or v2


report(5, both(f5),
       "fault in an s() placeholder on line 3 is reported (error and stack "
       "entry) as t.ckl line 1")


def f5b(legacy):
    src = "def g = eval('fn(x) x * \"a\"');\n\n\ng(2)"
    r = run(src, legacy, "c.ckl")
    v1 = r[0] == "RT" and str(r[2]).startswith("c.ckl:1:")
    src = "def n = parse('\\n\\nfoo');\n\n\n\n\neval(n)"
    r = run(src, legacy, "d.ckl")
    v2 = r[0] == "RT" and str(r[2]) == "d.ckl:3:1"
    return v1 or v2


report("5b", both(f5b),
       "(doubtful) code from eval()/parse() strings: script file name with "
       "line numbers relative to the string")


# ---------------------------------------------------------------- finding 6
def f6(legacy):
    r = run("f(1,\n  2,\n\n  'abc\n)", legacy)
    return r[0] == "SY" and line_of(r) == 2  # literal begins on line 4


report(6, both(f6),
       "(doubtful) unterminated string literal on line 4: 'Unexpected end of "
       "input' names line 2 (last complete token)")


# ---------------------------------------------------------------- finding 7
def f7(legacy):
    r1 = run("def x = 5;\n[\n1,\n2,\n...x]", legacy)
    r2 = run("def x = 5; def f(a...) a;\nf(\n1,\n...x)", legacy)
    return (r1[0] == "RT" and line_of(r1) == 2) or \
        (r2[0] == "RT" and line_of(r2) == 2)


report(7, both(f7),
       "(doubtful) 'Cannot spread int value' names the line of the enclosing "
       "`[` / `(`, not of the `...x` token")


# ---------------------------------------------------------------- finding 8
def f8(legacy):
    r = run("1;\r2;\rfoo", legacy)
    return r[0] == "RT" and line_of(r) == 1


report(8, both(f8),
       "(doubtful) lone CR line breaks are not counted: fault on the third "
       "CR-separated line reported on line 1")


# ---------------------------------------------------------------- finding 9
def f9(legacy):
    r = run("def f(x) x + foo;\n\n\nf(1)", legacy, "")
    return r[0] == "RT" and str(r[2]) == "-" and \
        any(s.endswith(" -") for s in r[3])


report(9, both(f9),
       "(doubtful) empty/None file name: rendered position and stack-trace "
       "entries are '-' and lose the line number")


# --------------------------------------------------------------- finding 10
def f10(legacy):
    r = run("def not_equals(a, b) error 'x';\n1 is\nnot 2", legacy)
    return r[0] == "RT" and any(s.endswith("t.ckl:3:1") for s in r[3])


report(10, both(f10),
       "(doubtful) `is` NEWLINE `not`: call position of the comparison is "
       "the `not` token, not the `is` token where the operator begins")
