import os
import sys

root = os.environ.get("VERIF_REPO") or os.path.dirname(os.path.abspath(__file__))
sys.path.insert(0, os.path.join(root, "src"))

from ckl.interpreter import Interpreter  # noqa: E402


def run(src):
    """Returns ('ok', text of result) or ('err', message)."""
    try:
        return "ok", str(Interpreter(False, False).interpret(src, "x"))
    except Exception as e:  # CklRuntimeError / CklSyntaxError
        return "err", str(getattr(e, "msg", e))


def report(n, violated, description):
    if violated:
        print(f"FINDING {n}: VIOLATES {description}")
    else:
        print(f"FINDING {n}: HOLDS")


# 1. def inside a comprehension element binds in a hidden scope, not in the
#    current function
kind, out = run(
    "def f() do def l = [do def t = x * 2; t; end for x in [1, 2]]; t; end; "
    "f()"
)
report(1, not (kind == "ok" and out == "4"),
       f"def inside a list comprehension did not bind in the function "
       f"({kind}: {out})")

# 2. a closure made in a for loop loses the loop variable when the loop ends
#    and then reads / assigns a variable of an outer scope with the same name
kind, out = run(
    "def total = 0; "
    "def mk() do def fs = []; "
    "for total in [1, 2] do "
    "append(fs, fn() do total = total + 100; end); end; fs; end; "
    "def fs = mk(); def r = fs[0](); [r, total]"
)
# per the statement the closure works on the binding of mk's scope; the
# global total must stay 0
report(2, not (kind == "ok" and out.endswith(", 0]")),
       f"closure created in a for loop inside mk() updated the global of "
       f"the same name after the loop ({kind}: {out})")

# 3. a parameter (or local def) named like the function behind an operator
#    captures the operator
kind, out = run("def f(sub) 5 - sub; f(2)")
report(3, not (kind == "ok" and out == "3"),
       f"parameter named sub breaks the operator - in the body "
       f"({kind}: {out})")

# 4. a spread map with the key '' is bound positionally, while any other
#    string key that is no parameter name is rejected
kind, out = run("def f(a, b) [a, b]; f(...<<<'' => 7, 'b' => 1>>>)")
report(4, kind == "ok",
       f"map key '' names no parameter but was bound as a positional "
       f"argument ({kind}: {out})")

# 5. the same named argument given twice is accepted, the last one wins
kind, out = run("def f(a, b) [a, b]; f(a = 1, a = 2, b = 3)")
report(5, kind == "ok",
       f"duplicate named argument silently accepted ({kind}: {out})")

# 6. a default declared on the rest parameter is never used
kind, out = run("def f(r... = [9]) r...; f()")
report(6, kind == "ok" and out == "[]",
       f"default of the rest parameter ignored ({kind}: {out})")

# 7. two parameters of one name: declaration accepted, a call with two
#    positionals fails with 'Too many arguments'
kind, out = run("def f(a, a) a; f(1, 2)")
report(7, kind == "err" and "Too many" in out,
       f"duplicate parameter name accepted at definition, 2 positionals for "
       f"2 parameters rejected ({kind}: {out})")
