"""C06  Equality is an equivalence that set membership and map lookup respect."""
import itertools

from vf.core import Finding
from vf.gen.chooser import TapeChooser, tapes
from vf.gen import values as gv
from vf.model import values as mv
from vf import cklrun

PROPERTY = "C06"
RULE = (
    "Hypothesis-generated data values to depth 3 (NULL, booleans, ints incl. "
    "2^53+-1 and 2^64, decimals incl. integral ones, adversarial strings, "
    "dates, patterns, nested lists/sets/maps) in pairs and triples built so "
    "that model-equal values with different representation (1 / 1.0, permuted "
    "set and map construction, nested variants) and near misses are frequent. "
    "(i) laws of == on the ckl.values API (reflexive, symmetric, transitive, "
    "!= is the negation) and agreement with model equality; (ii) a == b "
    "implies equal hashes; (iii) the same relations through interpreted "
    "== != <> equals not_equals; (iv) container scenarios: for a container "
    "built from xs in every sampled insertion order and any y equal to some "
    "x: membership, map lookup, removal, set and list difference, container "
    "== and the element count are those of the model; (v) two containers "
    "built from the same literal by the same generated mutation sequence "
    "(index / member assignment, put, remove, append, insert_at, delete_at, "
    "nested targets), one of them hashed, rendered and compared between the "
    "steps, are equal and interchangeable as set elements and map keys. "
    "Non-trivial = a pair of "
    "model-equal values with different representation, or nesting depth >= 2, "
    "or a non-identity permutation."
)
ASSUMPTIONS = [
    "NaN / infinite decimals are excluded (no literal; IEEE semantics)",
    "functions, streams and nodes compare by identity and are not data values",
]


def dec(s):
    import datetime
    return eval(s, {"datetime": datetime, "MSet": mv.MSet, "MMap": mv.MMap,
                    "Pat": mv.Pat, "__builtins__": {}}, {})


def depth_of(v):
    k = mv.kind(v)
    if k == "list":
        return 1 + max([depth_of(x) for x in v], default=0)
    if k == "set":
        return 1 + max([depth_of(x) for x in v.items], default=0)
    if k == "map":
        return 1 + max([max(depth_of(a), depth_of(b)) for a, b in v.pairs],
                       default=0)
    return 0


def same_repr(a, b):
    return repr(a) == repr(b)


# ------------------------------------------------------------------ API level

def api_triple(vals):
    cv = [cklrun.from_model(v) for v in vals]
    n = len(vals)
    eq = [[None] * n for _ in range(n)]
    for i in range(n):
        for j in range(n):
            try:
                eq[i][j] = bool(cv[i] == cv[j])
                ne = bool(cv[i] != cv[j])
                hi, hj = hash(cv[i]), hash(cv[j])
            except Exception as e:
                return Finding(f"C06|api|raises-{type(e).__name__}",
                               f"{vals[i]!r} == {vals[j]!r}: {e}")
            m = mv.meq(vals[i], vals[j])
            if eq[i][j] != m:
                return Finding(
                    "C06|api|eq-differs-from-model|"
                    + _kinds(vals[i], vals[j]),
                    f"{vals[i]!r} == {vals[j]!r} is {eq[i][j]}, model {m}")
            if ne == eq[i][j]:
                return Finding("C06|api|ne-not-negation",
                               f"{vals[i]!r}, {vals[j]!r}: == {eq[i][j]} "
                               f"!= {ne}")
            if eq[i][j] and hi != hj:
                return Finding("C06|api|equal-but-different-hash|"
                               + _kinds(vals[i], vals[j]),
                               f"{vals[i]!r} == {vals[j]!r} but hashes "
                               f"{hi} / {hj}")
    for i in range(n):
        if not eq[i][i]:
            return Finding("C06|api|not-reflexive", repr(vals[i]))
        for j in range(n):
            if eq[i][j] != eq[j][i]:
                return Finding("C06|api|not-symmetric",
                               f"{vals[i]!r}, {vals[j]!r}")
            for k in range(n):
                if eq[i][j] and eq[j][k] and not eq[i][k]:
                    return Finding("C06|api|not-transitive",
                                   f"{vals[i]!r}, {vals[j]!r}, {vals[k]!r}")
    return None


def _kinds(a, b):
    return "+".join(sorted({mv.kind(a), mv.kind(b)}))


# ---------------------------------------------------------- interpreter level

def interp_pair(a, b):
    pre = f"def a = {mv.literal(a)}; def b = {mv.literal(b)}"
    exprs = ["a == b", "b == a", "a != b", "a <> b", "equals(a, b)",
             "not_equals(a, b)", "a is b", "a is not b", "a == a",
             "[a] == [b]", "<<a>> == <<b>>", "<<<identity(a) => 1>>> == <<<identity(b) => 1>>>",
             "<<<1 => a>>> == <<<1 => b>>>", "a in [b]", "a in <<b>>",
             "a in <<<identity(b) => 0>>>", "length(<<a, b>>)"]
    m = mv.meq(a, b)
    want = [m, m, not m, not m, m, not m, m, not m, True, m, m, m, m, m, m, m,
            1 if m else 2]
    res = cklrun.run_batch(pre, exprs)
    for e, r, w in zip(exprs, res, want):
        if r[0] != "ok":
            return Finding(f"C06|interp|{e}|{r[0]}", f"{pre}; {e} -> {r}")
        if not (type(r[1]) is type(w) and r[1] == w):
            return Finding(f"C06|interp|{e}|" + _kinds(a, b),
                           f"{pre}; {e} = {r[1]!r}, model {w!r}")
    return None


def scenario(xs, y, perm):
    """Container scenario: xs list of values, y equal to some x (model), perm
    a permutation of range(len(xs))."""
    n = len(xs)
    classes = []
    for x in xs:
        if not any(mv.meq(x, c) for c in classes):
            classes.append(x)
    ncls = len(classes)
    xs_perm = [xs[i] for i in perm]
    X = mv.literal(xs)
    XP = mv.literal(xs_perm)
    Y = mv.literal(y)
    S1 = mv.literal(mv.MSet(xs)) if xs else "<<>>"
    # literal() of MSet dedupes by model; write the raw literals instead
    S_raw = "<< " + ", ".join(mv.literal(x) for x in xs) + " >>" if xs \
        else "<<>>"
    SP_raw = "<< " + ", ".join(mv.literal(x) for x in xs_perm) + " >>" if xs \
        else "<<>>"
    M_raw = "<<< " + ", ".join(f"{mv.key_literal(x)} => {i}"
                               for i, x in enumerate(xs)) + " >>>" if xs \
        else "<<<>>>"
    last_idx = max(i for i, x in enumerate(xs) if mv.meq(x, y))
    first_idx = min(i for i, x in enumerate(xs) if mv.meq(x, y))
    rest = [x for x in xs if not mv.meq(x, y)]
    REST_SET = "<< " + ", ".join(mv.literal(x) for x in rest) + " >>" \
        if rest else "<<>>"
    pre = (f"def xs = {X}; def y = {Y}; def s = {S_raw}; def sp = {SP_raw}; "
           f"def m = {M_raw}")
    exprs = [
        ("length(s)", ncls),
        ("length(sp)", ncls),
        ("length(set(xs))", ncls),
        ("s == sp", True),
        ("set(xs) == sp", True),
        ("y in s", True),
        ("y in sp", True),
        ("y in xs", True),
        ("y in m", True),
        ("m[y]", last_idx),
        ("length(m)", ncls),
        ("find(xs, y)", first_idx),
        (f"length(remove({S_raw}, y))", ncls - 1),
        (f"remove({SP_raw}, y) == {REST_SET}", True),
        (f"y in remove({S_raw}, y)", False),
        (f"s - <<y>> == {REST_SET}", True),
        (f"length(s - <<y>>)", ncls - 1),
        (f"xs - [y] == {mv.literal(rest)}", True),
        (f"length(remove({M_raw}, y))", ncls - 1),
        (f"y in remove({M_raw}, y)", False),
        (f"<<< identity(s) => 1 >>>[sp]", 1),
        (f"[s, 1] == [sp, 1.0]", True),
        (f"length(<<s, sp, set(xs)>>)", 1),
    ]
    res = cklrun.run_batch(pre, [e for e, _ in exprs])
    for (e, w), r in zip(exprs, res):
        if r[0] != "ok":
            return Finding(f"C06|scenario|{_strip(e)}|{r[0]}",
                           f"{pre}; {e} -> {r}")
        if not (type(r[1]) is type(w) and r[1] == w):
            return Finding(f"C06|scenario|{_strip(e)}",
                           f"{pre}; {e} = {r[1]!r}, model {w!r}")
    return None


def mutated(case):
    """The same generated mutation sequence builds two containers from two
    evaluations of the same literal; one of them is hashed / rendered /
    compared between the steps.  They are structurally equal at the end, so
    they must be equal and interchangeable as elements and keys."""
    body = []
    for what, text in case["steps"]:
        if what == "obs":
            body.append(f"if observe then do {text} catch all NULL end")
        else:
            body.append(f"do {text} catch all NULL end")
    src = (f"def build = fn(x, observe) do {'; '.join(body)}; x end; "
           f"def m = build({case['base']}, TRUE); "
           f"def o = build({case['base']}, FALSE); "
           f"[string([m]) == string([o]), m == o, o == m, o in <<m>>, "
           f"m in <<o>>, length(<<m, o>>), <<m>> == <<o>>, "
           f"<<<identity(m) => 1>>>[o], "
           f"length(remove(<<<identity(m) => 1>>>, o)), "
           f"length(remove(<<m>>, o)), m in [o], "
           f"<<<identity(o) => 1>>> == <<<identity(m) => 1>>>, "
           f"length(<<[m], [o]>>), length(<<m, 0>> - <<o>>)]")
    names = ["", "m == o", "o == m", "o in <<m>>", "m in <<o>>",
             "length(<<m, o>>)", "<<m>> == <<o>>", "map keyed by m read by o",
             "remove from map keyed by m using o", "remove from <<m>> using o",
             "m in [o]", "maps keyed by o and m equal", "length(<<[m], [o]>>)",
             "length(<<m, 0>> - <<o>>)"]
    want = [True, True, True, True, True, 1, True, 1, 0, 0, True, True, 1, 1]
    out = cklrun.run(src, budget=20)
    if out[0] != "value":
        if case["container"] == "object":
            return None
        return Finding(f"C06|mutated|{out[0]}", f"{src} -> {cklrun.short(out)}")
    got = cklrun.to_model(out[1])
    if got[0] is not True:
        return None      # renderings differ: C08's subject, not equality
    for g, w, nm in zip(got[1:], want[1:], names[1:]):
        if not (type(g) is type(w) and g == w):
            return Finding(f"C06|mutated|{case['container']}|{nm}",
                           f"{src} -> {nm} is {g!r}, expected {w!r} (m and "
                           f"o were built by the same steps)")
    return None


def _strip(e):
    import re
    return re.sub(r"<<.*>>", "<<..>>", e)[:40]


def prop(case):
    k = case["kind"]
    vals = [dec(x) for x in case.get("values", [])]
    if k == "api":
        return api_triple(vals)
    if k == "pair":
        return interp_pair(vals[0], vals[1])
    if k == "scenario":
        return scenario(vals[:-1], vals[-1], case["perm"])
    if k == "mutated":
        return mutated(case["case"])
    raise ValueError(k)


def _case(kind, vals, **kw):
    d = {"kind": kind, "values": [repr(v) for v in vals]}
    d.update(kw)
    return d


# --------------------------------------------------------------------- parts

def _triple(ch):
    a = gv.gen_value(ch, depth=ch.int(0, 3), maxlen=3)
    k = ch.int(0, 3)
    if k == 0:
        b = gv.variant(ch, a)
    elif k == 1:
        b = gv.mutate(ch, a)
    elif k == 2:
        b = gv.variant(ch, gv.mutate(ch, a))
    else:
        b = gv.gen_value(ch, depth=ch.int(0, 2), maxlen=3)
    k = ch.int(0, 3)
    if k == 0:
        c = gv.variant(ch, b)
    elif k == 1:
        c = gv.variant(ch, a)
    elif k == 2:
        c = gv.mutate(ch, b)
    else:
        c = gv.gen_value(ch, depth=ch.int(0, 2), maxlen=3)
    return [a, b, c]


def _nontrivial(vals):
    for x, y in itertools.combinations(vals, 2):
        if mv.meq(x, y) and not same_repr(x, y):
            return True
    return any(depth_of(v) >= 2 for v in vals)


def part_api(part, n):
    def body(tape):
        ch = TapeChooser(tape)
        vals = _triple(ch)
        part.count()
        if _nontrivial(vals):
            part.nontriv(repr(vals))
        part.cls("api:" + mv.kind(vals[0]),
                 repr(vals) if len(repr(vals)) < 300 else None)
        f = api_triple(vals)
        if f:
            return f, _case("api", vals)
    part.hyp(tapes(700), body, n)


def part_pairs(part, n):
    def body(tape):
        ch = TapeChooser(tape)
        vals = _triple(ch)[:2]
        part.count()
        if _nontrivial(vals):
            part.nontriv(repr(vals))
        part.cls("pair:" + ("equal" if mv.meq(*vals) else "unequal"),
                 repr(vals) if len(repr(vals)) < 300 else None)
        f = interp_pair(vals[0], vals[1])
        if f:
            return f, _case("pair", vals)
    part.hyp(tapes(700), body, n)


def part_scenarios(part, n):
    def body(tape):
        ch = TapeChooser(tape)
        ln = ch.int(1, 5)
        xs = []
        for _ in range(ln):
            if xs and ch.bool(0.35):
                xs.append(gv.variant(ch, ch.choice(xs)))
            else:
                xs.append(gv.gen_value(ch, depth=ch.int(0, 2), maxlen=3))
        y = gv.variant(ch, ch.choice(xs))
        perm = ch.shuffle(list(range(ln)))
        part.count()
        if perm != list(range(ln)) or _nontrivial(xs + [y]):
            part.nontriv((repr(xs), repr(y), perm))
        part.cls("scenario:len%d" % ln,
                 repr((xs, y, perm)) if len(repr(xs)) < 200 else None)
        f = scenario(xs, y, perm)
        if f:
            return f, _case("scenario", xs + [y], perm=perm)
    part.hyp(tapes(900), body, n)


def part_mutated(part, n):
    from vf.checks import c08

    def body(tape):
        ch = TapeChooser(tape)
        case = c08.gen_mutation_case(ch)
        part.count()
        if c08.mutation_nontrivial(case):
            part.nontriv(repr(case))
        part.cls("mutated:" + case["container"],
                 repr(case) if len(repr(case)) < 300 else None)
        f = mutated(case)
        if f:
            return f, {"kind": "mutated", "case": case}
    part.hyp(tapes(600), body, n)


def part_all_orders(part, n):
    """All insertion orders of <= 4 generated elements (5 in thorough)."""
    maxlen = 5 if part.tier == "thorough" else 4

    def body(tape):
        ch = TapeChooser(tape)
        ln = ch.int(2, maxlen)
        xs = []
        for _ in range(ln):
            if xs and ch.bool(0.3):
                xs.append(gv.variant(ch, ch.choice(xs)))
            else:
                xs.append(gv.gen_value(ch, depth=ch.int(0, 1), maxlen=2))
        y = gv.variant(ch, ch.choice(xs))
        part.cls("allorders:len%d" % ln)
        for perm in itertools.permutations(range(ln)):
            part.count()
            part.nontriv((repr(xs), perm))
            f = scenario(xs, y, list(perm))
            if f:
                return f, _case("scenario", xs + [y], perm=list(perm))
    part.hyp(tapes(600), body, n)


def parts(tier, seed):
    if tier == "quick":
        ps = [(f"api-{i}", part_api, {"n": 5000}) for i in range(5)]
        ps += [(f"pairs-{i}", part_pairs, {"n": 1200}) for i in range(4)]
        ps += [(f"scen-{i}", part_scenarios, {"n": 700}) for i in range(4)]
        ps += [(f"orders-{i}", part_all_orders, {"n": 40}) for i in range(3)]
        ps += [(f"mutated-{i}", part_mutated, {"n": 1500}) for i in range(3)]
    else:
        ps = [(f"api-{i}", part_api, {"n": 120000}) for i in range(5)]
        ps += [(f"pairs-{i}", part_pairs, {"n": 30000}) for i in range(4)]
        ps += [(f"scen-{i}", part_scenarios, {"n": 20000}) for i in range(4)]
        ps += [(f"orders-{i}", part_all_orders, {"n": 400}) for i in range(3)]
        ps += [(f"mutated-{i}", part_mutated, {"n": 30000}) for i in range(4)]
    return ps
