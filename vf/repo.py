"""Locate and import the interpreter under test.

The code under test is always the *working tree* of $VERIF_REPO (default /repo):
its src directory is put first on sys.path and the import is verified.
"""
import os
import sys

VERIF_DIR = os.path.dirname(os.path.dirname(os.path.abspath(__file__)))
REPO = os.path.abspath(os.environ.get("VERIF_REPO", "/repo"))
SRC = os.path.join(REPO, "src")
DEPS = os.path.join(VERIF_DIR, ".deps")


class HarnessError(Exception):
    """The machinery itself is broken (exit 2, never a VIOLATION)."""


_DONE = False


def bootstrap():
    global _DONE
    if _DONE:
        import ckl
        return ckl
    _DONE = True
    sys.dont_write_bytecode = True
    # interpreters bind the process's stdin; generated programs may read it
    # (readln(), for l in stdin ...) and must see end of input, not a terminal
    try:
        sys.stdin = open(os.devnull, encoding="utf-8")
    except OSError:
        pass
    if SRC in sys.path:
        sys.path.remove(SRC)
    sys.path.insert(0, SRC)
    if os.path.isdir(DEPS) and DEPS not in sys.path:
        sys.path.append(DEPS)
    for name in [n for n in sys.modules if n == "ckl" or n.startswith("ckl.")]:
        del sys.modules[name]
    import ckl  # noqa
    import ckl.interpreter  # noqa
    path = os.path.abspath(ckl.interpreter.__file__)
    if not path.startswith(SRC + os.sep):
        raise HarnessError(f"ckl imported from {path}, expected under {SRC}")
    sys.setrecursionlimit(5000)
    return ckl
