#!/usr/bin/env python
"""Reproductions for the C12 hunt (hash seed / process / construction order).

Run:  cd /tmp/seed3/C12 && PYTHONPATH=/tmp/seed3/C12/src /venv/bin/python hunt/repro.py

Prints one line per finding:  FINDING <n>: <VIOLATES|HOLDS> <description>
Only the ckl package and the standard library are used.  Every program is
executed in a fresh child process (with a timeout) under several values of
PYTHONHASHSEED; a finding VIOLATES when the observable result differs.
"""
import os
import subprocess
import sys

HERE = os.path.dirname(os.path.abspath(__file__))
SRC = os.path.join(os.path.dirname(HERE), "src")

CHILD = r"""
import sys, io, contextlib
from ckl.interpreter import Interpreter
from ckl.errors import CklRuntimeError, CklSyntaxError
legacy = sys.argv[1] == "1"
repeat = int(sys.argv[2])
src = sys.stdin.read()
it = Interpreter(secure=False, legacy=legacy)
keep = []  # results stay alive, as they would in a host application
for i in range(repeat):
    buf = io.StringIO()
    try:
        with contextlib.redirect_stdout(buf):
            v = it.interpret(src, "p.ckl")
        keep.append(v)
        print("VALUE", v)
    except CklRuntimeError as e:
        print("RTERR", e.value, e.msg, e.pos)
    except CklSyntaxError as e:
        print("SYNERR", e.msg, e.pos)
    except BaseException as e:
        print("PYEXC", type(e).__name__, e)
    print("OUT", repr(buf.getvalue()))
"""


def run(src, seed, legacy=True, repeat=1):
    env = dict(os.environ, PYTHONHASHSEED=str(seed), PYTHONPATH=SRC)
    try:
        p = subprocess.run(
            [sys.executable, "-c", CHILD, "1" if legacy else "0", str(repeat)],
            input=src, capture_output=True, text=True, env=env, timeout=20,
        )
        return p.stdout + p.stderr[-300:]
    except subprocess.TimeoutExpired:
        return "TIMEOUT"


def distinct_over_seeds(src, seeds=range(8), legacy=True):
    return len({run(src, s, legacy) for s in seeds})


def report(n, violates, text):
    print(f"FINDING {n}: {'VIOLATES' if violates else 'HOLDS'} {text}")
    sys.stdout.flush()


# ---------------------------------------------------------------- finding 1
# dates compare with numbers by their text, numbers with numbers by value:
# 3 < 100 < 20200101000000(date) < 3  -> no sorted order exists
f1a = distinct_over_seeds("list(<<3, 100, date('20200101')>>)")
f1b = distinct_over_seeds("string(<<3, 100, date('20200101')>>)", legacy=False)
f1c = distinct_over_seeds(
    "def s = <<20200101000004, date('20200101000004'), 'a'>>; "
    "[type(x) for x in s]")
f1d = distinct_over_seeds(
    "def r = []; for x in <<[3], [100], [date('20200101')]>> do "
    "r !> append(x) end; r")
report(1, f1a > 1 or f1b > 1 or f1c > 1 or f1d > 1,
       "set mixing numbers and dates enumerates/renders differently per "
       f"hash seed (distinct results over 8 seeds: list {f1a}, string {f1b}, "
       f"int/date tie {f1c}, nested in lists {f1d})")

# ---------------------------------------------------------------- finding 2
# same cause in maps: equal maps, different construction order, different
# rendering and enumeration (and the order is not sorted at all)
f2 = run(
    "def a = <<<3 => 'x', 100 => 'y', date('20200101') => 'z', 21 => 'w'>>>; "
    "def b = <<<3 => 'x', 100 => 'y', 21 => 'w', date('20200101') => 'z'>>>; "
    "[a == b, string(a) == string(b), [k for k in keys a] == "
    "[k for k in keys b]]", 0)
report(2, "[TRUE, FALSE, FALSE]" in f2,
       "equal maps with number and date keys render/enumerate differently "
       "depending on construction order: " + f2.split("\n")[0])

# ---------------------------------------------------------------- finding 3
# NaN in a set: hash is the address of the float, every comparison is false
f3_rep = run("list(<<2, decimal('nan'), 1, 7, 5, 3>>)", 0, repeat=40)
f3_inproc = len(set(l for l in f3_rep.split("\n") if l.startswith("VALUE")))
big = ("def s = set(range(0, 60000, 7)); s !> append(decimal('nan')); "
       "def l = list(s); def p = -1; "
       "for i in range(length(l)) do if l[i] != l[i] then p = i; end; p")
f3_proc = len({run(big, 0) for _ in range(5)})
report(3, f3_inproc > 1 or f3_proc > 1,
       "set containing NaN: same program gives different enumerations on "
       f"repeated runs in one interpreter ({f3_inproc} distinct of 40) and "
       f"in different processes with the SAME hash seed ({f3_proc} distinct "
       "of 5)")

# ---------------------------------------------------------------- finding 4
# distinct members with identical rendering are left in internal order
f4a = distinct_over_seeds(
    "def s = <<fn() 1, fn() 2, fn() 3, fn() 4>>; [f() for f in s]")
f4b = distinct_over_seeds(
    "def s = << <*a=1*>, <*a=1, _b=2*>, <*a=1, _c=3*> >>; "
    "[o->_b for o in s]")
f4c = distinct_over_seeds(
    "def a = str_output(); def b = str_output(); def s = <<a, b, 'q', 'r'>>; "
    "for o in s do if type(o) == 'output' then do print('x', o); break; end; "
    "end; [get_output_string(a), get_output_string(b)]")
f4d = distinct_over_seeds(
    "def s = <<parse('5'), 5, 'a'>>; [type(x) for x in s]", seeds=range(12))
report(4, f4a > 1 or f4b > 1 or f4c > 1 or f4d > 1,
       "set members that are unequal but render identically are enumerated "
       f"in hash order (distinct over seeds: lambdas {f4a}, objects with "
       f"hidden members {f4b}, output streams {f4c}, node vs int {f4d})")

# ---------------------------------------------------------------- finding 5
f5 = distinct_over_seeds(
    "def S = <<'pear', 'fig', 'apple', 'kiwi'>>; def l = ls('S'); "
    "[l[0] < l[1], l[1] < l[2], l[2] < l[3]]")
report(5, f5 > 1,
       "ls('S') with S a variable holding a set enumerates the set in "
       f"internal (hash) order ({f5} distinct results over 8 seeds)")

# ---------------------------------------------------------------- finding 6
f6 = run(
    "def a = <<<'x' => 1, 'y' => 1.0>>>; def b = <<<'y' => 1.0, 'x' => 1>>>; "
    "[a == b, string(a) == string(b), list(a), list(b)]", 0)
report(6, "[TRUE, TRUE, [1, 1.0], [1.0, 1]]" in f6,
       "(doubtful) list(map) of two identical maps differs with the "
       "construction order when values compare equal (1 and 1.0): "
       + f6.split("\n")[0])

# ---------------------------------------------------------------- finding 7
f7 = run(
    "[string(set([1, 1.0, 'a'])), string(set([1.0, 1, 'a'])), "
    "set([1, 1.0, 'a']) == set([1.0, 1, 'a'])]", 0)
report(7, "1>>" in f7 and "1.0>>" in f7 and "TRUE" in f7,
       "(doubtful) equal sets built from the same members in another order "
       "render differently (1 vs 1.0 representative): " + f7.split("\n")[0])
