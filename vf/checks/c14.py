"""C14  Program meaning is independent of layout, comments and literal spelling."""
from vf.core import Finding
from vf.gen.chooser import TapeChooser, tapes
from vf.gen import render as R
from vf.gen import programs as G
from vf.gen import layout as L
from vf import cklrun

PROPERTY = "C14"
RULE = (
    "Every program of the C02-C05 generators (expression trees, control-flow "
    "programs, error-handling scenarios, scoping/binding fragments) is "
    "re-rendered at least 10 times (thorough 20): at every token boundary one "
    "of {nothing where the tokens cannot fuse, space, spaces, TAB, LF, CRLF, "
    "comment + LF, blank lines, comment blocks}, a random tail (nothing, "
    "spaces, line break, trailing `;`, comment at end of input), optional "
    "`;` before end/catch/finally dropped, redundant parentheses around "
    "sub-expressions, and per literal an equivalent spelling (decimal / 0x / "
    "0b / underscored ints, underscored decimals, single or double quotes "
    "with \\xHH, \\n, \\t, \\\\ escapes, != vs <>). Oracle (metamorphic): value "
    "rendering, stdout and error value equal those of the canonical "
    "single-space rendering. Non-trivial = re-rendering that differs from the "
    "canonical text in >= 3 token boundaries or >= 1 literal spelling."
)
ASSUMPTIONS = [
    "a separator may be empty only next to ( [ , ; on the left or ) ] , ; on "
    "the right; line breaks inside string literals are not layout",
    "parentheses are added only around expression operands, arguments, "
    "elements, conditions and right-hand sides",
]


def outcome(src):
    out = cklrun.run(src, budget=5)
    if out[0] == "value":
        try:
            return ("value", str(out[1]), out[2])
        except Exception as e:
            return ("render-raises", type(e).__name__)
    if out[0] == "error":
        return ("error", str(out[1]), out[4])
    if out[0] == "host":
        return ("host", out[1], out[2])
    if out[0] == "syntax":
        return ("syntax", out[1])
    return (out[0],)


def gen_program(ch):
    k = ch.weighted([(3, "expr"), (3, "flow"), (3, "err"), (3, "scope"),
                     (2, "strs")])
    if k == "strs":
        # adversarial string literals: every escape form must respell safely
        from vf.gen import values as gv
        ss = [("str", gv.gen_string(ch, maxlen=6)) for _ in range(ch.int(1, 4))]
        items = list(ss)
        items.append(("bin", "+", ss[0], ss[-1]))
        items.append(("cmp", [ss[0], ss[-1]], [ch.choice(["==", "!=", "<>"])]))
        items.append(("call", ("var", "length"), [("pos", ss[0])]))
        items.append(("int", ch.int(0, 2 ** 40)))
        return k, [("def", "x", ("list", items)), ("expr", ("var", "x"))]
    if k == "expr":
        g = G.ExprGen(ch, max_depth=ch.int(2, 5))
        e = g.gen(ch.choice(["int", "dec", "bool", "str", "ilist", "null"]))
        return k, list(G.ExprGen.PRELUDE) + [("expr", e)]
    if k == "flow":
        return k, G.FlowGen(ch).program()
    if k == "err":
        g = G.ErrGen(ch)
        pre, sc = g.program(False)
        return k, G.wrap_scenario(pre, sc, ch.bool())
    return k, G.ScopeGen(ch).program()


def judge(canon_src, canon, text, got, stats):
    if canon[0] == "syntax":
        return None      # generator self-test failure is handled separately
    if got != canon:
        kind = got[0] if got[0] != canon[0] else "differs"
        what = []
        if stats.get("literals_respelled"):
            what.append("spelling")
        if stats.get("boundaries_changed"):
            what.append("layout")
        return Finding(f"C14|{kind}",
                       f"canonical: {canon_src!r}\n  -> {canon}\n  "
                       f"re-rendered: {text!r}\n  -> {got}")
    return None


def prop(case):
    canon = outcome(case["canonical"])
    got = outcome(case["text"])
    f = judge(case["canonical"], canon, case["text"], got, {})
    if f is not None and case.get("name"):
        f.signature = "C14|parentheses-around-a-juxtaposed-body|" + \
            case["name"]
    return f


def part_programs(part, n, variants):
    stats_total = {"canonical_syntax_errors": 0}

    def body(tape):
        ch = TapeChooser(tape)
        kind, stmts = gen_program(ch)
        canon_src = R.source(stmts)
        canon = outcome(canon_src)
        part.count()
        if canon[0] == "syntax":
            # generator self-test: every canonical rendering must parse
            raise RuntimeError(f"canonical rendering does not parse: "
                               f"{canon_src!r} -> {canon}")
        part.cls(f"program:{kind}:{canon[0]}")
        for v in range(variants):
            ast2 = L.add_parens(ch, stmts) if ch.bool(0.5) else stmts
            toks = R.program_tokens(ast2)
            st = {}
            text = L.relayout(ch, toks, st)
            got = outcome(text)
            part.count()
            if st["boundaries_changed"] >= 3 or st["literals_respelled"] >= 1:
                part.nontriv(text)
            if st["tail"].strip().startswith("#") or \
                    st["tail"].strip().startswith(";#"):
                part.cls("tail:comment-at-end-of-input")
            if "\r\n" in text:
                part.cls("layout:crlf")
            if "#" in text:
                part.cls("layout:comment")
            if ast2 is not stmts:
                part.cls("layout:redundant-parentheses")
            if st["literals_respelled"]:
                part.cls("spelling:literal", text if v == 0 and
                         len(text) < 300 else None)
            f = judge(canon_src, canon, text, got, st)
            if f:
                return f, {"kind": "layout", "canonical": canon_src,
                           "text": text}
    part.hyp(tapes(6000), body, n, shrink=False)


def part_suite_sources(part, variants):
    """Re-layout of hand-written snippets that exercise token adjacency."""
    from ckl.lexer import Lexer
    snippets = [
        "def f(x) x * 2; [f(1), f(2)]",
        "def m = <<<'a' => 1, 'b' => 2>>>; [k for k in keys m]",
        "def s = <<3, 1, 2>>; [x for x in s if x != 2]",
        "def o = <*a = 1, b = 2*>; o->a + o->b",
        "[1, 2, 3] !> length()",
        "def l = [1, 2, 3]; l[0 to 2] + l[-1]",
        "if 1 < 2 <= 2 then 'y' else 'n'",
        "do error 5 catch 5 'five' finally 0 end",
        "def g(a, b = 2, r...) [a, b, r...]; g(1, 2, 3, ...[4, 5])",
        "'a' + \"b\" + 'c\\'d'",
        "not TRUE or FALSE and TRUE",
        "- 5 + 3 * 2 % 4 / 1",
        "require Math; Math->abs(-3)",
        "def x = 0x1F + 0b11 + 1_000; x",
        "'abc' is not empty and [] is empty",
        "1 in [1, 2] and 3 not in [1, 2]",
        "for i in range(3) do if i == 1 then continue end; i",
        "def c = 0; while c < 3 do c += 1 end; c",
    ]
    from vf.gen.chooser import RandomChooser
    for si, sn in enumerate(snippets):
        toks = [(_kind(t), _text(t), _payload(t))
                for t in Lexer(sn, "s").scan().tokens]
        canon = outcome(sn)
        for v in range(variants):
            ch = RandomChooser(part.seed * 1000 + si * 37 + v)
            st = {}
            text = L.relayout(ch, toks, st)
            got = outcome(text)
            part.count()
            part.nontriv(text)
            part.cls("snippet")
            part.collect(judge(sn, canon, text, got, st),
                         {"kind": "layout", "canonical": sn, "text": text})


def _kind(t):
    return {"int": "int", "decimal": "dec", "string": "str",
            "keyword": "kw", "identifier": "id", "operator": "op",
            "interpunction": "punct", "boolean": "bool",
            "pattern": "pattern"}[t.type]


def _text(t):
    if t.type == "string":
        return R.str_token(t.value)[1]
    return t.value


def _payload(t):
    if t.type == "int":
        return int(t.value)
    if t.type == "string":
        return t.value
    return None


# Places where the grammar puts two expressions side by side (a loop or a
# handler whose body is not a do-block): parentheses around the second one.
JUXTAPOSED = [
    ("for-body", "def l = [1, 2, 3]; def r = []; for x in l append(r, x); r",
     "def l = [1, 2, 3]; def r = []; for x in l (append(r, x)); r"),
    ("for-body-after-call",
     "def r = []; for x in range(3) append(r, x); r",
     "def r = []; for x in range(3) (append(r, x)); r"),
    ("catch-handler", "def e = 'E1'; do error 'E1' catch e 'caught' end",
     "def e = 'E1'; do error 'E1' catch e ('caught') end"),
    ("while-body", "def i = 0; while i < 3 i += 1; i",
     "def i = 0; while i < 3 (i += 1); i"),
    ("if-then", "def a = [1]; if TRUE then a else 2",
     "def a = [1]; if TRUE then (a) else (2)"),
    ("lambda-body", "def f = fn(x) x; f(1)", "def f = fn(x) (x); f(1)"),
]


# statements that may stand in parentheses like any expression
PARENTHESISED = [
    ("value-less-return",
     "def f(x) do if x then return; 1 end; [f(TRUE), f(FALSE)]",
     "def f(x) do if x then (return); 1 end; [f(TRUE), f(FALSE)]"),
    ("if-with-value-less-return",
     "def f(x) do if x then return; 1 end; [f(TRUE), f(FALSE)]",
     "def f(x) do (if x then return); 1 end; [f(TRUE), f(FALSE)]"),
    ("lambda-body-value-less-return", "def f() return; f()",
     "def f() (return); f()"),
    ("return-before-else", "def f(x) if x then do return end else 5; f(TRUE)",
     "def f(x) if x then return else 5; f(TRUE)"),
    ("return-value", "def f() return 7; f()", "def f() (return (7)); f()"),
    ("break", "for i in [1, 2] do break end", "for i in [1, 2] do (break) end"),
    ("continue", "def r = []; for i in [1, 2] do continue; append(r, i) end; r",
     "def r = []; for i in [1, 2] do (continue); append(r, i) end; r"),
    ("error", "do error 'x' catch 'x' 1 end", "do (error ('x')) catch ('x') 1 end"),
    ("def", "def a = 1; a", "(def a = (1)); (a)"),
    ("assignment", "def a = 1; a = 2; a", "def a = 1; (a = 2); a"),
    ("block", "do 1; 2 end", "(do (1); (2) end)"),
    # an expression that begins with a block and goes on behind its `end`
    ("block-then-operator", "def x = do 1; 2 end + 1; x",
     "def x = (do 1; 2 end + 1); x"),
    ("block-then-operator-in-list", "[do 1 end + 1]", "[(do 1 end + 1)]"),
    ("block-then-operator-argument", "string(do 1 end + 1)",
     "string((do 1 end + 1))"),
    ("block-then-operator-operand", "1 + do 1; 2 end * 3",
     "1 + (do 1; 2 end * 3)"),
    ("block-then-and", "if do TRUE end and TRUE then 1 else 2",
     "if (do TRUE end and TRUE) then 1 else 2"),
    ("block-then-operator-statement", "def r = 0; r = do 1 end + 1; r",
     "def r = 0; r = (do 1 end + 1); r"),
    ("block-then-comparison", "do 1 end == 1", "(do 1 end == 1)"),
    # a value-less return before every closing token
    ("return-before-object-end", "def o = <* f(self) (return) *>; o->f()",
     "def o = <* f(self) return *>; o->f()"),
    ("return-before-map-end", "<<<1 => fn() (return)>>>[1]()",
     "<<<1 => fn() return>>>[1]()"),
    ("return-before-set-end", "[f() for f in <<fn() (return)>>]",
     "[f() for f in <<fn() return>>]"),
    ("return-before-for", "[fn() (return) for x in [1]][0]()",
     "[fn() return for x in [1]][0]()"),
    ("return-before-if", "[fn() (return) for x in [1] if TRUE][0]()",
     "[fn() (return) for x in [1] if TRUE][0]()"),
    ("return-before-then", "def f() if (return) then 1 else 2; f()",
     "def f() if return then 1 else 2; f()"),
]


def part_juxtaposed(part):
    for name, canonical, text in PARENTHESISED:
        part.count()
        part.distinct()
        part.cls("parenthesised:" + name, text)
        f = judge(canonical, outcome(canonical), text, outcome(text), {})
        if f is not None:
            f.signature = "C14|parenthesised-statement|" + name
        part.collect(f, {"kind": "layout", "canonical": canonical,
                         "text": text})
    for name, canonical, text in JUXTAPOSED:
        part.count()
        part.distinct()
        part.cls("juxtaposed:" + name, text)
        canon = outcome(canonical)
        got = outcome(text)
        f = judge(canonical, canon, text, got, {})
        if f is not None:
            f.signature = "C14|parentheses-around-a-juxtaposed-body|" + name
        part.collect(f, {"kind": "layout", "canonical": canonical,
                         "text": text, "name": name})
    part.exhaustive = True


def parts(tier, seed):
    if tier == "quick":
        ps = [(f"programs-{i}", part_programs, {"n": 300, "variants": 10})
              for i in range(12)]
        ps += [("snippets", part_suite_sources, {"variants": 40})]
        ps += [("juxtaposed", part_juxtaposed, {})]
    else:
        ps = [(f"programs-{i}", part_programs, {"n": 4000, "variants": 20})
              for i in range(12)]
        ps += [("snippets", part_suite_sources, {"variants": 2000})]
        ps += [("juxtaposed", part_juxtaposed, {})]
    return ps
