#!/usr/bin/env python
"""Reproductions for the second C17 hunt (dates <-> day numbers, date arithmetic).

Run:  cd /tmp/seed4/C17 && PYTHONPATH=/tmp/seed4/C17/src /venv/bin/python hunt/repro.py
Prints one line per finding:  FINDING <n>: <VIOLATES|HOLDS> <description>
Finding 0 is the re-check of the items repaired after the first hunt.
"""
import datetime
import signal

from ckl.interpreter import Interpreter
from ckl.errors import CklRuntimeError, CklSyntaxError


class Timeout(Exception):
    pass


def _alarm(signum, frame):
    raise Timeout()


signal.signal(signal.SIGALRM, _alarm)


def run(src, legacy=True, it=None):
    """Returns ('ok', str(value)) / ('ckl', msg) / ('host', repr(exc))."""
    signal.alarm(10)
    try:
        it = it or Interpreter(secure=False, legacy=legacy)
        return ("ok", str(it.interpret(src, "repro.ckl")))
    except (CklRuntimeError, CklSyntaxError) as e:
        return ("ckl", e.msg)
    except Timeout:
        return ("host", "timeout")
    except BaseException as e:  # host exception leaking out
        return ("host", repr(e))
    finally:
        signal.alarm(0)


def report(n, violates, text):
    print("FINDING %d: %s %s" % (n, "VIOLATES" if violates else "HOLDS", text))


# 0 ------------------------------------------------------------------
# the items repaired after the first hunt
checks = [
    ("(date('20240101100000') + 30000) - date('20240101100000')", ("ok", "30000")),
    ("(date('19890916000007') + 1) - date('19890916000007')", ("ok", "1")),
    ("(date('19441025095901') + 58) - date('19441025095901')", ("ok", "58")),
    ("int(date('1899122912'))", ("ok", "-1")),
    ("int(date('1899123012'))", ("ok", "0")),
    ("date(int(date('18000101120000')))", ("ok", "18000101000000")),
    ("int(date(-5.25))", ("ok", "-6")),
]
bad = []
for legacy in (True, False):
    for p, want in checks:
        got = run(p, legacy)
        if got != want:
            bad.append((p, got))
for p in ("date('20200101') + pow(10, 400)", "date('20200101') - pow(10, 400)"):
    got = run(p)
    if got[0] != "ckl":
        bad.append((p, got))
report(0, bool(bad),
       "re-check of the repaired items of the first hunt ((d + n) - d exact, "
       "int(date) floors, date +/- huge int is a runtime error)"
       + (": " + repr(bad) if bad else ""))

# 1 ------------------------------------------------------------------
# (doubtful) a timezone-aware datetime bound by the host becomes a date value
# for which the date difference / comparison leak a host TypeError and the
# round trips are not the identity.
it = Interpreter(secure=False, legacy=True)
it.environment.put(
    "y", datetime.datetime(2024, 1, 1, 12, 0, 0, tzinfo=datetime.timezone.utc))
r1 = run("(y + 1) - y", it=it)
r2 = run("(y + 1) - 1 == y", it=it)
r3 = run("date(decimal(y)) == y", it=it)
viol = r1 != ("ok", "1") or r2 != ("ok", "TRUE") or r3 != ("ok", "TRUE")
report(1, viol,
       "(doubtful) host-bound timezone-aware datetime: (y + 1) - y -> %s; "
       "(y + 1) - 1 == y -> %s; date(decimal(y)) == y -> %s"
       % (r1[1], r2[1], r3[1]))

# 2 ------------------------------------------------------------------
# (doubtful) a decimal a hair below a whole number: next day for small day
# numbers, same day (clamped to 23:59:59.999) for larger ones.
r_a = run("int(date(4999.999999999999))")
r_b = run("int(date(45000.99999999999))")
viol = r_a != ("ok", "4999") or r_b != ("ok", "45000")
report(2, viol,
       "(doubtful) int(date(4999.999999999999)) -> %s (int of the number is "
       "4999) while int(date(45000.99999999999)) -> %s" % (r_a[1], r_b[1]))
