#!/usr/bin/env python
"""Reproductions for the third C02 hunt (operators / exact integer arithmetic).

Run:  cd /tmp/seed6/C02 && PYTHONPATH=/tmp/seed6/C02/src /venv/bin/python hunt/repro.py
Prints one line per finding: FINDING <n>: <VIOLATES|HOLDS> <short description>
(all three findings are classified doubtful, see FINDINGS.md)
"""
import os
import signal
import sys

sys.path.insert(0, os.path.join(os.path.dirname(os.path.abspath(__file__)),
                                "..", "src"))

from ckl.interpreter import Interpreter  # noqa: E402
from ckl.errors import CklRuntimeError, CklSyntaxError  # noqa: E402


class Timeout(BaseException):
    pass


def _alarm(*_):
    raise Timeout()


signal.signal(signal.SIGALRM, _alarm)

_ITS = {}


def interp(legacy):
    if legacy not in _ITS:
        _ITS[legacy] = Interpreter(secure=False, legacy=legacy)
    return _ITS[legacy]


def run(src, legacy=True, limit=10, it=None):
    """-> ('OK', text, type) | ('RT', msg) | ('SYN', msg) | ('PY', name)
    | ('HANG',)"""
    if it is None:
        it = interp(legacy)
        env = it.environment.newEnv()
    else:
        env = None
    signal.alarm(limit)
    try:
        v = it.interpret(src, "repro.ckl", env)
        return ("OK", repr(v), v.type())
    except Timeout:
        return ("HANG",)
    except CklRuntimeError as e:
        return ("RT", e.msg)
    except CklSyntaxError as e:
        return ("SYN", e.msg)
    except BaseException as e:  # host exception leaking out
        return ("PY", type(e).__name__)
    finally:
        signal.alarm(0)


def ok(r, text, typ=None):
    return r[0] == "OK" and r[1] == text and (typ is None or r[2] == typ)


def both(pred):
    return pred(True) and pred(False)


def report(n, holds, desc):
    print(f"FINDING {n}: {'HOLDS' if holds else 'VIOLATES'} {desc}")


# 1. `is numerical` / `is alphanumerical`: trailing line feed, '' and NULL
def f1(legacy):
    a = run("'12\\n' is numerical", legacy)             # expected FALSE
    b = run("'ab\\n' is not alphanumerical", legacy)    # expected TRUE
    c = run("['' is numerical, is_numerical('')]", legacy)
    d = run("NULL is numerical", legacy)
    return (ok(a, "FALSE") and ok(b, "TRUE")
            and ok(c, "[FALSE, FALSE]") and ok(d, "FALSE"))


report(1, both(f1),
       "[doubtful] `'12\\n' is numerical` and `'ab\\n' is alphanumerical` are "
       "TRUE (a line feed at the end is accepted); `'' is numerical` and "
       "`NULL is numerical` are TRUE while is_numerical('') is FALSE")


# 2. membership in a set / map after an element was changed in place
def f2(legacy):
    a = run("def l = [1]; def s = <<l>>; append(l, 2); "
            "[l in s, [1, 2] in s, l in list(s), [x in s for x in s]]",
            legacy)
    b = run("def s = <<'abc'>>; for e in s do e[0] = 'X'; end; "
            "['Xbc' in s, 'Xbc' in list(s)]", legacy)
    c = run("def l = [1]; def m = <<<l => 1>>>; append(l, 2); "
            "[l in m, [k == l for k in keys m]]", legacy)
    return (ok(a, "[TRUE, TRUE, TRUE, [TRUE]]") and ok(b, "[TRUE, TRUE]")
            and ok(c, "[TRUE, [TRUE]]"))


report(2, both(f2),
       "[doubtful] after an element of a set (a key of a map) was changed in "
       "place (append to a list, s[0] = 'X' on a string) `x in s` is FALSE "
       "for every x, also for the element itself: [x in s for x in s] is "
       "[FALSE] while x in list(s) is TRUE")


# 3. a host variable holding a Python bool is an int that prints as True
def f3(legacy):
    it = Interpreter(secure=False, legacy=legacy)
    it.environment.put("flag", True)
    a = run("flag", it=it)
    b = run("flag and TRUE", it=it)
    c = run("flag + 1", it=it)
    return ok(a, "TRUE", "boolean") and ok(b, "TRUE") and c[0] == "RT"


report(3, both(f3),
       "[doubtful, host API] environment.put('flag', True): `flag` is the "
       "int `True` (type int, prints True), `flag and TRUE` is 'Expected "
       "boolean but got int', `flag + 1` is 2 (the bool branch of "
       "Environment.get is behind the int branch)")


# re-check of the items of the earlier reports that were repaired
def f4(legacy):
    big = str(2 ** 1024)
    x = "1" + "0" * 2200
    checks = [
        ok(run("'a' is 'not'", legacy), "FALSE"),
        run("1 is 'not' 2", legacy)[0] == "SYN",
        ok(run("'a' is not 'in'", legacy), "TRUE"),
        run("[] * 9223372036854775808", legacy, limit=5)[0] in ("OK", "RT"),
        all(run(f"{big} {op} 0.5", legacy)[0] in ("OK", "RT")
            for op in "+-*/%"),
        ok(run("9" * 4301 + " > 1", legacy), "TRUE"),
        run(f"def x = {x}; '' + x * x", legacy)[0] in ("OK", "RT"),
        run(f"def x = {x}; (x * x) / 0", legacy)[0] == "RT",
        run("'' + -0.0", legacy) == run("'' + -(0.0)", legacy),
    ]
    return all(checks)


report(4, both(f4),
       "re-check of the repaired items of the earlier reports (`is 'not'`, "
       "list * huge int, 2^1024 with decimals, ints beyond 4300 digits, "
       "-(0.0)); HOLDS = they are repaired")
