"""Reproductions for the second C08 hunt (rendering is canonical / data
literals round-trip).  Run with:

  cd /tmp/seed4/C08 && PYTHONPATH=/tmp/seed4/C08/src /venv/bin/python hunt/repro.py

Prints one line per finding: FINDING <n>: <VIOLATES|HOLDS> <description>
"""
import itertools
import os
import signal
import sys

sys.path.insert(
    0, os.path.join(os.path.dirname(os.path.abspath(__file__)), "..", "src")
)

from ckl.interpreter import Interpreter  # noqa: E402
from ckl.errors import CklRuntimeError, CklSyntaxError  # noqa: E402


class Timeout(Exception):
    pass


def _alarm(*_):
    raise Timeout()


signal.signal(signal.SIGALRM, _alarm)


def interp(legacy=True):
    return Interpreter(secure=True, legacy=legacy)


def finding1():
    """A string / list that is a map key or a set element is held by
    reference and can be changed in place afterwards."""
    bad = []
    for legacy in (True, False):
        mode = "legacy" if legacy else "non-legacy"
        # (a) the map can no longer be rendered: host KeyError, which
        #     `catch all` does not see either
        for src in [
            "def m = <<<'ab' => 1>>>; for k in keys m do k[0] = 'x' end; "
            "do string(m) catch all 'caught' end",
            "def k = 'a'; def m = <<<>>>; m[k] = 1; k[0] = 'b'; string([m])",
            "def k = [1]; def m = <<<>>>; m[k] = 'x'; k[0] = 5; string(m)",
        ]:
            it = interp(legacy)
            try:
                it.interpret(src, "f1.ckl")
            except (CklRuntimeError, CklSyntaxError):
                pass
            except KeyError as e:
                bad.append(f"{mode}: rendering the map raises KeyError({e})")
        # (b) the set renders, but with equal members twice, or to a text
        #     that evaluates to a set which is not equal to it
        for src, what in [
            ("def s = <<'ab', 'xb'>>; for e in s do e[0] = 'x' end; "
             "[string(s), eval(string(s)) == s, s == eval(string(s))]",
             "set of strings, element changed through the loop variable"),
            ("def s = <<'ab', 'cd'>>; for e in s do e[0] = 'x' end; "
             "[string(s), eval(string(s)) == s, s == eval(string(s))]",
             "set of strings, no duplicates after the change"),
            ("def a = [1]; def b = [2]; def s = <<a, b>>; b[0] = 1; "
             "[string(s), eval(string(s)) == s, s == eval(string(s))]",
             "set of lists, element changed through an alias"),
        ]:
            it = interp(legacy)
            r = it.interpret(src, "f1.ckl")
            text, eq1, eq2 = r.value[0].value, r.value[1].value, r.value[2].value
            if not (eq1 and eq2):
                bad.append(f"{mode}: {what}: text {text} does not evaluate "
                           f"to an equal set")
    return bad


def finding2():
    """NULL is an ordinary variable of the base environment: it can be
    reassigned (also in secure mode), after which the text of every value
    that contains NULL evaluates to something else."""
    bad = []
    for legacy in (True, False):
        it = interp(legacy)
        it.interpret("def v = [NULL, <<<'a' => NULL>>>]", "f2.ckl")
        before = it.interpret("eval(string(v)) == v", "f2.ckl").value
        it.interpret("NULL = 0", "f2.ckl")
        after = it.interpret("eval(string(v)) == v", "f2.ckl").value
        text = it.interpret("string(v)", "f2.ckl").value
        back = it.interpret("string(eval(string(v)))", "f2.ckl").value
        if before and not after:
            bad.append(f"after `NULL = 0` the text {text} evaluates to {back}")
    return bad


def finding3():
    """The order used for rendering is not a total order: -0.0 sorts before
    a pattern and the pattern before 0 / 0.0 (text comparison), but
    -0.0 == 0 (numeric comparison), so lists headed by them form a cycle.
    The same three elements then render in an order that depends on how the
    set was built."""
    bad = []
    it = interp(True)
    # the list hash is the sum of the element hashes and the hash of the
    # pattern depends on PYTHONHASHSEED: vary an int in the pattern's list
    # so that every slot of the host set is tried
    for k in range(8):
        elems = ["[-0.0, 1]", f"[//a//, {k}]", "[0.0, 0]"]
        texts = set()
        for perm in itertools.permutations(elems):
            v = it.interpret("<<" + ", ".join(perm) + ">>", "f3.ckl")
            texts.add(str(v))
        if len(texts) > 1:
            bad.append("the same 3 elements render as " + " / ".join(sorted(texts)))
        keys = ["[-0.0, 1]", f"[//a//, {k}]", "[0.0, 0]"]
        texts = set()
        for perm in itertools.permutations(keys):
            v = it.interpret(
                "<<<" + ", ".join(f"{p} => 1" for p in perm) + ">>>", "f3.ckl"
            )
            texts.add(str(v))
        if len(texts) > 1:
            bad.append("the same 3 keys render as " + " / ".join(sorted(texts)))
    return bad


def earlier_items():
    """status of the items of the earlier report (not counted as findings)"""
    it = Interpreter(secure=True, legacy=True)
    out = []

    def rt(src):
        try:
            v = it.interpret(src, "e.ckl")
            w = it.interpret(str(v), "e2.ckl")
            return type(v) is type(w) and v == w and str(v) == str(w)
        except (CklRuntimeError, CklSyntaxError):
            return False

    out.append(("earlier 1 (NULL map key)",
                rt("def m = <<<>>>; m[NULL] = 1; m")))
    out.append(("earlier 2 (patterns with / at an edge, //, empty)",
                rt("pattern('a//b')") and rt("pattern('')")))
    out.append(("earlier 3 (decimal carrying a big int)",
                rt("[decimal(9007199254740993), round(12345678901234567891, 2)]")))
    out.append(("earlier 6 (ints above 4300 digits)",
                rt("[pow(10, 5000)]")))
    return out


FINDINGS = [
    (1, finding1,
     "a key / element changed in place leaves a map that cannot be rendered "
     "(host KeyError) or a set whose text evaluates to an unequal set"),
    (2, finding2,
     "NULL can be reassigned; the text NULL then evaluates to another value"),
    (3, finding3,
     "equal sets/maps with identical elements render in different orders "
     "(comparison cycle -0.0 < pattern < 0.0 == -0.0 inside lists)"),
]

if __name__ == "__main__":
    for n, fn, desc in FINDINGS:
        signal.alarm(30)
        try:
            bad = fn()
            verdict = "VIOLATES" if bad else "HOLDS"
            detail = f" [{len(bad)} case(s); e.g. {bad[0]}]" if bad else ""
        except Timeout:
            verdict, detail = "VIOLATES", " [probe timed out]"
        except Exception as e:  # noqa: BLE001
            verdict, detail = "HOLDS", f" [probe error {type(e).__name__}: {e}]"
        finally:
            signal.alarm(0)
        print(f"FINDING {n}: {verdict} {desc}{detail}")
    signal.alarm(30)
    try:
        for name, ok in earlier_items():
            print(f"  note: {name}: {'round-trips now' if ok else 'still fails'}")
    finally:
        signal.alarm(0)
